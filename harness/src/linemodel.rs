//! Reference model of the DWARF line-number program: header assembler,
//! instruction encoder/decoder and state machine (DESIGN.md appendix A.3).
#![allow(dead_code)]

use crate::enc::{mask, W};

pub const STD_LENGTHS: [u8; 12] = [0, 1, 1, 1, 1, 0, 0, 0, 1, 0, 0, 1];

#[derive(Clone, Debug, PartialEq)]
pub enum PathVal {
    Inline(Vec<u8>),
    LineStrp(u64),
    Strp(u64),
    /// form, index  (strx=0x1a, strx1..4=0x25..0x28, GNU_str_index=0x1f02)
    Strx(u16, u64),
    /// form, offset into the supplementary file's .debug_str  (strp_sup=0x1d, GNU_strp_alt=0x1f21)
    StrpSup(u16, u64),
}

#[derive(Clone, Debug, PartialEq)]
pub struct FileSpec {
    pub path: PathVal,
    pub dir: u64,
    pub mtime: u64,
    pub size: u64,
    pub md5: [u8; 16],
    pub source: Option<PathVal>,
}

#[derive(Clone, Debug)]
pub struct LineHeader {
    pub version: u16,
    pub format64: bool,
    pub address_size: u8,
    pub min_inst_len: u8,
    pub max_ops: u8,
    pub default_is_stmt: bool,
    pub line_base: i8,
    pub line_range: u8,
    pub opcode_base: u8,
    pub std_lengths: Vec<u8>,
    pub dirs: Vec<PathVal>,
    pub files: Vec<FileSpec>,
    /// v5: (content type, form) lists
    pub dir_format: Vec<(u64, u16)>,
    pub file_format: Vec<(u64, u16)>,
    /// garbage between the end of the tables and the program (covered by header_length)
    pub header_pad: Vec<u8>,
}

pub const FORM_STRING: u16 = 0x08;
pub const FORM_LINE_STRP: u16 = 0x1f;
pub const FORM_STRP: u16 = 0x0e;
pub const FORM_UDATA: u16 = 0x0f;
pub const FORM_DATA1: u16 = 0x0b;
pub const FORM_DATA2: u16 = 0x05;
pub const FORM_DATA4: u16 = 0x06;
pub const FORM_DATA8: u16 = 0x07;
pub const FORM_DATA16: u16 = 0x1e;
pub const FORM_BLOCK: u16 = 0x09;
pub const FORM_BLOCK1: u16 = 0x0a;
pub const FORM_SDATA: u16 = 0x0d;
pub const FORM_FLAG: u16 = 0x0c;
pub const FORM_SEC_OFFSET: u16 = 0x17;

fn write_path(w: &mut W, p: &PathVal, form: u16, format64: bool) {
    match (p, form) {
        (PathVal::Inline(b), _) => {
            w.cstr(b);
        }
        (PathVal::LineStrp(o), _) | (PathVal::Strp(o), _) | (PathVal::StrpSup(_, o), _) => {
            w.word(*o, format64);
        }
        (PathVal::Strx(f, i), _) => match *f {
            0x25 => {
                w.u8(*i as u8);
            }
            0x26 => {
                w.u16(*i as u16);
            }
            0x27 => {
                w.uint(*i, 3);
            }
            0x28 => {
                w.u32(*i as u32);
            }
            _ => {
                w.uleb(*i);
            }
        },
    }
}

pub fn path_form(p: &PathVal) -> u16 {
    match p {
        PathVal::Inline(_) => FORM_STRING,
        PathVal::LineStrp(_) => FORM_LINE_STRP,
        PathVal::Strp(_) => FORM_STRP,
        PathVal::Strx(f, _) => *f,
        PathVal::StrpSup(f, _) => *f,
    }
}

fn write_num(w: &mut W, v: u64, form: u16, format64: bool) {
    match form {
        FORM_DATA1 | FORM_FLAG => {
            w.u8(v as u8);
        }
        FORM_DATA2 => {
            w.u16(v as u16);
        }
        FORM_DATA4 => {
            w.u32(v as u32);
        }
        FORM_DATA8 => {
            w.u64(v);
        }
        FORM_SDATA => {
            w.sleb(v as i64);
        }
        FORM_SEC_OFFSET => {
            w.word(v, format64);
        }
        FORM_BLOCK => {
            w.uleb(2).u8(v as u8).u8(0xee);
        }
        FORM_BLOCK1 => {
            w.u8(1).u8(v as u8);
        }
        FORM_DATA16 => {
            w.bytes(&[v as u8; 16]);
        }
        FORM_STRING => {
            w.cstr(b"x");
        }
        _ => {
            w.uleb(v);
        }
    }
}

/// What a numeric field reads back as under `form` (value truncated to the form's width), or None if gimli ignores it.
pub fn num_readback(v: u64, form: u16) -> Option<u64> {
    match form {
        FORM_DATA1 => Some(v & 0xff),
        FORM_DATA2 => Some(v & 0xffff),
        FORM_DATA4 => Some(v & 0xffff_ffff),
        FORM_DATA8 | FORM_UDATA => Some(v),
        FORM_SDATA => {
            if (v as i64) < 0 {
                None
            } else {
                Some(v)
            }
        }
        _ => None,
    }
}

/// Assemble a complete line program (header + `program` bytes). Returns (bytes, offset of the program start).
pub fn build_line(h: &LineHeader, big: bool, program: &[u8]) -> (Vec<u8>, usize) {
    let mut w = W::new(big);
    let tok = w.begin_length(h.format64);
    w.u16(h.version);
    if h.version >= 5 {
        w.u8(h.address_size).u8(0);
    }
    let hl_at = w.len();
    w.word(0, h.format64);
    let hstart = w.len();
    w.u8(h.min_inst_len);
    if h.version >= 4 {
        w.u8(h.max_ops);
    }
    w.u8(h.default_is_stmt as u8).u8(h.line_base as u8).u8(h.line_range).u8(h.opcode_base);
    for i in 0..(h.opcode_base as usize).saturating_sub(1) {
        w.u8(h.std_lengths.get(i).copied().unwrap_or(0));
    }
    if h.version <= 4 {
        for d in &h.dirs {
            if let PathVal::Inline(b) = d {
                w.cstr(b);
            }
        }
        w.u8(0);
        for f in &h.files {
            if let PathVal::Inline(b) = &f.path {
                w.cstr(b);
                w.uleb(f.dir).uleb(f.mtime).uleb(f.size);
            }
        }
        w.u8(0);
    } else {
        w.u8(h.dir_format.len() as u8);
        for (ct, form) in &h.dir_format {
            w.uleb(*ct).uleb(*form as u64);
        }
        w.uleb(h.dirs.len() as u64);
        for d in &h.dirs {
            for (ct, form) in &h.dir_format {
                if *ct == 1 {
                    write_path(&mut w, d, *form, h.format64);
                } else {
                    write_num(&mut w, 0x5a, *form, h.format64);
                }
            }
        }
        w.u8(h.file_format.len() as u8);
        for (ct, form) in &h.file_format {
            w.uleb(*ct).uleb(*form as u64);
        }
        w.uleb(h.files.len() as u64);
        for f in &h.files {
            for (ct, form) in &h.file_format {
                match *ct {
                    1 => write_path(&mut w, &f.path, *form, h.format64),
                    2 => write_num(&mut w, f.dir, *form, h.format64),
                    3 => write_num(&mut w, f.mtime, *form, h.format64),
                    4 => write_num(&mut w, f.size, *form, h.format64),
                    5 => {
                        if *form == FORM_DATA16 {
                            w.bytes(&f.md5);
                        } else {
                            write_num(&mut w, 0x33, *form, h.format64);
                        }
                    }
                    0x2001 => match &f.source {
                        Some(p) => write_path(&mut w, p, *form, h.format64),
                        None => write_path(&mut w, &PathVal::Inline(vec![]), *form, h.format64),
                    },
                    _ => write_num(&mut w, 0x77, *form, h.format64),
                }
            }
        }
    }
    w.bytes(&h.header_pad);
    let hl = (w.len() - hstart) as u64;
    w.patch(hl_at, hl, if h.format64 { 8 } else { 4 });
    let prog_at = w.len();
    w.bytes(program);
    w.end_length(tok);
    (w.buf, prog_at)
}

// ---------------------------------------------------------------------------
// Instructions
// ---------------------------------------------------------------------------

#[derive(Clone, Debug, PartialEq)]
pub enum LOp {
    Special(u8),
    Copy,
    AdvancePc(u64),
    AdvanceLine(i64),
    SetFile(u64),
    SetColumn(u64),
    NegateStmt,
    SetBasicBlock,
    ConstAddPc,
    FixedAdvancePc(u16),
    SetPrologueEnd,
    SetEpilogueBegin,
    SetIsa(u64),
    UnknownStd(u8, Vec<u64>),
    /// extended ops carry `extra` padding bytes inside their length
    EndSequence(usize),
    SetAddress(u64, usize),
    DefineFile(Vec<u8>, u64, u64, u64, usize),
    SetDiscriminator(u64, usize),
    UnknownExt(u8, Vec<u8>),
}

pub fn encode_lop(op: &LOp, h: &LineHeader, w: &mut W) {
    let pad = |w: &mut W, n: usize| {
        for _ in 0..n {
            w.u8(0xa5);
        }
    };
    match op {
        LOp::Special(b) => {
            w.u8(*b);
        }
        LOp::Copy => {
            w.u8(1);
        }
        LOp::AdvancePc(v) => {
            w.u8(2).uleb(*v);
        }
        LOp::AdvanceLine(v) => {
            w.u8(3).sleb(*v);
        }
        LOp::SetFile(v) => {
            w.u8(4).uleb(*v);
        }
        LOp::SetColumn(v) => {
            w.u8(5).uleb(*v);
        }
        LOp::NegateStmt => {
            w.u8(6);
        }
        LOp::SetBasicBlock => {
            w.u8(7);
        }
        LOp::ConstAddPc => {
            w.u8(8);
        }
        LOp::FixedAdvancePc(v) => {
            w.u8(9).u16(*v);
        }
        LOp::SetPrologueEnd => {
            w.u8(10);
        }
        LOp::SetEpilogueBegin => {
            w.u8(11);
        }
        LOp::SetIsa(v) => {
            w.u8(12).uleb(*v);
        }
        LOp::UnknownStd(o, args) => {
            w.u8(*o);
            for a in args {
                w.uleb(*a);
            }
        }
        LOp::EndSequence(extra) => {
            w.u8(0).uleb(1 + *extra as u64).u8(1);
            pad(w, *extra);
        }
        LOp::SetAddress(a, extra) => {
            w.u8(0).uleb(1 + h.address_size as u64 + *extra as u64).u8(2).uint(*a, h.address_size);
            pad(w, *extra);
        }
        LOp::DefineFile(name, dir, mtime, size, extra) => {
            let mut t = W::new(w.big);
            t.u8(3).cstr(name).uleb(*dir).uleb(*mtime).uleb(*size);
            pad(&mut t, *extra);
            w.u8(0).uleb(t.len() as u64).bytes(&t.buf);
        }
        LOp::SetDiscriminator(v, extra) => {
            let mut t = W::new(w.big);
            t.u8(4).uleb(*v);
            pad(&mut t, *extra);
            w.u8(0).uleb(t.len() as u64).bytes(&t.buf);
        }
        LOp::UnknownExt(o, payload) => {
            w.u8(0).uleb(1 + payload.len() as u64).u8(*o).bytes(payload);
        }
    }
}

#[derive(Debug, Clone, PartialEq)]
pub enum LErr {
    Eof,
    BadLeb,
}

fn rd_uleb(b: &[u8], p: &mut usize) -> Result<u64, LErr> {
    match crate::c09::leb_model(&b[(*p).min(b.len())..], false, 64) {
        crate::c09::Leb::Fits { value, len } if len <= 10 => {
            *p += len;
            Ok(value)
        }
        crate::c09::Leb::Eof if b.len().saturating_sub(*p) < 10 => Err(LErr::Eof),
        _ => Err(LErr::BadLeb),
    }
}

fn rd_sleb(b: &[u8], p: &mut usize) -> Result<i64, LErr> {
    match crate::c09::leb_model(&b[(*p).min(b.len())..], true, 64) {
        crate::c09::Leb::Fits { value, len } if len <= 10 => {
            *p += len;
            Ok(value as i64)
        }
        crate::c09::Leb::Eof if b.len().saturating_sub(*p) < 10 => Err(LErr::Eof),
        _ => Err(LErr::BadLeb),
    }
}

fn rd_uint(b: &[u8], p: &mut usize, n: usize, big: bool) -> Result<u64, LErr> {
    if *p + n > b.len() {
        return Err(LErr::Eof);
    }
    let s = &b[*p..*p + n];
    *p += n;
    let mut v = 0u64;
    if big {
        for x in s {
            v = (v << 8) | *x as u64;
        }
    } else {
        for (i, x) in s.iter().enumerate() {
            v |= (*x as u64) << (8 * i);
        }
    }
    Ok(v)
}

/// Decode one instruction at `pos`. Extra bytes inside an extended op are reported in the op's `extra`.
pub fn decode_lop(b: &[u8], pos: usize, h: &LineHeader, big: bool) -> Result<(LOp, usize), LErr> {
    let mut p = pos;
    let opc = *b.get(p).ok_or(LErr::Eof)?;
    p += 1;
    if opc == 0 {
        let len = rd_uleb(b, &mut p)?;
        if len > (b.len() - p) as u64 {
            return Err(LErr::Eof);
        }
        let end = p + len as usize;
        let body = &b[..end];
        let sub = *body.get(p).ok_or(LErr::Eof)?;
        p += 1;
        let op = match sub {
            1 => LOp::EndSequence(end - p),
            2 => {
                let a = rd_uint(body, &mut p, h.address_size as usize, big)?;
                LOp::SetAddress(a, end - p)
            }
            3 if h.version <= 4 => {
                let z = body[p..].iter().position(|x| *x == 0).ok_or(LErr::Eof)?;
                let name = body[p..p + z].to_vec();
                p += z + 1;
                let dir = rd_uleb(body, &mut p)?;
                let mtime = rd_uleb(body, &mut p)?;
                let size = rd_uleb(body, &mut p)?;
                LOp::DefineFile(name, dir, mtime, size, end - p)
            }
            4 => {
                let v = rd_uleb(body, &mut p)?;
                LOp::SetDiscriminator(v, end - p)
            }
            o => LOp::UnknownExt(o, body[p..end].to_vec()),
        };
        return Ok((op, end - pos));
    }
    if opc >= h.opcode_base {
        return Ok((LOp::Special(opc), 1));
    }
    let op = match opc {
        1 => LOp::Copy,
        2 => LOp::AdvancePc(rd_uleb(b, &mut p)?),
        3 => LOp::AdvanceLine(rd_sleb(b, &mut p)?),
        4 => LOp::SetFile(rd_uleb(b, &mut p)?),
        5 => LOp::SetColumn(rd_uleb(b, &mut p)?),
        6 => LOp::NegateStmt,
        7 => LOp::SetBasicBlock,
        8 => LOp::ConstAddPc,
        9 => LOp::FixedAdvancePc(rd_uint(b, &mut p, 2, big)? as u16),
        10 => LOp::SetPrologueEnd,
        11 => LOp::SetEpilogueBegin,
        12 => LOp::SetIsa(rd_uleb(b, &mut p)?),
        o => {
            let n = h.std_lengths.get(o as usize - 1).copied().unwrap_or(0);
            let mut args = Vec::new();
            for _ in 0..n {
                args.push(rd_uleb(b, &mut p)?);
            }
            LOp::UnknownStd(o, args)
        }
    };
    Ok((op, p - pos))
}

// ---------------------------------------------------------------------------
// State machine
// ---------------------------------------------------------------------------

#[derive(Clone, Debug, PartialEq)]
pub struct MLineRow {
    pub address: u64,
    pub op_index: u64,
    pub file: u64,
    pub line: u64,
    pub column: u64,
    pub is_stmt: bool,
    pub basic_block: bool,
    pub end_sequence: bool,
    pub prologue_end: bool,
    pub epilogue_begin: bool,
    pub isa: u64,
    pub discriminator: u64,
}

#[derive(Clone, Debug, PartialEq)]
pub enum LineEnd {
    Done,
    /// gimli::Error variant names, at the instruction following `rows.len()` rows
    Err(Vec<&'static str>),
    /// behaviour from here on is not pinned down (wrapping beyond 2^64, tombstone policy)
    Open(&'static str),
}

#[derive(Clone, Debug)]
pub struct LineRun {
    pub rows: Vec<MLineRow>,
    pub end: LineEnd,
    pub defined_files: Vec<(Vec<u8>, u64, u64, u64)>,
    pub ops: Vec<LOp>,
    /// byte offset (within the program) just after each end_sequence
    pub seq_ends: Vec<usize>,
    pub used_tombstone: bool,
}

fn fresh(h: &LineHeader) -> MLineRow {
    MLineRow { address: 0, op_index: 0, file: 1, line: 1, column: 0, is_stmt: h.default_is_stmt, basic_block: false, end_sequence: false, prologue_end: false, epilogue_begin: false, isa: 0, discriminator: 0 }
}

/// Run the state machine over program bytes. `well_formed`: a set_address that goes backwards or into the
/// tombstone range ends the comparison (Open) instead of following gimli's documented suppression policy.
pub fn run_line(h: &LineHeader, big: bool, prog: &[u8]) -> LineRun {
    run_line_opts(h, big, prog, false)
}

/// `policy`: follow gimli's documented tombstone policy instead of ending the comparison: a DW_LNE_set_address that goes
/// backwards or into the tombstone range (>= -2) freezes address and op_index and suppresses rows until the next
/// acceptable DW_LNE_set_address or the end of the sequence; all other registers keep evolving as the state machine
/// says (including the resets after every row, suppressed or not); the end_sequence row is still delivered when rows
/// of that sequence have been delivered before.
pub fn run_line_opts(h: &LineHeader, big: bool, prog: &[u8], policy: bool) -> LineRun {
    let m = mask(h.address_size);
    let mut tomb = false;
    let mut has_rows = false;
    let mut run = LineRun { rows: Vec::new(), end: LineEnd::Done, defined_files: Vec::new(), ops: Vec::new(), seq_ends: Vec::new(), used_tombstone: false };
    let mut r = fresh(h);
    let mut pos = 0usize;
    while pos < prog.len() {
        let (op, len) = match decode_lop(prog, pos, h, big) {
            Ok(x) => x,
            Err(LErr::Eof) => {
                run.end = LineEnd::Err(vec!["UnexpectedEof"]);
                return run;
            }
            Err(LErr::BadLeb) => {
                run.end = LineEnd::Err(vec!["BadUnsignedLeb128", "BadSignedLeb128", "UnexpectedEof"]);
                return run;
            }
        };
        pos += len;
        run.ops.push(op.clone());
        let mut emit = false;
        // operation advance
        let tomb_now = tomb;
        let mut advance = |r: &mut MLineRow, adv: u64| -> Result<(), LineEnd> {
            if tomb_now {
                return Ok(());
            }
            let (addr_adv, new_op): (u128, u64) = if h.max_ops == 1 {
                (h.min_inst_len as u128 * adv as u128, 0)
            } else {
                let t = r.op_index as u128 + adv as u128;
                (h.min_inst_len as u128 * (t / h.max_ops as u128), (t % h.max_ops as u128) as u64)
            };
            if addr_adv > u64::MAX as u128 || (h.max_ops != 1 && r.op_index as u128 + adv as u128 > u64::MAX as u128) {
                return Err(LineEnd::Open("operation advance beyond 2^64"));
            }
            let na = r.address as u128 + addr_adv;
            if na > m as u128 {
                return Err(LineEnd::Err(vec!["AddressOverflow"]));
            }
            r.address = na as u64;
            r.op_index = new_op;
            Ok(())
        };
        let line_adv = |r: &mut MLineRow, inc: i64| {
            if inc < 0 {
                let d = inc.unsigned_abs();
                r.line = r.line.saturating_sub(d);
            } else {
                r.line = r.line.wrapping_add(inc as u64);
            }
        };
        let res: Result<(), LineEnd> = (|| {
            match &op {
                LOp::Special(b) => {
                    let adj = b - h.opcode_base;
                    line_adv(&mut r, h.line_base as i64 + (adj % h.line_range) as i64);
                    advance(&mut r, (adj / h.line_range) as u64)?;
                    emit = true;
                }
                LOp::Copy => emit = true,
                LOp::AdvancePc(v) => advance(&mut r, *v)?,
                LOp::AdvanceLine(v) => line_adv(&mut r, *v),
                LOp::SetFile(v) => r.file = *v,
                LOp::SetColumn(v) => r.column = *v,
                LOp::NegateStmt => r.is_stmt = !r.is_stmt,
                LOp::SetBasicBlock => r.basic_block = true,
                LOp::ConstAddPc => {
                    let adj = 255 - h.opcode_base;
                    advance(&mut r, (adj / h.line_range) as u64)?;
                }
                LOp::FixedAdvancePc(_) if tomb_now => {}
                LOp::FixedAdvancePc(v) => {
                    let na = r.address as u128 + *v as u128;
                    if na > m as u128 {
                        return Err(LineEnd::Err(vec!["AddressOverflow"]));
                    }
                    r.address = na as u64;
                    r.op_index = 0;
                }
                LOp::SetPrologueEnd => r.prologue_end = true,
                LOp::SetEpilogueBegin => r.epilogue_begin = true,
                LOp::SetIsa(v) => r.isa = *v,
                LOp::UnknownStd(..) | LOp::UnknownExt(..) => {}
                LOp::EndSequence(_) => {
                    r.end_sequence = true;
                    emit = true;
                }
                LOp::SetAddress(a, _) => {
                    let a = *a & m;
                    if a < r.address || a >= m - 1 {
                        if policy {
                            tomb = true;
                            run.used_tombstone = true;
                            return Ok(());
                        }
                        // gimli's documented policy suppresses rows until the next set_address; not DWARF semantics
                        return Err(LineEnd::Open("set_address backwards or in the tombstone range"));
                    }
                    tomb = false;
                    r.address = a;
                    r.op_index = 0;
                }
                LOp::DefineFile(n, d, t, s, _) => run.defined_files.push((n.clone(), *d, *t, *s)),
                LOp::SetDiscriminator(v, _) => r.discriminator = *v,
            }
            Ok(())
        })();
        if let Err(e) = res {
            if matches!(e, LineEnd::Open(_)) && matches!(&op, LOp::SetAddress(..)) {
                run.used_tombstone = true;
            }
            run.end = e;
            return run;
        }
        if emit {
            if !(tomb && !(r.end_sequence && has_rows)) {
                run.rows.push(r.clone());
                has_rows = !r.end_sequence;
            }
            if r.end_sequence {
                r = fresh(h);
                tomb = false;
                has_rows = false;
                run.seq_ends.push(pos);
            } else {
                r.discriminator = 0;
                r.basic_block = false;
                r.prologue_end = false;
                r.epilogue_begin = false;
            }
        }
    }
    run
}
