//! Independent byte encoder used by the assembler side of every check.
//! Written from the DWARF text; never calls gimli::write.
#![allow(dead_code)]

#[derive(Clone, Copy, Debug, PartialEq, Eq)]
pub struct Cfg {
    pub big: bool,
    /// use gimli::RunTimeEndian instead of the compile-time endian types
    pub runtime_endian: bool,
    pub address_size: u8,
    pub format64: bool,
    pub version: u16,
}

impl Cfg {
    pub fn word(&self) -> u8 {
        if self.format64 {
            8
        } else {
            4
        }
    }
    pub fn format(&self) -> gimli::Format {
        if self.format64 {
            gimli::Format::Dwarf64
        } else {
            gimli::Format::Dwarf32
        }
    }
    pub fn encoding(&self) -> gimli::Encoding {
        gimli::Encoding { format: self.format(), version: self.version, address_size: self.address_size }
    }
    pub fn endian(&self) -> gimli::RunTimeEndian {
        if self.big {
            gimli::RunTimeEndian::Big
        } else {
            gimli::RunTimeEndian::Little
        }
    }
    pub fn addr_mask(&self) -> u64 {
        mask(self.address_size)
    }
    pub fn decode(ch: &mut crate::core::Choices) -> Cfg {
        let b = ch.u8();
        let address_size = [8u8, 4, 2, 1][(b & 3) as usize];
        let c = ch.u8();
        Cfg {
            big: b & 4 != 0,
            runtime_endian: b & 8 != 0,
            address_size,
            format64: b & 16 != 0,
            version: [4u16, 5, 3, 2][(c & 3) as usize],
        }
    }
    pub fn describe(&self) -> String {
        format!(
            "{}{} addr{} {} v{}",
            if self.big { "BE" } else { "LE" },
            if self.runtime_endian { "(rt)" } else { "" },
            self.address_size,
            if self.format64 { "dwarf64" } else { "dwarf32" },
            self.version
        )
    }
}

pub fn mask(size: u8) -> u64 {
    if size >= 8 {
        u64::MAX
    } else {
        (1u64 << (8 * size as u32)) - 1
    }
}

#[derive(Clone, Debug, Default)]
pub struct W {
    pub buf: Vec<u8>,
    pub big: bool,
}

impl W {
    pub fn new(big: bool) -> W {
        W { buf: Vec::new(), big }
    }
    pub fn len(&self) -> usize {
        self.buf.len()
    }
    pub fn u8(&mut self, v: u8) -> &mut Self {
        self.buf.push(v);
        self
    }
    pub fn bytes(&mut self, b: &[u8]) -> &mut Self {
        self.buf.extend_from_slice(b);
        self
    }
    pub fn uint(&mut self, v: u64, size: u8) -> &mut Self {
        let le = v.to_le_bytes();
        if self.big {
            for i in (0..size as usize).rev() {
                self.buf.push(le[i]);
            }
        } else {
            for i in 0..size as usize {
                self.buf.push(le[i]);
            }
        }
        self
    }
    pub fn u16(&mut self, v: u16) -> &mut Self {
        self.uint(v as u64, 2)
    }
    pub fn u32(&mut self, v: u32) -> &mut Self {
        self.uint(v as u64, 4)
    }
    pub fn u64(&mut self, v: u64) -> &mut Self {
        self.uint(v, 8)
    }
    pub fn u128(&mut self, v: u128) -> &mut Self {
        let le = v.to_le_bytes();
        if self.big {
            for i in (0..16).rev() {
                self.buf.push(le[i]);
            }
        } else {
            self.buf.extend_from_slice(&le);
        }
        self
    }
    pub fn uleb(&mut self, mut v: u64) -> &mut Self {
        loop {
            let b = (v & 0x7f) as u8;
            v >>= 7;
            if v == 0 {
                self.buf.push(b);
                return self;
            }
            self.buf.push(b | 0x80);
        }
    }
    /// ULEB with `pad` redundant continuation bytes (value-preserving over-long encoding)
    pub fn uleb_padded(&mut self, v: u64, pad: usize) -> &mut Self {
        if pad == 0 {
            return self.uleb(v);
        }
        let mut tmp = W::new(self.big);
        tmp.uleb(v);
        let n = tmp.buf.len();
        // at most 10 bytes in total are accepted by readers
        let pad = pad.min(10usize.saturating_sub(n));
        if pad == 0 {
            return self.uleb(v);
        }
        for (i, b) in tmp.buf.iter().enumerate() {
            if i + 1 == n {
                self.buf.push(b | 0x80);
            } else {
                self.buf.push(*b);
            }
        }
        for i in 0..pad {
            self.buf.push(if i + 1 == pad { 0x00 } else { 0x80 });
        }
        self
    }
    pub fn sleb(&mut self, mut v: i64) -> &mut Self {
        loop {
            let b = (v & 0x7f) as u8;
            let sign = b & 0x40 != 0;
            v >>= 7;
            if (v == 0 && !sign) || (v == -1 && sign) {
                self.buf.push(b);
                return self;
            }
            self.buf.push(b | 0x80);
        }
    }
    pub fn word(&mut self, v: u64, format64: bool) -> &mut Self {
        self.uint(v, if format64 { 8 } else { 4 })
    }
    pub fn cstr(&mut self, s: &[u8]) -> &mut Self {
        self.buf.extend_from_slice(s);
        self.buf.push(0);
        self
    }
    /// Write an initial length placeholder; returns a token for `end_length`.
    pub fn begin_length(&mut self, format64: bool) -> (usize, bool) {
        if format64 {
            self.u32(0xffff_ffff);
            let at = self.buf.len();
            self.u64(0);
            (at, true)
        } else {
            let at = self.buf.len();
            self.u32(0);
            (at, false)
        }
    }
    pub fn end_length(&mut self, tok: (usize, bool)) {
        let (at, f64_) = tok;
        let size = if f64_ { 8 } else { 4 };
        let len = (self.buf.len() - at - size) as u64;
        self.patch(at, len, size as u8);
    }
    pub fn patch(&mut self, at: usize, v: u64, size: u8) {
        let mut t = W::new(self.big);
        t.uint(v, size);
        self.buf[at..at + size as usize].copy_from_slice(&t.buf);
    }
}

pub fn uleb_len(v: u64) -> usize {
    let mut w = W::new(false);
    w.uleb(v);
    w.len()
}

pub fn sleb_len(v: i64) -> usize {
    let mut w = W::new(false);
    w.sleb(v);
    w.len()
}

/// Dispatch a generic closure-like macro over the endian flavour of a Cfg.
/// Usage: with_endian!(cfg, E, endian_value => { ... uses E type and `endian_value` ... })
#[macro_export]
macro_rules! with_endian {
    ($cfg:expr, $e:ident => $body:expr) => {{
        if $cfg.runtime_endian {
            let $e = if $cfg.big { gimli::RunTimeEndian::Big } else { gimli::RunTimeEndian::Little };
            $body
        } else if $cfg.big {
            let $e = gimli::BigEndian;
            $body
        } else {
            let $e = gimli::LittleEndian;
            $body
        }
    }};
}
