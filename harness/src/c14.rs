//! C14 — written frame tables read back with the same CIEs, FDEs and unwind rows.
use crate::cfimodel::*;
use crate::core::*;
use crate::enc::mask;
use crate::{ensure, ensure_eq, fail};
use gimli::write::{Address, CallFrameInstruction as WI, CommonInformationEntry as WCie, DebugFrame as WDebugFrame, EhFrame as WEhFrame, EndianVec, Expression as WExpr, FrameDescriptionEntry as WFde, FrameTable};
use gimli::{BaseAddresses, CfaRule, CieOrFde, Encoding, EndianSlice, Format, Pointer, Register, RegisterRule, RunTimeEndian, UnwindContext, UnwindSection};

pub struct C14;

type Rdr<'a> = EndianSlice<'a, RunTimeEndian>;

#[derive(Clone, Debug, PartialEq)]
enum SI {
    Cfa(u16, i32),
    CfaRegister(u16),
    CfaOffset(i32),
    CfaExpression(Vec<u8>),
    Restore(u16),
    Undefined(u16),
    SameValue(u16),
    Offset(u16, i32),
    ValOffset(u16, i32),
    Register(u16, u16),
    Expression(u16, Vec<u8>),
    ValExpression(u16, Vec<u8>),
    RememberState,
    RestoreState,
    ArgsSize(u32),
    NegateRaState,
}

#[derive(Clone, Debug, PartialEq)]
struct SCie {
    format64: bool,
    version: u16,
    address_size: u8,
    code_align: u8,
    data_align: i8,
    ra: u16,
    personality: Option<(u8, u64)>,
    lsda_enc: Option<u8>,
    fde_enc: u8,
    signal: bool,
    instrs: Vec<SI>,
}

#[derive(Clone, Debug)]
struct SFde {
    cie: usize,
    address: u64,
    length: u32,
    lsda: Option<u64>,
    instrs: Vec<(u32, SI)>,
}

#[derive(Clone, Debug)]
struct Spec {
    eh: bool,
    big: bool,
    cies: Vec<SCie>,
    fdes: Vec<SFde>,
}

fn gen_reg(ch: &mut Choices) -> u16 {
    ch.pick(&[0u16, 1, 2, 7, 16, 31, 63, 64, 300])
}

fn gen_off(ch: &mut Choices, align: i8, on_grid: bool) -> i32 {
    let k = match ch.below(6) {
        0 => 0,
        1 => 1,
        2 => -1,
        3 => ch.range(-40, 40) as i32,
        4 => ch.range(-70000, 70000) as i32,
        _ => 2,
    };
    if ch.chance(10) {
        // the ends of the offset type: factoring must neither wrap nor panic there (i32::MIN / -1 does not fit)
        return ch.pick(&[i32::MIN, i32::MAX, i32::MIN + 1, i32::MIN + 8, i32::MAX - 7]);
    }
    if on_grid {
        k.saturating_mul(align as i32)
    } else {
        k.saturating_mul(align as i32).saturating_add(1)
    }
}

fn gen_si(ch: &mut Choices, data_align: i8, in_fde: bool, bad: &mut bool) -> SI {
    let on = !ch.chance(6);
    let expr = |ch: &mut Choices| -> Vec<u8> {
        // a small valid expression: DW_OP_bregN off; optionally plus_uconst
        let mut v = vec![0x70 + ch.below(32) as u8, ch.below(0x40) as u8];
        if ch.bool() {
            v.extend_from_slice(&[0x23, ch.below(0x7f) as u8]);
        }
        v
    };
    match ch.below(if in_fde { 17 } else { 14 }) {
        0 | 1 => {
            let o = gen_off(ch, data_align, on);
            if o < 0 {
                *bad = *bad || off_grid(o, data_align);
            }
            SI::Cfa(gen_reg(ch), o)
        }
        2 => SI::CfaRegister(gen_reg(ch)),
        3 => {
            let o = gen_off(ch, data_align, on);
            if o < 0 {
                *bad = *bad || off_grid(o, data_align);
            }
            SI::CfaOffset(o)
        }
        4 => SI::CfaExpression(expr(ch)),
        5 => SI::Undefined(gen_reg(ch)),
        6 => SI::SameValue(gen_reg(ch)),
        7 | 8 => {
            let o = gen_off(ch, data_align, on);
            *bad = *bad || off_grid(o, data_align);
            SI::Offset(gen_reg(ch), o)
        }
        9 => {
            let o = gen_off(ch, data_align, on);
            *bad = *bad || off_grid(o, data_align);
            SI::ValOffset(gen_reg(ch), o)
        }
        10 => SI::Register(gen_reg(ch), gen_reg(ch)),
        11 => SI::Expression(gen_reg(ch), expr(ch)),
        12 => SI::ValExpression(gen_reg(ch), expr(ch)),
        13 => SI::ArgsSize(ch.biased(32) as u32),
        14 => SI::RememberState,
        15 => SI::RestoreState,
        _ => SI::Restore(gen_reg(ch)),
    }
}

fn off_grid(o: i32, align: i8) -> bool {
    if align == 0 {
        return true;
    }
    let a = align as i64;
    let q = o as i64 / a;
    q * a != o as i64 || q < i32::MIN as i64 || q > i32::MAX as i64
}

fn to_wi(si: &SI) -> WI {
    match si {
        SI::Cfa(r, o) => WI::Cfa(Register(*r), *o),
        SI::CfaRegister(r) => WI::CfaRegister(Register(*r)),
        SI::CfaOffset(o) => WI::CfaOffset(*o),
        SI::CfaExpression(b) => WI::CfaExpression(WExpr::raw(b.clone())),
        SI::Restore(r) => WI::Restore(Register(*r)),
        SI::Undefined(r) => WI::Undefined(Register(*r)),
        SI::SameValue(r) => WI::SameValue(Register(*r)),
        SI::Offset(r, o) => WI::Offset(Register(*r), *o),
        SI::ValOffset(r, o) => WI::ValOffset(Register(*r), *o),
        SI::Register(a, b) => WI::Register(Register(*a), Register(*b)),
        SI::Expression(r, b) => WI::Expression(Register(*r), WExpr::raw(b.clone())),
        SI::ValExpression(r, b) => WI::ValExpression(Register(*r), WExpr::raw(b.clone())),
        SI::RememberState => WI::RememberState,
        SI::RestoreState => WI::RestoreState,
        SI::ArgsSize(s) => WI::ArgsSize(*s),
        SI::NegateRaState => WI::NegateRaState,
    }
}

/// Meaning of a supplied instruction as a model CFI op (factored with exact division; the caller
/// has already established that the offsets are on the grid).
fn to_model(si: &SI, data_align: i8) -> CfiOp {
    let f = |o: i32| -> i64 { o as i64 / (data_align as i64).max(i64::MIN + 1).min(i64::MAX).pipe_nonzero() };
    match si {
        SI::Cfa(r, o) => {
            if *o < 0 {
                CfiOp::DefCfaSf(*r as u64, f(*o))
            } else {
                CfiOp::DefCfa(*r as u64, *o as u64)
            }
        }
        SI::CfaRegister(r) => CfiOp::DefCfaRegister(*r as u64),
        SI::CfaOffset(o) => {
            if *o < 0 {
                CfiOp::DefCfaOffsetSf(f(*o))
            } else {
                CfiOp::DefCfaOffset(*o as u64)
            }
        }
        SI::CfaExpression(b) => CfiOp::DefCfaExpression(b.clone()),
        SI::Restore(r) => CfiOp::RestoreExtended(*r as u64),
        SI::Undefined(r) => CfiOp::Undefined(*r as u64),
        SI::SameValue(r) => CfiOp::SameValue(*r as u64),
        SI::Offset(r, o) => CfiOp::OffsetExtendedSf(*r as u64, f(*o)),
        SI::ValOffset(r, o) => CfiOp::ValOffsetSf(*r as u64, f(*o)),
        SI::Register(a, b) => CfiOp::Register(*a as u64, *b as u64),
        SI::Expression(r, b) => CfiOp::Expression(*r as u64, b.clone()),
        SI::ValExpression(r, b) => CfiOp::ValExpression(*r as u64, b.clone()),
        SI::RememberState => CfiOp::RememberState,
        SI::RestoreState => CfiOp::RestoreState,
        SI::ArgsSize(s) => CfiOp::ArgsSize(*s as u64),
        SI::NegateRaState => CfiOp::NegateRaState,
    }
}

trait PipeNonZero {
    fn pipe_nonzero(self) -> i64;
}
impl PipeNonZero for i64 {
    fn pipe_nonzero(self) -> i64 {
        if self == 0 {
            1
        } else {
            self
        }
    }
}

fn gen_spec(ch: &mut Choices, bad: &mut bool) -> Spec {
    let eh = ch.bool();
    let big = ch.bool();
    let ncie = 1 + ch.below(3);
    let table_as = ch.pick(&[8u8, 4]);
    let mut cies: Vec<SCie> = Vec::new();
    for i in 0..ncie {
        if i > 0 && ch.chance(60) {
            // an identical CIE: must be emitted once
            let c = cies[ch.below(i)].clone();
            cies.push(c);
            continue;
        }
        let version = if eh {
            if ch.chance(8) {
                *bad = true;
                3
            } else {
                1
            }
        } else {
            ch.pick(&[1u16, 3, 4])
        };
        // only a version 4 .debug_frame CIE carries its own address size
        let address_size = if !eh && version == 4 && ch.chance(64) { 12 - table_as } else { table_as };
        let code_align = match ch.below(12) {
            0 => 4,
            1 => 2,
            2 => 255,
            3 => ch.u8().max(1),
            _ => 1,
        };
        let data_align: i8 = match ch.below(12) {
            0 => 0,
            1 => -4,
            2 => 8,
            3 => -128,
            4 => 127,
            5 => -1,
            6 => ch.u8() as i8,
            _ => -8,
        };
        let fde_enc = if eh { ch.pick(&[0x00u8, 0x1b, 0x1b, 0x1c, 0x03, 0x0b, 0x04, 0x01, 0x09, 0x19, 0x11, 0x0c, 0x09, 0x13, 0x12, 0x13]) } else { ch.pick(&[0u8, 0, 0, 0x1b, 0x03]) };
        let lsda_enc = if ch.chance(100) { Some(ch.pick(&[0x00u8, 0x1b, 0x03, 0x0b, 0x04, 0x01, 0x09, 0x19, 0x0c, 0x13, 0x12])) } else { None };
        let personality = if ch.chance(70) { Some((ch.pick(&[0x00u8, 0x1b, 0x9b, 0x03, 0x01, 0x09, 0x89, 0x0c, 0x19, 0x13, 0x12, 0x93]), ch.pick(&[0x10000u64, 0x2000, 0x40, 0x12340, 0x30_0000]) + ch.biased(12))) } else { None };
        let ra = ch.pick(&[16u16, 0, 30, 127, 128, 255]);
        let n = ch.count(4);
        let mut instrs = Vec::new();
        for _ in 0..n {
            instrs.push(gen_si(ch, data_align, false, bad));
        }
        cies.push(SCie { format64: ch.chance(64), version, address_size, code_align, data_align, ra, personality, lsda_enc, fde_enc, signal: ch.chance(40), instrs });
    }
    let nfde = ch.count(8);
    let mut fdes = Vec::new();
    for k in 0..nfde {
        let cie = ch.below(ncie);
        let c = &cies[cie];
        let ca = c.code_align as u32;
        let n = ch.count(8);
        let mut off: u32 = 0;
        let mut instrs = Vec::new();
        for _ in 0..n {
            let steps: u32 = match ch.below(12) {
                0 => 0x3f,
                1 => 0x40,
                2 => 0xff,
                3 => 0x100,
                4 => 0xffff,
                5 => 0x10000,
                6 => 0x41,
                7 | 8 => 0,
                _ => ch.below(8) as u32,
            };
            let mut delta = steps.saturating_mul(ca);
            if ca > 1 && ch.chance(8) {
                delta += 1; // off the code alignment grid
                *bad = true;
            }
            off = off.saturating_add(delta);
            instrs.push((off, gen_si(ch, c.data_align, true, bad)));
        }
        // start addresses and lengths on both sides of the LEB128 sign-bit and size steps
        let address = ch.pick(&[0x10000u64, 0x10000, 0x2000, 0x40, 0x3f_c000, 0x7fff_0000, 0x10000, 0x7fff_8000, 0x9000_0000, 0xffff_0000]) + 0x1000 * k as u64;
        fdes.push(SFde { cie, address, length: ch.pick(&[0u32, 1, 0x100, 0xfff, 0x40, 0x2000, 0x3fff]), lsda: c.lsda_enc.map(|_| ch.pick(&[0x20000u64, 0x2000, 0x40]) + ch.biased(12)), instrs });
    }
    Spec { eh, big, cies, fdes }
}

fn errname<E: std::fmt::Debug>(e: &E) -> String {
    let s = format!("{:?}", e);
    match s.find('(') {
        Some(i) => s[..i].to_string(),
        None => s,
    }
}

fn check_spec(s: &Spec, expect_refusal: bool, cx: &mut Ctx) -> R {
    // ---- build through the writing API
    let mut table = FrameTable::default();
    let mut ids = Vec::new();
    for c in &s.cies {
        let enc = Encoding { format: if c.format64 { Format::Dwarf64 } else { Format::Dwarf32 }, version: c.version, address_size: c.address_size };
        let mut w = WCie::new(enc, c.code_align, c.data_align, Register(c.ra));
        w.personality = c.personality.map(|(e, a)| (gimli::DwEhPe(e), Address::Constant(a)));
        w.lsda_encoding = c.lsda_enc.map(gimli::DwEhPe);
        w.fde_address_encoding = gimli::DwEhPe(c.fde_enc);
        w.signal_trampoline = c.signal;
        for i in &c.instrs {
            w.add_instruction(to_wi(i));
        }
        ids.push(table.add_cie(w));
    }
    // identical CIEs share an id
    for i in 0..s.cies.len() {
        for j in 0..i {
            ensure_eq!(ids[i] == ids[j], s.cies[i] == s.cies[j], "c14/cie-id-dedup", "CIEs {} and {}", j, i);
        }
    }
    for f in &s.fdes {
        let mut w = WFde::new(Address::Constant(f.address), f.length);
        w.lsda = f.lsda.map(Address::Constant);
        for (o, i) in &f.instrs {
            w.add_instruction(*o, to_wi(i));
        }
        table.add_fde(ids[f.cie], w);
    }
    {
        // the table's own counts: one entry per distinct CIE, one per FDE added
        let mut distinct: Vec<&SCie> = Vec::new();
        for c in &s.cies {
            if !distinct.contains(&c) {
                distinct.push(c);
            }
        }
        ensure_eq!(table.cie_count(), distinct.len(), "c14/cie_count");
        ensure_eq!(table.fde_count(), s.fdes.len(), "c14/fde_count");
    }
    let endian = if s.big { RunTimeEndian::Big } else { RunTimeEndian::Little };
    let res = if s.eh {
        let mut w = WEhFrame::from(EndianVec::new(endian));
        table.write_eh_frame(&mut w).map(|_| w.0.into_vec())
    } else {
        let mut w = WDebugFrame::from(EndianVec::new(endian));
        table.write_debug_frame(&mut w).map(|_| w.0.into_vec())
    };
    // which requests cannot be encoded (only CIEs that are referenced get written)
    let referenced: Vec<usize> = {
        let mut v: Vec<usize> = s.fdes.iter().map(|f| f.cie).collect();
        v.sort();
        v.dedup();
        v
    };
    let mut may_refuse = false; // representable-value limits (value too large for a format, unsupported application)
    for ci in &referenced {
        let c = &s.cies[*ci];
        if c.version == 1 && c.ra > 255 {
            may_refuse = true;
        }
        if let Some((e, _)) = c.personality {
            if !matches!(e & 0x70, 0x00 | 0x10) {
                may_refuse = true;
            }
            may_refuse |= matches!(e & 0x0f, 0x02 | 0x03 | 0x0a | 0x0b);
        }
        if !matches!(c.fde_enc & 0x70, 0x00 | 0x10) {
            may_refuse = true;
        }
        may_refuse |= matches!(c.fde_enc & 0x0f, 0x02 | 0x0a | 0x03 | 0x0b) || c.address_size < 8;
        if let Some(e) = c.lsda_enc {
            may_refuse |= matches!(e & 0x0f, 0x02 | 0x0a | 0x03 | 0x0b);
        }
    }
    let bytes = match res {
        Ok(b) => {
            if expect_refusal && !s.fdes.is_empty() {
                // at least one must-fail condition was generated, but only if it sits in something that gets written
                let written_bad = must_fail(s, cx.dev);
                ensure!(!written_bad, "c14/write/accepted-unencodable", "write succeeded although the table contains an offset off the alignment grid / decreasing offsets / an unsupported version");
            }
            b
        }
        Err(e) => {
            let written_bad = must_fail(s, cx.dev);
            ensure!(written_bad || may_refuse, "c14/write/refused", "write failed with {:?} for a table inside the documented limits", e);
            cx.label("refused (expected)");
            let _ = errname(&e);
            return Ok(());
        }
    };
    if must_fail(s, cx.dev) {
        fail!("c14/write/accepted-unencodable", "write succeeded although the table contains an offset that cannot be expressed with the alignment factors (or a decreasing offset / unsupported version)");
    }

    // ---- read back
    let bases = BaseAddresses::default().set_eh_frame(0);
    let mut n_cies = 0usize;
    let mut fde_i = 0usize;
    macro_rules! readback {
        ($sec:expr) => {{
            let sec = $sec;
            let mut it = sec.entries(&bases);
            loop {
                let e = match it.next() {
                    Ok(Some(e)) => e,
                    Ok(None) => break,
                    Err(e) => fail!("c14/readback/entries-error", "{:?} after {} CIEs {} FDEs", e, n_cies, fde_i),
                };
                match e {
                    CieOrFde::Cie(cie) => {
                        n_cies += 1;
                        // padded to the address size: length field + length is a multiple of the address size (DWARF 5, 6.4.1)
                        let total = cie.entry_len() as u64 + if cie.encoding().format == Format::Dwarf64 { 12 } else { 4 };
                        ensure_eq!(total % cie.address_size() as u64, 0, "c14/readback/cie-not-padded", "CIE at {:#x}: length field + length = {} for address size {} ({:?})", cie.offset(), total, cie.address_size(), cie.encoding().format);
                    }
                    CieOrFde::Fde(partial) => {
                        let Some(f) = s.fdes.get(fde_i) else { fail!("c14/readback/extra-fde", "FDE #{}", fde_i) };
                        let c = &s.cies[f.cie];
                        let fde = partial.parse(|s, b, o| s.cie_from_offset(b, o)).map_err(|e| Failure { sig: "c14/readback/fde-parse".into(), detail: format!("FDE #{}: {:?}", fde_i, e) })?;
                        let rc = fde.cie();
                        ensure_eq!(rc.version() as u16, c.version, "c14/readback/cie-version");
                        ensure_eq!(rc.encoding().format, if c.format64 { Format::Dwarf64 } else { Format::Dwarf32 }, "c14/readback/cie-format");
                        ensure_eq!(rc.address_size(), if !s.eh && c.version == 4 { c.address_size } else { rc.address_size() }, "c14/readback/cie-address_size");
                        ensure_eq!(rc.code_alignment_factor(), c.code_align as u64, "c14/readback/code_alignment_factor");
                        ensure_eq!(rc.data_alignment_factor(), c.data_align as i64, "c14/readback/data_alignment_factor");
                        ensure_eq!(rc.return_address_register().0, c.ra, "c14/readback/return_address_register", "eh={} version {}", s.eh, c.version);
                        ensure_eq!(rc.is_signal_trampoline(), c.signal, "c14/readback/signal_trampoline");
                        ensure_eq!(rc.lsda_encoding().map(|e| e.0), c.lsda_enc, "c14/readback/lsda_encoding");
                        ensure_eq!(rc.fde_address_encoding().map(|e| e.0), if c.fde_enc != 0 { Some(c.fde_enc) } else { None }, "c14/readback/fde_address_encoding");
                        let m = mask(c.address_size);
                        let want_p = c.personality.map(|(e, a)| if e & 0x80 != 0 { Pointer::Indirect(a & m) } else { Pointer::Direct(a & m) });
                        ensure_eq!(rc.personality(), want_p, "c14/readback/personality");
                        ensure_eq!(fde.initial_address(), f.address & m, "c14/readback/initial_address", "FDE #{} encoding {:#x}", fde_i, c.fde_enc);
                        ensure_eq!(fde.len(), f.length as u64, "c14/readback/len", "FDE #{} encoding {:#x}", fde_i, c.fde_enc);
                        let want_l = match (f.lsda, c.lsda_enc) {
                            (Some(a), Some(e)) => Some(if e & 0x80 != 0 { Pointer::Indirect(a & m) } else { Pointer::Direct(a & m) }),
                            _ => None,
                        };
                        ensure_eq!(fde.lsda(), want_l, "c14/readback/lsda");
                        let total = fde.entry_len() as u64 + if fde.cie().encoding().format == Format::Dwarf64 { 12 } else { 4 };
                        let _ = total;
                        let ftotal = fde.entry_len() as u64 + if c.format64 { 12 } else { 4 };
                        ensure_eq!(ftotal % c.address_size as u64, 0, "c14/readback/fde-not-padded", "FDE #{}: length field + length = {} for address size {}", fde_i, ftotal, c.address_size);

                        // ---- unwind rows = meaning of the supplied instructions at their code offsets
                        let cie_ops: Vec<CfiOp> = c.instrs.iter().map(|i| to_model(i, c.data_align)).collect();
                        let mut fde_ops: Vec<CfiOp> = Vec::new();
                        let mut prev = 0u32;
                        for (o, i) in &f.instrs {
                            if *o != prev {
                                fde_ops.push(CfiOp::AdvanceLoc4((*o - prev) / c.code_align as u32));
                                prev = *o;
                            }
                            fde_ops.push(to_model(i, c.data_align));
                        }
                        let p = CfiParams { address_size: c.address_size, code_align: c.code_align as u64, data_align: c.data_align as i64, aarch64: true, initial_address: f.address & m, end_address: (f.address & m).wrapping_add(f.length as u64) & m, stack_cap: usize::MAX, rules_cap: usize::MAX, initial_slot: true };
                        let model = run_cfi(&p, &cie_ops, &vec![None; cie_ops.len()], &fde_ops, &vec![None; fde_ops.len()]);
                        let mut ctx = UnwindContext::new();
                        let mut rows_seen = 0usize;
                        match fde.rows(&sec, &bases, &mut ctx) {
                            Ok(mut t) => loop {
                                match t.next_row() {
                                    Ok(Some(row)) => {
                                        let Some(mr) = model.rows.get(rows_seen) else {
                                            if matches!(model.end, CfiEnd::Open(_)) {
                                                break;
                                            }
                                            fail!("c14/rows/extra-row", "FDE #{} row #{}", fde_i, rows_seen)
                                        };
                                        ensure_eq!((row.start_address(), row.end_address()), (mr.start, mr.end), "c14/rows/range", "FDE #{} row #{}", fde_i, rows_seen);
                                        ensure_eq!(row.saved_args_size(), mr.args_size, "c14/rows/args_size");
                                        // CFA
                                        match (row.cfa(), &mr.cfa) {
                                            (CfaRule::RegisterAndOffset { register, offset }, MCfa::RegOff(r, o)) => ensure_eq!((register.0 as u64, *offset), (*r, *o), "c14/rows/cfa", "FDE #{} row #{}", fde_i, rows_seen),
                                            (CfaRule::Expression(e), MCfa::Expr(_, len)) => {
                                                ensure_eq!(e.length, *len, "c14/rows/cfa-expression-length");
                                                let got = e.get(&sec).map_err(|er| Failure { sig: "c14/rows/cfa-expression".into(), detail: format!("{er:?}") })?;
                                                let want = expr_bytes_for_cfa(&c.instrs, &f.instrs, got.0.slice());
                                                ensure!(want, "c14/rows/cfa-expression-bytes", "expression bytes {:02x?} are none of the supplied CFA expressions", got.0.slice());
                                            }
                                            (g, w) => fail!("c14/rows/cfa-kind", "gimli {:?} model {:?}", g, w),
                                        }
                                        // register rules
                                        let mut got_rules = std::collections::BTreeMap::new();
                                        for (reg, rule) in row.registers() {
                                            let canon = match rule {
                                                RegisterRule::Undefined => MRule::Undefined,
                                                RegisterRule::SameValue => MRule::SameValue,
                                                RegisterRule::Offset(o) => MRule::Offset(*o),
                                                RegisterRule::ValOffset(o) => MRule::ValOffset(*o),
                                                RegisterRule::Register(r) => MRule::Register(r.0 as u64),
                                                RegisterRule::Expression(e) => {
                                                    let b = e.get(&sec).map_err(|er| Failure { sig: "c14/rows/expression".into(), detail: format!("{er:?}") })?;
                                                    MRule::Expression(fnv64(b.0.slice()) as usize, e.length)
                                                }
                                                RegisterRule::ValExpression(e) => {
                                                    let b = e.get(&sec).map_err(|er| Failure { sig: "c14/rows/expression".into(), detail: format!("{er:?}") })?;
                                                    MRule::ValExpression(fnv64(b.0.slice()) as usize, e.length)
                                                }
                                                RegisterRule::Constant(v) => MRule::Constant(*v),
                                                other => fail!("c14/rows/rule-kind", "{:?}", other),
                                            };
                                            got_rules.insert(reg.0 as u64, canon);
                                        }
                                        // the model identifies expressions by position; translate to content hashes
                                        let want_rules = rules_with_hashes(&mr.rules, &c.instrs, &f.instrs);
                                        if let Some(wr) = want_rules {
                                            ensure_eq!(got_rules, wr, "c14/rows/register-rules", "FDE #{} row #{} [{:#x},{:#x})", fde_i, rows_seen, mr.start, mr.end);
                                        }
                                        rows_seen += 1;
                                    }
                                    Ok(None) => {
                                        if matches!(model.end, CfiEnd::Done) {
                                            ensure_eq!(rows_seen, model.rows.len(), "c14/rows/count", "FDE #{}", fde_i);
                                        }
                                        break;
                                    }
                                    Err(e) => {
                                        match &model.end {
                                            CfiEnd::Err(k) if k.iter().any(|x| *x == errname(&e)) => {}
                                            CfiEnd::Open(_) => {}
                                            // bounded default storage: the supplied program may legitimately exceed it
                                            _ if matches!(e, gimli::Error::StackFull | gimli::Error::TooManyRegisterRules) => {}
                                            other => fail!("c14/rows/error", "FDE #{} after {} rows: gimli {:?}, meaning of the supplied instructions ends with {:?}", fde_i, rows_seen, e, other),
                                        }
                                        break;
                                    }
                                }
                            },
                            Err(e) => match &model.end {
                                CfiEnd::Err(k) if model.failed_in_cie && k.iter().any(|x| *x == errname(&e)) => {}
                                _ if matches!(e, gimli::Error::StackFull | gimli::Error::TooManyRegisterRules) => {}
                                other => fail!("c14/rows/init-error", "FDE #{}: gimli {:?}, model {:?}", fde_i, e, other),
                            },
                        }
                        if f.instrs.len() >= 3 && f.instrs.iter().map(|x| x.0).collect::<std::collections::BTreeSet<_>>().len() >= 2 && f.instrs.iter().any(|(_, i)| matches!(i, SI::Offset(_, o) | SI::ValOffset(_, o) | SI::Cfa(_, o) | SI::CfaOffset(o) if *o < 0)) {
                            cx.nt();
                        }
                        fde_i += 1;
                    }
                }
            }
        }};
    }
    if s.eh {
        let mut sec = gimli::EhFrame::new(&bytes, endian);
        sec.set_address_size(s.cies.first().map(|c| c.address_size).unwrap_or(8));
        sec.set_vendor(gimli::Vendor::AArch64);
        // .eh_frame has no per-CIE address size: only check tables whose CIEs agree
        if s.cies.iter().any(|c| c.address_size != s.cies[0].address_size) {
            cx.label("eh: mixed address sizes (read back skipped)");
            return Ok(());
        }
        readback!(sec);
    } else {
        if s.cies.iter().any(|c| c.version != 4 && c.address_size != s.cies[0].address_size) {
            cx.label("debug_frame v1/3: mixed address sizes (read back skipped)");
            return Ok(());
        }
        let mut sec = gimli::DebugFrame::new(&bytes, endian);
        sec.set_address_size(s.cies.first().map(|c| c.address_size).unwrap_or(8));
        sec.set_vendor(gimli::Vendor::AArch64);
        readback!(sec);
    }
    ensure_eq!(fde_i, s.fdes.len(), "c14/readback/fde-count");
    // identical CIEs emitted once; unreferenced CIEs not at all
    let mut distinct: Vec<&SCie> = Vec::new();
    for ci in &referenced {
        if !distinct.iter().any(|d| **d == s.cies[*ci]) {
            distinct.push(&s.cies[*ci]);
        }
    }
    ensure_eq!(n_cies, distinct.len(), "c14/readback/cie-count", "{} CIEs in the output for {} distinct referenced CIEs", n_cies, distinct.len());
    if s.cies.len() > distinct.len() {
        cx.label("duplicate or unreferenced CIE");
    }
    cx.label(if s.eh { ".eh_frame" } else { ".debug_frame" });
    Ok(())
}

fn expr_bytes_for_cfa(cie: &[SI], fde: &[(u32, SI)], got: &[u8]) -> bool {
    cie.iter().chain(fde.iter().map(|x| &x.1)).any(|i| matches!(i, SI::CfaExpression(b) if &b[..] == got))
}

/// Replace the model's positional expression identities by content hashes. Returns None if an expression
/// position cannot be attributed (positions are not tracked for this check): then rules with expressions are compared by kind only.
fn rules_with_hashes(rules: &std::collections::BTreeMap<u64, MRule>, cie: &[SI], fde: &[(u32, SI)]) -> Option<std::collections::BTreeMap<u64, MRule>> {
    let mut out = std::collections::BTreeMap::new();
    for (r, rule) in rules {
        let v = match rule {
            MRule::Expression(_, len) | MRule::ValExpression(_, len) => {
                // the last supplied expression instruction for this register with this length (the model ran the same list)
                let is_val = matches!(rule, MRule::ValExpression(..));
                let cands: Vec<&Vec<u8>> = cie
                    .iter()
                    .chain(fde.iter().map(|x| &x.1))
                    .filter_map(|i| match i {
                        SI::Expression(rr, b) if !is_val && *rr as u64 == *r && b.len() == *len => Some(b),
                        SI::ValExpression(rr, b) if is_val && *rr as u64 == *r && b.len() == *len => Some(b),
                        _ => None,
                    })
                    .collect();
                // ambiguous when several different expressions of the same length target the register
                let first = cands.first()?;
                if cands.iter().any(|c| c != first) {
                    return None;
                }
                if is_val {
                    MRule::ValExpression(fnv64(first) as usize, *len)
                } else {
                    MRule::Expression(fnv64(first) as usize, *len)
                }
            }
            other => other.clone(),
        };
        out.insert(*r, v);
    }
    Some(out)
}

/// Conditions under which the writer must refuse (in parts of the table that get written).
fn must_fail(s: &Spec, dev: bool) -> bool {
    let _ = dev;
    for f in &s.fdes {
        let c = &s.cies[f.cie];
        if s.eh && c.version != 1 {
            return true;
        }
        let mut prev = 0u32;
        for (o, i) in &f.instrs {
            if *o < prev {
                return true;
            }
            if *o != prev && (c.code_align == 0 || (*o - prev) % c.code_align as u32 != 0) {
                return true;
            }
            prev = *o;
            if si_off_grid(i, c.data_align) {
                return true;
            }
        }
        for i in &c.instrs {
            if si_off_grid(i, c.data_align) {
                return true;
            }
        }
    }
    false
}

fn si_off_grid(i: &SI, da: i8) -> bool {
    match i {
        SI::Cfa(_, o) | SI::CfaOffset(o) => *o < 0 && off_grid(*o, da),
        SI::Offset(_, o) | SI::ValOffset(_, o) => off_grid(*o, da),
        _ => false,
    }
}

impl Prop for C14 {
    fn id(&self) -> &'static str {
        "C14"
    }
    fn rule(&self) -> &'static str {
        "generated frame tables: 1-3 CIEs (some identical or unreferenced) x 0-8 FDEs; CIE versions 1/3/4 for .debug_frame and 1 (occasionally an unsupported 3) for .eh_frame, 32/64-bit, address size 4/8, code alignment 1-255, data alignment -128..127 incl. 0, personality / LSDA / FDE-address encodings (absptr, pcrel, sized formats, uleb128/sleb128, indirect) with values on both sides of the LEB128 sign-bit and size steps, signal trampoline, return-address registers around 127/128/255; FDE instruction lists over every write::CallFrameInstruction variant with offsets on and off the data-alignment grid, code offsets spanning 0x3f/0x40, 0xff/0x100, 0xffff/0x10000 after factoring and off the code-alignment grid. Oracle: read back with gimli's frame readers: same CIE parameters, FDE ranges, personality/LSDA pointers; identical CIEs emitted once and unreferenced ones not at all; length field + length a multiple of the address size; UnwindTable rows equal the call-frame state machine (cfimodel.rs) run on the supplied instruction list at the supplied code offsets; off-grid offsets / unsupported versions must be refused. Non-trivial = FDE with >=3 instructions at >=2 distinct offsets and a negative offset operand; distinct by choice string. Later additions: pcrel udata2/udata4 pointer encodings; FDE addresses around 2^31 and 2^32; cie_count / fde_count."
    }
    fn assumptions(&self) -> Vec<&'static str> {
        vec![
            "decreasing code offsets are not generated (FrameDescriptionEntry::add_instruction documents a debug assertion)",
            "a value that does not fit the chosen pointer format, an unsupported pointer application, or a register above 255 in a version 1 CIE may be refused",
            "rows are compared on unbounded model storage; StackFull / TooManyRegisterRules from the default heap storage are accepted",
            "sections whose CIEs disagree on the address size are only written, not read back, where the section format carries no per-CIE address size",
        ]
    }
    fn max_len(&self) -> usize {
        500
    }
    fn cases(&self, tier: Tier, dev: bool) -> u64 {
        match (tier, dev) {
            (Tier::Quick, false) => 80_000,
            (Tier::Quick, true) => 8_000,
            (Tier::Thorough, false) => 3_000_000,
            (Tier::Thorough, true) => 250_000,
        }
    }
    fn run_case(&self, ch: &mut Choices, cx: &mut Ctx) -> R {
        let mut bad = false;
        let s = gen_spec(ch, &mut bad);
        cx.sample_with(|| format!("{} {} CIEs {:?} FDEs {:?}", if s.eh { ".eh_frame" } else { ".debug_frame" }, if s.big { "BE" } else { "LE" }, s.cies, s.fdes));
        check_spec(&s, bad, cx)
    }
}
