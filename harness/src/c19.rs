//! C19 — filtered conversion output is dependency-closed, complete and minimal.
use crate::c12::{describe_fdwarf, load_map};
use crate::core::*;
use crate::fullasm::*;
use crate::sem;
use crate::{ensure, ensure_eq, fail};
use gimli::write as w;
use gimli::RunTimeEndian;
use std::collections::{BTreeMap, BTreeSet};

pub struct C19;

/// Tags whose entries stand on their own (types, namespaces, imports): kept only when referenced.
const STANDALONE_TAGS: [u16; 36] = [
    0x01, 0x47, 0x24, 0x02, 0x26, 0x36, 0x03, 0x04, 0x0f, 0x1f, 0x10, 0x37, 0x42, 0x12, 0x13, 0x16, 0x17, 0x3b, 0x35, 0x44, 0x1a, 0x46, 0x29, 0x4b, 0x38, 0x20, 0x40, 0x15, 0x2d, 0x43, 0x2b, 0x39, 0x3d, 0x08, 0x3a, 0x1e,
];

/// Every entry tag of DWARF 2-5 except the unit tags, plus GNU/UPC vendor tags.
const ALL_TAGS: [u16; 74] = [
    0x01, 0x02, 0x03, 0x04, 0x05, 0x08, 0x0a, 0x0b, 0x0d, 0x0f, 0x10, 0x12, 0x13, 0x15, 0x16, 0x17, 0x18, 0x19, 0x1a, 0x1b, 0x1c, 0x1d, 0x1e, 0x1f, 0x20, 0x21, 0x22, 0x23, 0x24, 0x25, 0x26, 0x27, 0x28, 0x29, 0x2a, 0x2b, 0x2c, 0x2d, 0x2e, 0x2f, 0x30,
    0x31, 0x32, 0x33, 0x34, 0x35, 0x36, 0x37, 0x38, 0x39, 0x3a, 0x3b, 0x3d, 0x3f, 0x40, 0x42, 0x43, 0x44, 0x45, 0x46, 0x47, 0x48, 0x49, 0x4b, 0x4106, 0x4107, 0x4108, 0x4109, 0x410a, 0x8765, 0x4101, 0x4102, 0x4103, 0x4104,
];

fn member_like(d: &FDie) -> bool {
    if STANDALONE_TAGS.contains(&d.tag) {
        return false;
    }
    if d.tag == 0x2e {
        return d.attrs.iter().any(|a| a.0 == 0x3c);
    }
    true
}

fn expr_targets(ops: &[EOp], out: &mut Vec<Target>) {
    for op in ops {
        match op {
            EOp::Call(t, _) | EOp::CallRef(t) | EOp::ConstType(t, _) | EOp::RegvalType(_, t) | EOp::DerefType(_, t) | EOp::ImplicitPointer(t, _) | EOp::ParameterRef(t) | EOp::VariableValue(t) => out.push(*t),
            EOp::Convert(Some(t)) | EOp::Reinterpret(Some(t)) => out.push(*t),
            EOp::EntryValue(inner) => expr_targets(inner, out),
            _ => {}
        }
    }
}

/// Everything an entry refers to (attributes, expressions, location lists).
fn references(d: &FDwarf, t: Target) -> Vec<Target> {
    let u = &d.units[t.0];
    let mut out = Vec::new();
    for (_, v) in &u.dies[t.1].attrs {
        match v {
            FVal::Ref(x, _) => out.push(*x),
            FVal::Expr(ops, _) => expr_targets(ops, &mut out),
            FVal::Locs(li, _) => {
                for (_, ops) in &u.locs[*li] {
                    expr_targets(ops, &mut out);
                }
            }
            _ => {}
        }
    }
    out
}

/// The closure the statement describes. Roots are always present and are not entries of the closure.
pub fn closure(d: &FDwarf, required: &BTreeSet<Target>) -> BTreeSet<Target> {
    let mut keep: BTreeSet<Target> = BTreeSet::new();
    let mut work: Vec<Target> = required.iter().copied().filter(|t| t.1 != 0).collect();
    // the unit roots are always present: what they refer to is needed
    for ui in 0..d.units.len() {
        work.extend(references(d, (ui, 0)));
    }
    while let Some(t) = work.pop() {
        if t.1 == 0 || !keep.insert(t) {
            continue;
        }
        let u = &d.units[t.0];
        let die = &u.dies[t.1];
        // ancestors
        if die.parent != 0 {
            work.push((t.0, die.parent));
        }
        // references
        work.extend(references(d, t));
        // member-like children of a retained non-namespace entry
        if die.tag != 0x39 {
            for c in u.children(t.1) {
                if member_like(&u.dies[c]) {
                    work.push((t.0, c));
                }
            }
        }
    }
    keep
}

type Map = BTreeMap<&'static str, Vec<u8>>;

/// Filtered conversion through the public API. Err(stage:error).
fn convert_filtered(map: &Map, big: bool, required_markers: &BTreeSet<u64>) -> Result<Map, String> {
    let endian = if big { RunTimeEndian::Big } else { RunTimeEndian::Little };
    let dwarf = load_map(map, big);
    let ca = |a: u64| Some(w::Address::Constant(a));
    let mut filter = w::FilterUnitSection::new(&dwarf).map_err(|e| format!("filter:{:?}", e))?;
    while let Some(mut unit) = filter.read_unit().map_err(|e| format!("filter:{:?}", e))? {
        let mut entry = unit.null_entry();
        while unit.read_entry(&mut entry).map_err(|e| format!("filter:{:?}", e))? {
            let m = entry.attr_value(gimli::DwAt(AT_MARKER)).and_then(|v| v.udata_value());
            if let Some(m) = m {
                if required_markers.contains(&m) {
                    unit.require_entry(entry.offset());
                }
            }
        }
    }
    let mut out = w::Dwarf::new();
    {
        let mut conv = out.convert_with_filter(filter).map_err(|e| format!("convert:{:?}", e))?;
        while let Some((mut unit, root)) = conv.read_unit().map_err(|e| format!("convert:{:?}", e))? {
            unit.convert(root, &ca).map_err(|e| format!("convert:{:?}", e))?;
        }
    }
    let mut sections = w::Sections::new(w::EndianVec::new(endian));
    out.write(&mut sections).map_err(|e| format!("write:{:?}", e))?;
    let mut m = Map::new();
    sections
        .for_each(|id, data| -> Result<(), w::Error> {
            m.insert(id.name(), data.slice().to_vec());
            Ok(())
        })
        .unwrap();
    Ok(m)
}

fn check_subset(d: &FDwarf, map: &Map, d0: &sem::DwarfDump, required: &BTreeSet<Target>, cx: &mut Ctx) -> R {
    check_subset_with(d, &|req| convert_filtered(map, d.big, req), d0, required, cx)
}

/// `convert`: the filtered conversion under test, given the markers of the required entries.
fn check_subset_with(d: &FDwarf, convert: &dyn Fn(&BTreeSet<u64>) -> Result<Map, String>, d0: &sem::DwarfDump, required: &BTreeSet<Target>, cx: &mut Ctx) -> R {
    let want = closure(d, required);
    let req_markers: BTreeSet<u64> = required.iter().map(|t| marker(*t)).collect();
    let out = match convert(&req_markers) {
        Ok(o) => o,
        Err(e) => {
            // the unfiltered conversion of the same input succeeded (checked by the caller): a filtered one must too
            fail!("c19/filtered-conversion-fails", "required {:?}: {}", required, e);
        }
    };
    let d1 = {
        let dwarf = load_map(&out, d.big);
        match sem::dwarf_dump(&dwarf) {
            Ok(x) => x,
            Err(e) => fail!("c19/output-unreadable", "{}", e),
        }
    };
    // identities present per unit
    ensure_eq!(d1.units.len(), d.units.len(), "c19/unit-count", "required {:?}", required);
    let by_marker0: BTreeMap<u64, (&sem::EntryDump, Option<u64>)> = {
        // marker -> (entry, parent marker) in the input
        let mut m = BTreeMap::new();
        for u in &d0.units {
            let mut stack: Vec<(isize, Option<u64>)> = Vec::new();
            for e in &u.entries {
                while matches!(stack.last(), Some((dep, _)) if *dep >= e.depth) {
                    stack.pop();
                }
                let parent = stack.last().and_then(|x| x.1);
                if let Some(mk) = e.marker {
                    m.insert(mk, (e, parent));
                }
                stack.push((e.depth, e.marker));
            }
        }
        m
    };
    let mut got: BTreeSet<u64> = BTreeSet::new();
    for (ui, u) in d1.units.iter().enumerate() {
        let mut stack: Vec<(isize, Option<u64>)> = Vec::new();
        for (k, e) in u.entries.iter().enumerate() {
            while matches!(stack.last(), Some((dep, _)) if *dep >= e.depth) {
                stack.pop();
            }
            let parent = stack.last().and_then(|x| x.1);
            stack.push((e.depth, e.marker));
            let Some(mk) = e.marker else { fail!("c19/unidentified-entry", "unit {} entry #{}", ui, k) };
            if k == 0 {
                ensure_eq!(mk, marker((ui, 0)), "c19/root-identity", "unit {}", ui);
            } else {
                got.insert(mk);
            }
            let Some((e0, parent0)) = by_marker0.get(&mk) else { fail!("c19/unknown-entry", "marker {}", mk) };
            ensure_eq!(parent, *parent0, "c19/parent-changed", "entry M{}: parent in the output vs in the input (required {:?})", mk, required);
            ensure_eq!(e.tag, e0.tag, "c19/tag-changed", "entry M{}", mk);
            // same attributes as unfiltered (= as the input, by meaning)
            if e.attrs != e0.attrs {
                for (a, b) in e.attrs.iter().zip(e0.attrs.iter()) {
                    if a != b {
                        let sig = if a.1.contains("dangling") { "c19/dangling-reference" } else { "c19/attribute-changed" };
                        fail!(sig, "entry M{} attribute {:#x}: `{}` in the filtered output, `{}` in the input (required {:?})", mk, a.0, a.1, b.1, required);
                    }
                }
                fail!("c19/attribute-count", "entry M{}: {:x?} vs {:x?}", mk, e.attrs.iter().map(|a| a.0).collect::<Vec<_>>(), e0.attrs.iter().map(|a| a.0).collect::<Vec<_>>());
            }
            for (n, m) in &e.attrs {
                ensure!(!m.contains("dangling"), "c19/dangling-reference", "entry M{} attribute {:#x}: {}", mk, n, m);
            }
        }
    }
    let want_markers: BTreeSet<u64> = want.iter().map(|t| marker(*t)).collect();
    let missing: Vec<&u64> = want_markers.difference(&got).collect();
    let extra: Vec<&u64> = got.difference(&want_markers).collect();
    ensure!(missing.is_empty(), "c19/missing-entries", "required {:?}: entries {:?} belong to the closure {:?} but are not in the output {:?}", required, missing, want_markers, got);
    ensure!(extra.is_empty(), "c19/unneeded-entries", "required {:?}: entries {:?} are in the output but not connected to a required entry (closure {:?})", required, extra, want_markers);
    if !want.is_empty() && want.len() > required.len() && want.len() < d.units.iter().map(|u| u.dies.len() - 1).sum::<usize>() {
        cx.nt();
    }
    Ok(())
}

fn gen_c19(ch: &mut Choices) -> FDwarf {
    let mut d = gen_fdwarf(ch, &GenOpts { max_units: 3, max_dies: 9, lines: false, bad_refs: 0, split: false });
    reshape(&mut d, ch);
    d
}

/// More structure: deeper nesting and a tag mix covering both categories.
fn reshape(d: &mut FDwarf, ch: &mut Choices) {
    for u in d.units.iter_mut() {
        u.partial = false;
        let n = u.dies.len();
        for i in 1..n {
            if ch.chance(100) {
                u.dies[i].parent = ch.below(i);
            }
            if ch.chance(60) {
                u.dies[i].tag = ch.pick(&[0x39u16, 0x39, 0x13, 0x2e, 0x34, 0x0d, 0x05, 0x0b]);
            } else if ch.chance(70) {
                // any tag of DWARF 2-5 and the common vendor tags, so that every tag of both categories occurs
                u.dies[i].tag = ALL_TAGS[ch.below(ALL_TAGS.len())];
            }
        }
    }
}

/// The same property through the split-unit filter: `FilterUnitSection::new_split` + `convert_split_with_filter`.
fn check_split(ch: &mut Choices, cx: &mut Ctx) -> R {
    cx.label("split unit filter");
    let c = crate::split::gen_split_with(ch, 9, &mut |d, ch| reshape(d, ch));
    let d = &c.d;
    cx.sample_with(|| format!("split compilation: {}", describe_fdwarf(d)));
    let d_in = match crate::split::dump_split_input(&c) {
        Ok(x) => x,
        Err(e) => fail!("c19/harness/assembled-input-unreadable", "{}", e),
    };
    // only inputs whose unfiltered split conversion and write succeed (C12 judges those)
    if crate::split::convert_split(&c, None).is_err() {
        cx.label("unfiltered conversion refused");
        return Ok(());
    }
    let d0 = crate::split::expected_dump(&c, &d_in);
    let all: Vec<Target> = (1..d.units[0].dies.len()).map(|i| (0, i)).collect();
    let conv = |req: &BTreeSet<u64>| crate::split::convert_split(&c, Some(req));
    if all.len() <= 6 {
        cx.label("every subset of required entries");
        for mask in 0..(1u32 << all.len()) {
            let req: BTreeSet<Target> = all.iter().enumerate().filter(|(i, _)| mask >> i & 1 == 1).map(|(_, t)| *t).collect();
            check_subset_with(d, &conv, &d0, &req, cx)?;
        }
    } else {
        cx.label("generated subsets of required entries");
        for _ in 0..3 {
            let density = ch.pick(&[20u32, 60, 128]);
            let req: BTreeSet<Target> = all.iter().filter(|_| ch.chance(density)).copied().collect();
            check_subset_with(d, &conv, &d0, &req, cx)?;
        }
        let one: BTreeSet<Target> = [all[ch.below(all.len())]].into_iter().collect();
        check_subset_with(d, &conv, &d0, &one, cx)?;
    }
    Ok(())
}

fn check(ch: &mut Choices, cx: &mut Ctx) -> R {
    let d = gen_c19(ch);
    cx.sample_with(|| describe_fdwarf(&d));
    let asm = assemble(&d);
    let map: Map = asm.sections.clone();
    let d0 = {
        let dwarf = load_map(&map, d.big);
        match sem::dwarf_dump(&dwarf) {
            Ok(x) => x,
            Err(e) => fail!("c19/harness/assembled-input-unreadable", "{}", e),
        }
    };
    // only inputs whose unfiltered conversion and write succeed (C12 judges those)
    if let Err(e) = crate::c12::convert_dwarf(&map, d.big, false) {
        cx.label("unfiltered conversion refused");
        let _ = e;
        return Ok(());
    }
    let all: Vec<Target> = d.units.iter().enumerate().flat_map(|(ui, u)| (1..u.dies.len()).map(move |i| (ui, i))).collect();
    if all.len() <= 6 {
        cx.label("every subset of required entries");
        for mask in 0..(1u32 << all.len()) {
            let req: BTreeSet<Target> = all.iter().enumerate().filter(|(i, _)| mask >> i & 1 == 1).map(|(_, t)| *t).collect();
            check_subset(&d, &map, &d0, &req, cx)?;
        }
    } else {
        cx.label("generated subsets of required entries");
        for _ in 0..3 {
            let density = ch.pick(&[20u32, 60, 128]);
            let req: BTreeSet<Target> = all.iter().filter(|_| ch.chance(density)).copied().collect();
            check_subset(&d, &map, &d0, &req, cx)?;
        }
        // single required entries: the sharpest test of minimality
        let one: BTreeSet<Target> = [all[ch.below(all.len())]].into_iter().collect();
        check_subset(&d, &map, &d0, &one, cx)?;
    }
    Ok(())
}

impl Prop for C19 {
    fn id(&self) -> &'static str {
        "C19"
    }
    fn rule(&self) -> &'static str {
        "assembler-built forests of 1-3 units x 1-9 entries (versions 2-5, both formats) with generated nesting, a tag mix over both categories (namespaces, types, subprogram definitions and declarations vs variables, members, parameters, blocks, enumerators, call sites), references in-unit and cross-unit in every reference form, cycles, references from expressions (call2/4, call_ref, typed operations, implicit_pointer, parameter_ref, nested entry_value) and from location lists in both section generations; the same forests as the full unit of a split compilation (skeleton unit + .dwo sections, DWARF 4 GNU extension and DWARF 5) filtered with FilterUnitSection::new_split and converted with convert_split_with_filter; required sets: every subset when there are <= 6 entries, otherwise three generated subsets of different density and one singleton. Oracle: an independent reachability closure over the model (required entries, their ancestors, everything retained entries refer to, member-like children of retained non-namespace entries); the identity markers present in the read-back output must equal the closure exactly (no missing entry, no unneeded entry), parents must be the original parents, attributes must equal the input's by meaning (the C12 dump), no reference may dangle, and conversion + write must succeed whenever the unfiltered conversion does. Non-trivial = the closure is strictly larger than the required set and strictly smaller than the forest; distinct by choice string."
    }
    fn assumptions(&self) -> Vec<&'static str> {
        vec![
            "the unit root is always present and is not itself a retained entry: its children are kept only through the closure (gimli's documented design)",
            "which tags count as member-like follows the list documented in FilterUnitEntry::has_die_back_edge",
            "inputs whose unfiltered conversion is refused are skipped (C12 judges unfiltered conversion)",
        ]
    }
    fn max_len(&self) -> usize {
        700
    }
    fn cases(&self, tier: Tier, dev: bool) -> u64 {
        match (tier, dev) {
            (Tier::Quick, false) => 12_000,
            (Tier::Quick, true) => 2_000,
            (Tier::Thorough, false) => 600_000,
            (Tier::Thorough, true) => 60_000,
        }
    }
    fn run_case(&self, ch: &mut Choices, cx: &mut Ctx) -> R {
        if ch.chance(40) {
            return check_split(ch, cx);
        }
        check(ch, cx)
    }
}
