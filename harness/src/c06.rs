//! C06 — unwind table rows equal DWARF call-frame semantics.
use crate::cfimodel::*;
use crate::core::*;
use crate::enc::mask;
use crate::{ensure, ensure_eq, fail};
use gimli::{BaseAddresses, CfaRule, DebugFrame, EhFrame, EndianSlice, Register, RegisterRule, RunTimeEndian, UnwindContext, UnwindContextStorage, UnwindSection, UnwindTableRow};

pub struct C06;

type Rdr<'a> = EndianSlice<'a, RunTimeEndian>;

// ---- small custom storages --------------------------------------------------

macro_rules! storage {
    ($name:ident, $rules:expr, $rows:expr) => {
        pub struct $name;
        impl UnwindContextStorage<usize> for $name {
            type Rules = [(Register, RegisterRule<usize>); $rules];
            type Stack = [UnwindTableRow<usize, Self>; $rows];
        }
    };
}
storage!(S1x1, 1, 1);
storage!(S2x2, 2, 2);
storage!(S4x4, 4, 4);
storage!(S3x5, 3, 5);
storage!(S193x5, 193, 5);

pub struct CfiCase {
    pub big: bool,
    pub eh: bool,
    pub cie: CieSpec,
    pub fde: FdeSpec,
    pub aarch64: bool,
}

fn gen_reg(ch: &mut Choices) -> u64 {
    match ch.below(48) {
        0..=3 => 0,
        4..=19 => 1 + ch.below(3) as u64,
        20..=22 => 34,
        23 | 24 => 63,
        25 | 26 => 64,
        27 | 28 => 0xffff,
        29 => 0x10000 + ch.below(2) as u64,
        _ => ch.below(8) as u64,
    }
}

fn gen_expr_bytes(ch: &mut Choices) -> Vec<u8> {
    let n = ch.below(4);
    ch.bytes(n)
}

pub fn gen_cfi_op(ch: &mut Choices, address_size: u8, in_cie: bool) -> CfiOp {
    match ch.below(40) {
        0..=2 => CfiOp::AdvanceLoc(ch.pick(&[0u8, 1, 2, 0x3f])),
        3 => CfiOp::AdvanceLoc1(ch.pick(&[0u8, 1, 0x40, 0xff])),
        4 => CfiOp::AdvanceLoc2(ch.pick(&[1u16, 0x100, 0xffff])),
        5 => CfiOp::AdvanceLoc4(ch.pick(&[1u32, 0x10000, 0xffff_ffff])),
        6 => CfiOp::SetLoc(ch.biased(8 * address_size as u32)),
        7 | 8 => CfiOp::DefCfa(gen_reg(ch), ch.biased(64)),
        9 => CfiOp::DefCfaSf(gen_reg(ch), ch.biased_signed(64)),
        10 => CfiOp::DefCfaRegister(gen_reg(ch)),
        11 => CfiOp::DefCfaOffset(ch.biased(64)),
        12 => CfiOp::DefCfaOffsetSf(ch.biased_signed(64)),
        13 => CfiOp::DefCfaExpression(gen_expr_bytes(ch)),
        14 => CfiOp::Undefined(gen_reg(ch)),
        15 => CfiOp::SameValue(gen_reg(ch)),
        16..=18 => CfiOp::Offset(ch.below(8) as u8, ch.biased(64)),
        19 => CfiOp::OffsetExtended(gen_reg(ch), ch.biased(64)),
        20 => CfiOp::OffsetExtendedSf(gen_reg(ch), ch.biased_signed(64)),
        21 => CfiOp::ValOffset(gen_reg(ch), ch.biased(64)),
        22 => CfiOp::ValOffsetSf(gen_reg(ch), ch.biased_signed(64)),
        23 => CfiOp::Register(gen_reg(ch), gen_reg(ch)),
        24 => CfiOp::Expression(gen_reg(ch), gen_expr_bytes(ch)),
        25 => CfiOp::ValExpression(gen_reg(ch), gen_expr_bytes(ch)),
        26..=28 => {
            if in_cie && !ch.chance(32) {
                CfiOp::Offset(ch.below(4) as u8, ch.biased(16))
            } else {
                CfiOp::Restore(ch.below(8) as u8)
            }
        }
        29 => CfiOp::RestoreExtended(gen_reg(ch)),
        30..=33 => CfiOp::RememberState,
        34 | 35 => CfiOp::RestoreState,
        36 => CfiOp::ArgsSize(ch.biased(64)),
        37 => CfiOp::NegateRaState,
        38 => {
            if ch.chance(40) {
                CfiOp::Unknown(ch.pick(&[0x17u8, 0x1c, 0x1d, 0x2f, 0x3f, 0x2c]))
            } else {
                CfiOp::Nop
            }
        }
        _ => CfiOp::Nop,
    }
}

pub fn gen_case(ch: &mut Choices) -> CfiCase {
    let big = ch.bool();
    let eh = ch.chance(64);
    let address_size = ch.pick(&[8u8, 4, 4, 8, 2, 1]);
    let version = if eh { 1 } else { ch.pick(&[1u8, 3, 4]) };
    let code_align = match ch.below(8) {
        0 => 0,
        1 | 2 | 3 => 1,
        4 => 4,
        5 => ch.biased(64),
        _ => 2,
    };
    let data_align = match ch.below(8) {
        0 => 0,
        1 | 2 => -8,
        3 => 1,
        4 => -4,
        5 => ch.biased_signed(64),
        _ => -1,
    };
    let ncie = ch.count(8);
    let cie_instrs: Vec<CfiOp> = (0..ncie).map(|_| gen_cfi_op(ch, address_size, true)).collect();
    // optionally many distinct register rules in the CIE, to reach the rule limit
    let mut cie_instrs = cie_instrs;
    let many = ch.chance(12);
    if many {
        let n = ch.pick(&[190usize, 191, 192, 193]);
        for r in 0..n {
            cie_instrs.push(CfiOp::OffsetExtended(100 + r as u64, 1));
        }
    }
    let nfde = ch.count(30);
    let fde_instrs: Vec<CfiOp> = (0..nfde).map(|_| gen_cfi_op(ch, address_size, false)).collect();
    let m = mask(address_size);
    let initial = match ch.below(4) {
        0 => 0,
        1 => ch.biased(8 * address_size as u32),
        _ => 0x1000 & m,
    };
    let range = match ch.below(4) {
        0 => ch.biased(8 * address_size as u32),
        _ => 0x100 & m,
    };
    // an .eh_frame CIE may carry a 'zR' augmentation: the FDE's addresses and every DW_CFA_set_loc operand are then
    // written in that pointer encoding (absolute application here; unsigned formats of every width). All such values
    // are kept within what the format holds.
    let (aug, fde_enc) = if eh && ch.chance(110) { (b"zR".to_vec(), ch.pick(&[0x03u8, 0x00, 0x02, 0x04, 0x01, 0x03])) } else { (Vec::new(), 0u8) };
    let fm = match fde_enc & 0x0f {
        0x02 => 0xffff,
        0x03 => 0xffff_ffff,
        _ => u64::MAX,
    } & m;
    let (initial, range) = (initial & fm, range & fm);
    let fix = |ops: Vec<CfiOp>| -> Vec<CfiOp> {
        ops.into_iter()
            .map(|o| match o {
                CfiOp::SetLoc(a) => CfiOp::SetLoc(a & fm),
                o => o,
            })
            .collect()
    };
    let (cie_instrs, fde_instrs) = (fix(cie_instrs), fix(fde_instrs));
    let cie = CieSpec {
        version,
        format64: ch.chance(48),
        aug,
        address_size,
        segment_size: 0,
        code_align,
        data_align,
        ra_reg: ch.below(20) as u64,
        lsda_enc: 0,
        personality: None,
        fde_enc,
        instrs: cie_instrs,
        pad: ch.below(3),
    };
    let fde = FdeSpec { cie: 0, format64: ch.chance(48), initial_raw: initial, range_raw: range, lsda_raw: None, instrs: fde_instrs, pad: ch.below(3) };
    CfiCase { big, eh, cie, fde, aarch64: ch.bool() }
}

/// The address size the section is told to assume by default. A version 4 CIE carries its own address size, which
/// governs everything in that CIE and its FDEs: for such cases the section default is (half of the time) a different
/// one, and must not matter.
pub fn section_address_size(case: &CfiCase) -> u8 {
    if !case.eh && case.cie.version == 4 && case.fde.range_raw & 1 == 1 {
        if case.cie.address_size == 8 {
            4
        } else {
            8
        }
    } else {
        case.cie.address_size
    }
}

fn mrule_of(r: &RegisterRule<usize>) -> Option<MRule> {
    Some(match r {
        RegisterRule::Undefined => MRule::Undefined,
        RegisterRule::SameValue => MRule::SameValue,
        RegisterRule::Offset(o) => MRule::Offset(*o),
        RegisterRule::ValOffset(o) => MRule::ValOffset(*o),
        RegisterRule::Register(r) => MRule::Register(r.0 as u64),
        RegisterRule::Expression(e) => MRule::Expression(e.offset, e.length),
        RegisterRule::ValExpression(e) => MRule::ValExpression(e.offset, e.length),
        RegisterRule::Constant(c) => MRule::Constant(*c),
        _ => return None,
    })
}

fn mrow_of<S: UnwindContextStorage<usize>>(row: &UnwindTableRow<usize, S>) -> R<MRow> {
    let cfa = match row.cfa() {
        CfaRule::RegisterAndOffset { register, offset } => MCfa::RegOff(register.0 as u64, *offset),
        CfaRule::Expression(e) => MCfa::Expr(e.offset, e.length),
    };
    let mut rules = std::collections::BTreeMap::new();
    for (reg, rule) in row.registers() {
        let Some(mr) = mrule_of(rule) else { fail!("c06/row/unknown-rule-kind", "{:?}", rule) };
        if rules.insert(reg.0 as u64, mr).is_some() {
            fail!("c06/row/duplicate-register", "register {} listed twice by registers()", reg.0);
        }
    }
    // register(r) must agree with registers()
    for (reg, rule) in rules.iter() {
        let got = row.register(Register(*reg as u16)).as_ref().and_then(mrule_of);
        ensure_eq!(got.as_ref(), Some(rule), "c06/row/register-vs-registers", "register {}", reg);
    }
    for probe in [0u16, 1, 2, 3, 34, 63, 64, 0xffff] {
        if !rules.contains_key(&(probe as u64)) {
            ensure!(row.register(Register(probe)).is_none(), "c06/row/register-phantom", "register({}) returns a rule that registers() does not list", probe);
        }
    }
    Ok(MRow { start: row.start_address(), end: row.end_address(), cfa, rules, args_size: row.saved_args_size() })
}

#[derive(Debug)]
pub struct GRun {
    pub rows: Vec<MRow>,
    pub end: Result<(), String>,
}

fn errname(e: &gimli::Error) -> String {
    let s = format!("{:?}", e);
    match s.find('(') {
        Some(i) => s[..i].to_string(),
        None => s,
    }
}

/// Run gimli over the assembled section with the given context; collect rows.
pub fn run_gimli<S: UnwindContextStorage<usize>>(case: &CfiCase, built: &BuiltFrame, ctx: &mut UnwindContext<usize, S>, stop_after: Option<usize>) -> R<GRun> {
    let endian = if case.big { RunTimeEndian::Big } else { RunTimeEndian::Little };
    let bases = BaseAddresses::default();
    let vendor = if case.aarch64 { gimli::Vendor::AArch64 } else { gimli::Vendor::Default };
    let mut rows = Vec::new();
    macro_rules! go {
        ($section:expr, $offty:expr) => {{
            let section = $section;
            let fde = match section.fde_from_offset(&bases, $offty(built.fdes[0].offset), |s, b, o| s.cie_from_offset(b, o)) {
                Ok(f) => f,
                Err(e) => return Ok(GRun { rows, end: Err(format!("parse:{}", errname(&e))) }),
            };
            let mut table = match fde.rows(&section, &bases, ctx) {
                Ok(t) => t,
                Err(e) => return Ok(GRun { rows, end: Err(errname(&e)) }),
            };
            loop {
                if let Some(k) = stop_after {
                    if rows.len() >= k {
                        // the row last returned is also available with the context's lifetime
                        match (table.into_current_row(), rows.last()) {
                            (Some(r), Some(last)) => {
                                let cur = mrow_of(r)?;
                                if &cur != last {
                                    fail!("c06/into_current_row/differs", "after {} rows: into_current_row gives {:?}, the row last returned was {:?}", rows.len(), cur, last);
                                }
                            }
                            (None, None) => {}
                            (g, w) => fail!("c06/into_current_row/presence", "after {} rows: into_current_row is {} but a row was {} returned", rows.len(), if g.is_some() { "Some" } else { "None" }, if w.is_some() { "" } else { "never" }),
                        }
                        return Ok(GRun { rows, end: Ok(()) });
                    }
                }
                match table.next_row() {
                    Ok(Some(row)) => rows.push(mrow_of(row)?),
                    Ok(None) => {
                        // no row is current once the table is exhausted, nor after a failed evaluation
                        if table.into_current_row().is_some() {
                            fail!("c06/into_current_row/after-end", "after {} rows and the end of the table a current row is still reported", rows.len());
                        }
                        return Ok(GRun { rows, end: Ok(()) });
                    }
                    Err(e) => {
                        if let Some(r) = table.into_current_row() {
                            fail!("c06/into_current_row/after-error", "after {} rows and the error {} a current row is reported: {:?}", rows.len(), errname(&e), mrow_of(r)?);
                        }
                        return Ok(GRun { rows, end: Err(errname(&e)) });
                    }
                }
                if rows.len() > 4096 {
                    fail!("c06/rows/unbounded", "more than 4096 rows");
                }
            }
        }};
    }
    if case.eh {
        let mut s = EhFrame::new(&built.bytes, endian);
        s.set_address_size(case.cie.address_size);
        s.set_vendor(vendor);
        go!(s, gimli::EhFrameOffset)
    } else {
        let mut s = DebugFrame::new(&built.bytes, endian);
        s.set_address_size(section_address_size(case));
        s.set_vendor(vendor);
        go!(s, gimli::DebugFrameOffset)
    }
}

/// The unwind row for one address through `FrameDescriptionEntry::unwind_info_for_address` on the given context
/// (rendered; an error by its name).
pub fn lookup_gimli<S: UnwindContextStorage<usize>>(case: &CfiCase, built: &BuiltFrame, ctx: &mut UnwindContext<usize, S>, address: u64) -> R<String> {
    let endian = if case.big { RunTimeEndian::Big } else { RunTimeEndian::Little };
    let bases = BaseAddresses::default();
    let vendor = if case.aarch64 { gimli::Vendor::AArch64 } else { gimli::Vendor::Default };
    macro_rules! go {
        ($section:expr, $offty:expr) => {{
            let section = $section;
            let fde = match section.fde_from_offset(&bases, $offty(built.fdes[0].offset), |s, b, o| s.cie_from_offset(b, o)) {
                Ok(f) => f,
                Err(e) => return Ok(format!("parse:{}", errname(&e))),
            };
            match fde.unwind_info_for_address(&section, &bases, ctx, address) {
                Ok(row) => Ok(format!("{:?}", mrow_of(row)?)),
                Err(e) => Ok(errname(&e)),
            }
        }};
    }
    if case.eh {
        let mut s = EhFrame::new(&built.bytes, endian);
        s.set_address_size(case.cie.address_size);
        s.set_vendor(vendor);
        go!(s, gimli::EhFrameOffset)
    } else {
        let mut s = DebugFrame::new(&built.bytes, endian);
        s.set_address_size(section_address_size(case));
        s.set_vendor(vendor);
        go!(s, gimli::DebugFrameOffset)
    }
}

pub fn build(case: &CfiCase) -> BuiltFrame {
    build_frame(case.eh, case.big, std::slice::from_ref(&case.cie), std::slice::from_ref(&case.fde), &[Entry::Cie(0), Entry::Fde(0)], case.eh)
}

pub fn model_run(case: &CfiCase, built: &BuiltFrame, stack_cap: usize, rules_cap: usize, initial_slot: bool) -> CfiRun {
    let a = case.cie.address_size;
    let m = mask(a);
    let p = CfiParams {
        address_size: a,
        code_align: case.cie.code_align,
        data_align: case.cie.data_align,
        aarch64: case.aarch64,
        initial_address: case.fde.initial_raw & m,
        end_address: (case.fde.initial_raw & m).wrapping_add(case.fde.range_raw & m) & m,
        stack_cap,
        rules_cap,
        initial_slot,
    };
    run_cfi(&p, &case.cie.instrs, &built.cies[0].expr_offsets, &case.fde.instrs, &built.fdes[0].expr_offsets)
}

fn compare(g: &GRun, m: &CfiRun, what: &str) -> R {
    // gimli's rows must be a prefix of the model's rows, then the same ending
    for (i, gr) in g.rows.iter().enumerate() {
        match m.rows.get(i) {
            Some(mr) => {
                if gr != mr {
                    fail!(format!("c06/{}/row", what), "row #{} differs:\n gimli {:?}\n model {:?}", i, gr, mr);
                }
            }
            None => {
                if matches!(m.end, CfiEnd::Open(_)) {
                    return Ok(());
                }
                fail!(format!("c06/{}/extra-row", what), "gimli yields row #{} {:?} but the model has only {} rows (end {:?})", i, gr, m.rows.len(), m.end)
            }
        }
    }
    match (&g.end, &m.end) {
        (Ok(()), CfiEnd::Done) => {
            ensure_eq!(g.rows.len(), m.rows.len(), format!("c06/{}/row-count", what));
            Ok(())
        }
        (Err(e), CfiEnd::Err(kinds)) => {
            ensure_eq!(g.rows.len(), m.rows.len(), format!("c06/{}/rows-before-error", what), "error {}", e);
            if kinds.iter().any(|k| k == e) {
                Ok(())
            } else {
                fail!(format!("c06/{}/error-kind", what), "gimli {} model {:?}", e, kinds)
            }
        }
        // open: either AddressOverflow after the model's rows, or continuation with wrapped values (not compared further)
        (_, CfiEnd::Open(_)) => Ok(()),
        (Ok(()), CfiEnd::Err(k)) => fail!(format!("c06/{}/missed-error", what), "gimli completed with {} rows; model expects {:?} after {} rows", g.rows.len(), k, m.rows.len()),
        (Err(e), CfiEnd::Done) => fail!(format!("c06/{}/unexpected-error", what), "gimli returns {} after {} rows; model completes with {} rows", e, g.rows.len(), m.rows.len()),
    }
}

/// Judge a run on a bounded storage: it must equal the model run with that capacity
/// (with or without the slot that >=2 initial rules occupy), never a silently wrong row.
fn judge_storage<S: UnwindContextStorage<usize>>(case: &CfiCase, built: &BuiltFrame, rows_cap: usize, rules_cap: usize, what: &str, cx: &mut Ctx) -> R {
    let mut ctx: UnwindContext<usize, S> = UnwindContext::new_in();
    let g = run_gimli(case, built, &mut ctx, None)?;
    let m1 = model_run(case, built, rows_cap, rules_cap, true);
    if matches!(&m1.end, CfiEnd::Err(k) if k[0] == "StackFull" || k[0] == "TooManyRegisterRules") {
        cx.label("storage-limit-exceeded");
        cx.nt();
    }
    if m1.max_depth == rows_cap || m1.max_rules == rules_cap {
        cx.label("storage-limit-reached-exactly");
    }
    match compare(&g, &m1, what) {
        Ok(()) => Ok(()),
        Err(e1) => {
            let m2 = model_run(case, built, rows_cap, rules_cap, false);
            compare(&g, &m2, what).map_err(|_| e1)
        }
    }
}

pub fn check_case(case: &CfiCase, cx: &mut Ctx, storages: bool) -> R {
    let built = build(case);
    let unbounded = model_run(case, &built, usize::MAX, usize::MAX, true);
    cx.say(|| format!("model (unbounded): rows={:#?}\n end={:?} depth={} rules={}", unbounded.rows, unbounded.end, unbounded.max_depth, unbounded.max_rules));
    // default heap storage: 4 rows / 192 rules
    let mut ctx: UnwindContext<usize> = UnwindContext::new();
    let g = run_gimli(case, &built, &mut ctx, None)?;
    if let Err(e) = &g.end {
        if e.starts_with("parse:") {
            // the entry itself was not accepted (e.g. register number in the CIE): not this property's business
            cx.label("entry-rejected");
            return Ok(());
        }
    }
    let heap_model = model_run(case, &built, 4, 192, true);
    match compare(&g, &heap_model, "heap") {
        Ok(()) => {}
        Err(e1) => {
            let m2 = model_run(case, &built, 4, 192, false);
            compare(&g, &m2, "heap").map_err(|_| e1)?;
        }
    }
    // stopping after k rows: the same first k rows, and the row last returned is what into_current_row hands out
    if storages {
        for k in [0usize, 1, g.rows.len() / 2, g.rows.len()] {
            if k > g.rows.len() {
                continue;
            }
            let mut ctx2: UnwindContext<usize> = UnwindContext::new();
            let part = run_gimli(case, &built, &mut ctx2, Some(k))?;
            if part.end.is_ok() {
                ensure_eq!(&part.rows[..], &g.rows[..k.min(g.rows.len())], "c06/partial/rows", "stopping after {} rows", k);
            }
        }
    }
    // structural clauses on whatever rows were delivered
    for (i, r) in g.rows.iter().enumerate() {
        if i > 0 {
            ensure_eq!(r.start, g.rows[i - 1].end, "c06/structure/contiguous", "row #{}", i);
            ensure!(r.start >= g.rows[i - 1].start, "c06/structure/decreasing-start", "row #{} start {:#x} < previous {:#x}", i, r.start, g.rows[i - 1].start);
        } else {
            ensure_eq!(r.start, case.fde.initial_raw & mask(case.cie.address_size), "c06/structure/first-start");
        }
    }
    if g.end.is_ok() {
        if let Some(last) = g.rows.last() {
            let m = mask(case.cie.address_size);
            ensure_eq!(last.end, (case.fde.initial_raw & m).wrapping_add(case.fde.range_raw & m) & m, "c06/structure/last-end");
        }
    }
    // classes
    match unbounded.initial_rule_count {
        0 => cx.label("initial-rules=0"),
        1 => cx.label("initial-rules=1"),
        _ => cx.label("initial-rules>=2"),
    }
    if unbounded.used_remember {
        cx.label("remember_state");
    }
    if unbounded.restore_with_initial {
        cx.label("restore-to-initial-rule");
    }
    match &unbounded.end {
        CfiEnd::Err(k) => cx.label(match k[0] {
            "CfiInstructionInInvalidContext" => "err:InvalidContext",
            "PopWithEmptyStack" => "err:PopWithEmptyStack",
            "InvalidCfiSetLoc" => "err:InvalidCfiSetLoc",
            "UnknownCallFrameInstruction" => "err:UnknownInstruction",
            "AddressOverflow" => "err:AddressOverflow",
            "UnsupportedRegister" => "err:UnsupportedRegister",
            _ => "err:other",
        }),
        CfiEnd::Open(_) => cx.label("open:advance-overflows-u64"),
        CfiEnd::Done => cx.label("completes"),
    }
    if heap_model.max_depth >= 4 {
        cx.label("heap-depth-limit-reached");
    }
    if unbounded.rows.len() >= 2 && (unbounded.used_remember || (unbounded.restore_with_initial && unbounded.initial_rule_count >= 2) || heap_model.max_depth >= 4 || heap_model.max_rules >= 192) {
        cx.nt();
    }

    // unwind_info_for_address at row boundaries equals the first row containing the address
    if matches!(unbounded.end, CfiEnd::Done) && g.end.is_ok() {
        let endian = if case.big { RunTimeEndian::Big } else { RunTimeEndian::Little };
        let bases = BaseAddresses::default();
        let mut addrs: Vec<u64> = Vec::new();
        for r in unbounded.rows.iter().take(6) {
            addrs.extend_from_slice(&[r.start, r.start.wrapping_add(1), r.end.wrapping_sub(1), r.end]);
        }
        addrs.truncate(16);
        for a in addrs {
            let want = unbounded.rows.iter().find(|r| r.start <= a && a < r.end);
            let mut ctx: UnwindContext<usize> = UnwindContext::new();
            macro_rules! look {
                ($s:expr, $off:expr) => {{
                    let s = $s;
                    match s.fde_from_offset(&bases, $off(built.fdes[0].offset), |s, b, o| s.cie_from_offset(b, o)) {
                        Ok(fde) => fde.unwind_info_for_address(&s, &bases, &mut ctx, a).map(|r| mrow_of(r)).map_err(|e| errname(&e)),
                        Err(e) => Err(errname(&e)),
                    }
                }};
            }
            let got = if case.eh {
                let mut s = EhFrame::new(&built.bytes, endian);
                s.set_address_size(case.cie.address_size);
                s.set_vendor(if case.aarch64 { gimli::Vendor::AArch64 } else { gimli::Vendor::Default });
                look!(s, gimli::EhFrameOffset)
            } else {
                let mut s = DebugFrame::new(&built.bytes, endian);
                s.set_address_size(section_address_size(case));
                s.set_vendor(if case.aarch64 { gimli::Vendor::AArch64 } else { gimli::Vendor::Default });
                look!(s, gimli::DebugFrameOffset)
            };
            match (got, want) {
                (Ok(row), Some(w)) => {
                    let row = row?;
                    if row != *w {
                        fail!("c06/unwind_info_for_address/row", "address {:#x}: gimli {:?} model {:?}", a, row, w);
                    }
                }
                (Err(e), None) if e == "NoUnwindInfoForAddress" => {}
                (Ok(row), None) => fail!("c06/unwind_info_for_address/phantom", "address {:#x} is in no row; gimli returns {:?}", a, row),
                (Err(e), w) => fail!("c06/unwind_info_for_address/error", "address {:#x}: gimli {} model {:?}", a, e, w),
            }
        }
    }

    if storages {
        judge_storage::<S1x1>(case, &built, 1, 1, "storage1x1", cx)?;
        judge_storage::<S2x2>(case, &built, 2, 2, "storage2x2", cx)?;
        judge_storage::<S4x4>(case, &built, 4, 4, "storage4x4", cx)?;
        judge_storage::<S3x5>(case, &built, 5, 3, "storage3x5", cx)?;
        if unbounded.max_rules > 150 {
            judge_storage::<S193x5>(case, &built, 5, 193, "storage193x5", cx)?;
        }
    }
    Ok(())
}

fn alphabet() -> Vec<CfiOp> {
    vec![
        CfiOp::DefCfa(7, 8),
        CfiOp::DefCfaRegister(6),
        CfiOp::DefCfaOffset(16),
        CfiOp::DefCfaExpression(vec![0x50]),
        CfiOp::Offset(1, 2),
        CfiOp::Offset(2, 3),
        CfiOp::Restore(1),
        CfiOp::Undefined(1),
        CfiOp::SameValue(2),
        CfiOp::RememberState,
        CfiOp::RestoreState,
        CfiOp::AdvanceLoc(1),
        CfiOp::ArgsSize(16),
        CfiOp::Nop,
    ]
}

fn enum_case(idx: u64, len: usize, placement: u8) -> CfiCase {
    let alpha = alphabet();
    let k = alpha.len() as u64;
    let mut ops = Vec::with_capacity(len);
    let mut x = idx;
    for _ in 0..len {
        ops.push(alpha[(x % k) as usize].clone());
        x /= k;
    }
    let (cie_ops, fde_ops) = match placement {
        0 => (ops, vec![CfiOp::AdvanceLoc(1), CfiOp::Restore(1), CfiOp::RestoreState]),
        1 => (vec![], ops),
        _ => {
            let h = ops.len() / 2;
            (ops[..h].to_vec(), ops[h..].to_vec())
        }
    };
    CfiCase {
        big: false,
        eh: false,
        cie: CieSpec { version: 4, format64: false, aug: vec![], address_size: 8, segment_size: 0, code_align: 1, data_align: -8, ra_reg: 16, lsda_enc: 0, personality: None, fde_enc: 0, instrs: cie_ops, pad: 0 },
        fde: FdeSpec { cie: 0, format64: false, initial_raw: 0x1000, range_raw: 0x100, lsda_raw: None, instrs: fde_ops, pad: 0 },
        aarch64: false,
    }
}

impl Prop for C06 {
    fn id(&self) -> &'static str {
        "C06"
    }
    fn rule(&self) -> &'static str {
        "exhaustive: all instruction sequences of length<=4 over a 14-symbol alphabet (def_cfa*, def_cfa_expression, offset r1/r2, restore r1, undefined, same_value, remember/restore_state, advance, args_size, nop) placed in the CIE, in the FDE and split across both; random: CIE (0..8 instrs, optionally 190..193 distinct register rules) + FDE (0..30 instrs) over every DW_CFA opcode incl. GNU_args_size, AArch64 negate_ra_state under both vendor settings and unknown opcodes, boundary operands, alignment factors incl. 0/negative/huge, address sizes 1/2/4/8, .debug_frame v1/3/4 and .eh_frame, 32/64-bit entries. Oracle: call-frame state machine (cfimodel.rs) with exact capacity accounting; heap storage (4 rows/192 rules) and custom storages (1x1,2x2,4x4,3 rules x5 rows,193x5) judged against the model run with the same capacities; rows contiguous/non-decreasing/ending at the FDE end; unwind_info_for_address at row boundaries. Non-trivial = >=2 rows and (remember_state used, restore with >=2 initial rules, or a storage limit reached/exceeded); distinct by choice string / enumerated sequence. Later additions: .eh_frame CIEs with a zR augmentation whose pointer encoding (unsigned formats of every width) governs the FDE addresses and every DW_CFA_set_loc operand of the FDE. Round-8 additions: no current row (into_current_row) after a failed or exhausted next_row."
    }
    fn assumptions(&self) -> Vec<&'static str> {
        vec![
            "factored offsets are computed modulo 2^64 (the property names wrapping factored offsets)",
            "when an advance delta times the code alignment factor exceeds 2^64 both a wrapped row and AddressOverflow are accepted and later rows are not compared",
            "a CIE that leaves remembered states on the implicit stack hands them to the FDE",
            ">=2 initial rules may occupy one row-stack slot (gimli's documented representation): a storage-limit error is accepted under either accounting",
        ]
    }
    fn max_len(&self) -> usize {
        360
    }
    fn cases(&self, tier: Tier, dev: bool) -> u64 {
        match (tier, dev) {
            (Tier::Quick, false) => 150_000,
            (Tier::Quick, true) => 15_000,
            (Tier::Thorough, false) => 6_000_000,
            (Tier::Thorough, true) => 400_000,
        }
    }
    fn run_case(&self, ch: &mut Choices, cx: &mut Ctx) -> R {
        let case = gen_case(ch);
        cx.sample_with(|| format!("{} addr{} cie v{} caf={} daf={} aarch64={} CIE{:?} FDE[{:#x}+{:#x}]{:?}", if case.eh { ".eh_frame" } else { ".debug_frame" }, case.cie.address_size, case.cie.version, case.cie.code_align, case.cie.data_align, case.aarch64, &case.cie.instrs[..case.cie.instrs.len().min(12)], case.fde.initial_raw, case.fde.range_raw, case.fde.instrs));
        check_case(&case, cx, true)
    }
    fn exhaustive(&self, tier: Tier, dev: bool, shard: usize, nshards: usize, ex: &mut Exhaust) {
        let k = alphabet().len() as u64;
        let maxlen = if dev && tier == Tier::Quick { 3 } else { 4 };
        let mut total = 0u64;
        let mut nt = 0u64;
        for placement in 0..3u8 {
            for len in 1..=maxlen {
                let count = k.pow(len as u32);
                let mut idx = shard as u64;
                while idx < count {
                    let case = enum_case(idx, len, placement);
                    let mut cx = Ctx::new(ex.known, false, ex.dev);
                    let r = catch("enum-cfi", || check_case(&case, &mut cx, len <= 3)).and_then(|r| r);
                    total += 1;
                    if cx.nontrivial {
                        nt += 1;
                    }
                    if let Err(e) = r {
                        let mut data = vec![placement, len as u8];
                        data.extend_from_slice(&idx.to_le_bytes());
                        ex.fail("enum-cfi", &data, e);
                        if ex.stop {
                            return;
                        }
                    }
                    idx += nshards as u64;
                }
            }
        }
        ex.tally(total, nt, "exhaustive-cfi-sequences");
        ex.complete(&format!("all sequences of length<={} over the 14-symbol alphabet x {{CIE, FDE, split}}", maxlen));
        ex.sample(format!("enumerated: CIE [] FDE {:?}", enum_case(9 + 14 * 4 + 14 * 14 * 11 + 14 * 14 * 14 * 10, 4, 1).fde.instrs));
    }
    fn replay_special(&self, mode: &str, data: &[u8], cx: &mut Ctx) -> R {
        if mode != "enum-cfi" {
            fail!("replay/unknown-mode", "{}", mode);
        }
        let mut a = [0u8; 8];
        a.copy_from_slice(&data[2..10]);
        let case = enum_case(u64::from_le_bytes(a), data[1] as usize, data[0]);
        cx.say(|| format!("CIE {:?}\nFDE {:?}", case.cie.instrs, case.fde.instrs));
        check_case(&case, cx, true)
    }
}
