//! C05 — CIE/FDE decoding and address lookup agree with the section contents.
use crate::cfimodel::*;
use crate::core::*;
use crate::enc::{mask, W};
use crate::{ensure, ensure_eq, fail};
use gimli::{BaseAddresses, CieOrFde, DebugFrame, EhFrame, EhFrameHdr, EndianSlice, Pointer, RunTimeEndian, UnwindContext, UnwindSection};

pub struct C05;

type Rdr<'a> = EndianSlice<'a, RunTimeEndian>;

fn show_cie_or_fde<'b, S, R>(e: &CieOrFde<'b, S, R>) -> String
where
    R: gimli::Reader<Offset = usize>,
    S: UnwindSection<R>,
{
    match e {
        CieOrFde::Cie(c) => format!("cie@{}", c.offset()),
        CieOrFde::Fde(p) => format!("fde@{}", p.offset()),
    }
}

#[derive(Clone, Debug, Default)]
pub struct Bases {
    pub eh_frame: Option<u64>,
    pub text: Option<u64>,
    pub data: Option<u64>,
    pub hdr: Option<u64>,
}

impl Bases {
    fn to_gimli(&self) -> BaseAddresses {
        // the four setters are independent: the order of the calls (chosen from the values) must not matter
        let mut b = BaseAddresses::default();
        let k = (self.eh_frame.unwrap_or(1) ^ self.text.unwrap_or(2) >> 3 ^ self.data.unwrap_or(3) >> 5 ^ self.hdr.unwrap_or(4) >> 2) as usize;
        for i in 0..4 {
            match (i + k) % 4 {
                0 => {
                    if let Some(a) = self.eh_frame {
                        b = b.set_eh_frame(a);
                    }
                }
                1 => {
                    if let Some(a) = self.text {
                        b = b.set_text(a);
                    }
                }
                2 => {
                    if let Some(a) = self.hdr {
                        b = b.set_eh_frame_hdr(a);
                    }
                }
                _ => {
                    if let Some(a) = self.data {
                        b = b.set_got(a);
                    }
                }
            }
        }
        b
    }
}

#[derive(Debug, Clone, PartialEq)]
pub enum PtrErr {
    UnknownEncoding,
    Omit,
    NoSectionBase,
    NoTextBase,
    NoDataBase,
    NoFuncBase,
    Aligned,
}

impl PtrErr {
    fn gimli_name(&self) -> &'static str {
        match self {
            PtrErr::UnknownEncoding => "UnknownPointerEncoding",
            PtrErr::Omit => "CannotParseOmitPointerEncoding",
            PtrErr::NoSectionBase => "PcRelativePointerButSectionBaseIsUndefined",
            PtrErr::NoTextBase => "TextRelativePointerButTextBaseIsUndefined",
            PtrErr::NoDataBase => "DataRelativePointerButDataBaseIsUndefined",
            PtrErr::NoFuncBase => "FuncRelativePointerInBadContext",
            PtrErr::Aligned => "UnsupportedPointerEncoding",
        }
    }
}

pub fn enc_valid(enc: u8) -> bool {
    if enc == 0xff {
        return true;
    }
    matches!(enc & 0x0f, 0x00 | 0x01 | 0x02 | 0x03 | 0x04 | 0x09 | 0x0a | 0x0b | 0x0c) && matches!(enc & 0x70, 0x00 | 0x10 | 0x20 | 0x30 | 0x40 | 0x50)
}

/// Decode a pointer the way the LSB eh_frame spec defines it: base selected by the application, value by the format.
/// `field_addr`: address of the encoded field (section base + offset) if the section base is known.
pub fn model_pointer(enc: u8, raw: u64, address_size: u8, field_addr: Option<u64>, text: Option<u64>, data: Option<u64>, func: Option<u64>) -> Result<(u64, bool), PtrErr> {
    if !enc_valid(enc) {
        return Err(PtrErr::UnknownEncoding);
    }
    if enc == 0xff {
        return Err(PtrErr::Omit);
    }
    let base = match enc & 0x70 {
        0x00 => 0,
        0x10 => field_addr.ok_or(PtrErr::NoSectionBase)?,
        0x20 => text.ok_or(PtrErr::NoTextBase)?,
        0x30 => data.ok_or(PtrErr::NoDataBase)?,
        0x40 => func.ok_or(PtrErr::NoFuncBase)?,
        _ => return Err(PtrErr::Aligned),
    };
    let v = pe_value(enc, raw, address_size);
    Ok((base.wrapping_add(v) & mask(address_size), enc & 0x80 != 0))
}

pub struct FrameCase {
    pub eh: bool,
    pub big: bool,
    pub address_size: u8,
    pub cies: Vec<CieSpec>,
    pub fdes: Vec<FdeSpec>,
    pub order: Vec<Entry>,
    pub terminator: bool,
    pub bases: Bases,
    /// hdr: (eh_frame_ptr_enc, fde_count_enc, table_enc)
    pub hdr: Option<(u8, u8, u8)>,
}

fn gen_enc(ch: &mut Choices, for_initial: bool) -> u8 {
    let fmt = ch.pick(&[0x00u8, 0x03, 0x0b, 0x04, 0x0c, 0x02, 0x0a, 0x01, 0x09]);
    let app = match ch.below(16) {
        0..=6 => 0x00u8,
        7..=10 => 0x10,
        11 => 0x20,
        12 => 0x30,
        13 => {
            if for_initial {
                0x10
            } else {
                0x40
            }
        }
        14 => {
            if ch.chance(40) {
                0x50
            } else {
                0x00
            }
        }
        _ => 0x10,
    };
    let ind = if ch.chance(24) { 0x80 } else { 0 };
    if ch.chance(5) {
        return ch.u8(); // arbitrary encoding byte (possibly invalid)
    }
    fmt | app | ind
}

fn gen_case(ch: &mut Choices) -> FrameCase {
    let eh = ch.chance(150);
    let big = ch.bool();
    let address_size = ch.pick(&[8u8, 8, 4, 4, 2]);
    let m = mask(address_size);
    let ncie = 1 + ch.below(3);
    let nfde = ch.count(8);
    let bases = Bases {
        eh_frame: if ch.chance(220) { Some(ch.pick(&[0x200000u64, 0x1000, 0x7fff_0000]) & m) } else { None },
        text: if ch.chance(200) { Some(ch.pick(&[0x400000u64, 0x2000]) & m) } else { None },
        data: if ch.chance(200) { Some(ch.pick(&[0x600000u64, 0x3000]) & m) } else { None },
        hdr: Some(0x1f0000 & m),
    };
    let mut cies = Vec::new();
    for _ in 0..ncie {
        let version = if eh { ch.pick(&[1u8, 1, 3]) } else { ch.pick(&[1u8, 3, 4]) };
        let mut aug: Vec<u8> = Vec::new();
        // (.debug_frame entries may carry the same augmentation; there only with absolute pointers)
        if (eh && ch.chance(200)) || (!eh && ch.chance(70)) {
            aug.push(b'z');
            // a subset of L, P, R, S in a generated order
            let mut letters: Vec<u8> = Vec::new();
            for l in [b'R', b'L', b'P', b'S'] {
                if ch.chance(if l == b'R' { 220 } else { 90 }) {
                    letters.push(l);
                }
            }
            let rot = ch.below(letters.len().max(1));
            letters.rotate_left(rot);
            aug.extend(letters);
        }
        let (mut fde_enc, mut lsda_enc, mut pers_enc) = (gen_enc(ch, true), gen_enc(ch, false), gen_enc(ch, true));
        if !eh {
            fde_enc &= 0x0f;
            lsda_enc &= 0x0f;
            pers_enc &= 0x0f;
        }
        cies.push(CieSpec {
            version,
            format64: ch.chance(50),
            aug,
            address_size,
            segment_size: 0,
            code_align: ch.pick(&[1u64, 4, 0x80, 1 << 40]),
            data_align: ch.pick(&[-8i64, -4, 1, -(1 << 40)]),
            ra_reg: if version == 1 { ch.below(256) as u64 } else { ch.pick(&[16u64, 0, 300, 0xffff]) },
            lsda_enc,
            personality: Some((pers_enc, ch.biased(16))),
            fde_enc,
            instrs: (0..ch.below(3)).map(|_| CfiOp::DefCfaOffset(8)).collect(),
            pad: ch.below(4),
        });
    }
    let mut fdes = Vec::new();
    for k in 0..nfde {
        let cie = ch.below(ncie);
        // raw deltas increase with k so that decoded ranges are disjoint for one base
        let signed = matches!(cies[cie].fde_enc & 0x0f, 0x09 | 0x0a | 0x0b | 0x0c) && ch.bool();
        let step: u64 = if address_size == 2 { 0x100 } else { 0x1000 };
        let delta = if signed { (0u64).wrapping_sub(step * (nfde - k) as u64) } else { step * (k as u64 + 1) };
        let has_r = cies[cie].aug.contains(&b'R');
        let initial_raw = if has_r {
            delta.wrapping_add(ch.below(8) as u64)
        } else {
            // absolute address field
            (0x10000u64.wrapping_add(step * (k as u64 + 1)).wrapping_add(ch.below(8) as u64)) & m
        };
        let range_raw = match ch.below(8) {
            0 => 0,
            1 => 1,
            2 => step - 0x10,
            _ => 1 + ch.below(0x60) as u64,
        };
        fdes.push(FdeSpec { cie, format64: ch.chance(50), initial_raw, range_raw, lsda_raw: Some(ch.biased(16)), instrs: (0..ch.below(3)).map(|_| CfiOp::Nop).collect(), pad: ch.below(4) });
    }
    // order: FDEs may precede their CIE; interleave
    let mut order: Vec<Entry> = (0..ncie).map(Entry::Cie).chain((0..nfde).map(Entry::Fde)).collect();
    if ch.chance(128) {
        // shuffle by a generated permutation (Fisher-Yates driven by choices)
        for i in (1..order.len()).rev() {
            let j = ch.below(i + 1);
            order.swap(i, j);
        }
    }
    if eh {
        // .eh_frame CIE pointers are unsigned distances back to the CIE: every CIE must precede its FDEs
        let mut fixed: Vec<Entry> = Vec::new();
        let mut placed = vec![false; ncie];
        for e in &order {
            match e {
                Entry::Cie(i) => {
                    if !placed[*i] {
                        placed[*i] = true;
                        fixed.push(Entry::Cie(*i));
                    }
                }
                Entry::Fde(i) => {
                    let ci = fdes[*i].cie;
                    if !placed[ci] {
                        placed[ci] = true;
                        fixed.push(Entry::Cie(ci));
                    }
                    fixed.push(Entry::Fde(*i));
                }
            }
        }
        order = fixed;
    }
    let hdr = if eh && ch.chance(200) {
        let table_enc = ch.pick(&[0x3bu8, 0x3b, 0x33, 0x03, 0x0b, 0x1b, 0x3c, 0x34, 0x04, 0x3a, 0x32, 0x1c]);
        Some((ch.pick(&[0x1bu8, 0x03, 0x0b, 0x33, 0x04]), ch.pick(&[0x03u8, 0x04, 0x02, 0x01]), table_enc))
    } else {
        None
    };
    FrameCase { eh, big, address_size, cies, fdes, order, terminator: eh && ch.chance(200), bases, hdr }
}

#[derive(Debug, Clone)]
struct ModelFde {
    idx: usize,
    offset: usize,
    cie_offset: usize,
    initial: u64,
    len: u64,
    end: u64,
    lsda: Option<(u64, bool)>,
}

fn errname(e: &gimli::Error) -> String {
    let s = format!("{:?}", e);
    match s.find('(') {
        Some(i) => s[..i].to_string(),
        None => s,
    }
}

/// Model of one FDE: Ok(fields) or the error kind its parsing must produce.
fn model_fde(c: &FrameCase, built: &BuiltFrame, i: usize) -> Result<ModelFde, String> {
    let f = &c.fdes[i];
    let cie = &c.cies[f.cie];
    let rec = &built.fdes[i];
    let a = c.address_size;
    let m = mask(a);
    // the CIE itself must parse
    model_cie_error(c, f.cie, built)?;
    let has_z = cie.aug.first() == Some(&b'z');
    let has_r = has_z && cie.aug.contains(&b'R');
    let field_addr = |at: usize| c.bases.eh_frame.map(|b| b.wrapping_add(at as u64) & m);
    let (initial, len) = if has_r {
        let (p, _ind) = model_pointer(cie.fde_enc, f.initial_raw, a, field_addr(rec.initial_loc_at), c.bases.text, c.bases.data, None).map_err(|e| e.gimli_name().to_string())?;
        (p, pe_value(cie.fde_enc, f.range_raw, a))
    } else {
        (f.initial_raw & m, f.range_raw & m)
    };
    let lsda = if has_z && cie.aug.contains(&b'L') {
        let (p, ind) = model_pointer(cie.lsda_enc, f.lsda_raw.unwrap_or(0), a, field_addr(rec.lsda_at), c.bases.text, c.bases.data, Some(initial)).map_err(|e| e.gimli_name().to_string())?;
        Some((p, ind))
    } else {
        None
    };
    Ok(ModelFde { idx: i, offset: rec.offset, cie_offset: built.cies[f.cie].offset, initial, len, end: initial.wrapping_add(len) & m, lsda })
}

/// Errors the CIE's own parsing must produce (personality pointer, encodings), if any.
fn model_cie_error(c: &FrameCase, i: usize, built: &BuiltFrame) -> Result<(), String> {
    let cie = &c.cies[i];
    let a = c.address_size;
    let m = mask(a);
    if cie.aug.first() != Some(&b'z') {
        return Ok(());
    }
    for ch in &cie.aug[1..] {
        match ch {
            b'L' => {
                if !enc_valid(cie.lsda_enc) {
                    return Err("UnknownPointerEncoding".into());
                }
            }
            b'R' => {
                if !enc_valid(cie.fde_enc) {
                    return Err("UnknownPointerEncoding".into());
                }
            }
            b'P' => {
                let (enc, raw) = cie.personality.unwrap_or((0, 0));
                let fa = c.bases.eh_frame.map(|b| b.wrapping_add(built.cies[i].personality_at as u64) & m);
                model_pointer(enc, raw, a, fa, c.bases.text, c.bases.data, None).map_err(|e| e.gimli_name().to_string())?;
            }
            _ => {}
        }
    }
    Ok(())
}

fn check_frame(c: &FrameCase, cx: &mut Ctx) -> R {
    let built = build_frame(c.eh, c.big, &c.cies, &c.fdes, &c.order, c.terminator);
    let endian = if c.big { RunTimeEndian::Big } else { RunTimeEndian::Little };
    let bases = c.bases.to_gimli();
    let a = c.address_size;
    let m = mask(a);
    let models: Vec<Result<ModelFde, String>> = (0..c.fdes.len()).map(|i| model_fde(c, &built, i)).collect();
    let any_error = models.iter().any(|x| x.is_err()) || (0..c.cies.len()).any(|i| model_cie_error(c, i, &built).is_err());

    macro_rules! with_section {
        ($body:ident) => {
            if c.eh {
                let mut s = EhFrame::new(&built.bytes, endian);
                s.set_address_size(a);
                $body!(s, gimli::EhFrameOffset)
            } else {
                let mut s = DebugFrame::new(&built.bytes, endian);
                // version 4 CIEs carry their own address size, which governs them and their FDEs: when every CIE of
                // the section is version 4, the section's default is (for odd numbers of FDEs) a different size
                let all_v4 = !c.cies.is_empty() && c.cies.iter().all(|x| x.version == 4);
                s.set_address_size(if all_v4 && c.fdes.len() % 2 == 1 { if a == 8 { 4 } else { 8 } } else { a });
                $body!(s, gimli::DebugFrameOffset)
            }
        };
    }

    // ---- iteration: every entry at its offset with its encoded fields
    macro_rules! iterate {
        ($s:expr, $off:expr) => {{
            let s = $s;
            let mut it = s.entries(&bases);
            crate::std_iter_agrees!(s.entries(&bases), show_cie_or_fde, "c05/entries/std-iterator");
            for (k, (is_cie, idx)) in built.order.iter().enumerate() {
                let e = it.next();
                if *is_cie {
                    let spec = &c.cies[*idx];
                    let rec = &built.cies[*idx];
                    match (e, model_cie_error(c, *idx, &built)) {
                        (Ok(Some(CieOrFde::Cie(cie))), Ok(())) => {
                            ensure_eq!(cie.offset(), rec.offset, "c05/cie/offset", "entry {}", k);
                            ensure_eq!(cie.entry_len() as u64, rec.length, "c05/cie/entry_len");
                            ensure_eq!(cie.version(), spec.version, "c05/cie/version");
                            ensure_eq!(cie.encoding().format, if spec.format64 { gimli::Format::Dwarf64 } else { gimli::Format::Dwarf32 }, "c05/cie/format");
                            ensure_eq!(cie.address_size(), a, "c05/cie/address_size");
                            ensure_eq!(cie.code_alignment_factor(), spec.code_align, "c05/cie/code_alignment_factor");
                            ensure_eq!(cie.data_alignment_factor(), spec.data_align, "c05/cie/data_alignment_factor");
                            ensure_eq!(cie.return_address_register().0 as u64, if spec.version == 1 { spec.ra_reg & 0xff } else { spec.ra_reg }, "c05/cie/return_address_register");
                            let z = spec.aug.first() == Some(&b'z');
                            ensure_eq!(cie.augmentation().is_some(), !spec.aug.is_empty(), "c05/cie/augmentation-present");
                            ensure_eq!(cie.has_lsda(), z && spec.aug.contains(&b'L'), "c05/cie/has_lsda");
                            ensure_eq!(cie.lsda_encoding().map(|e| e.0), if z && spec.aug.contains(&b'L') { Some(spec.lsda_enc) } else { None }, "c05/cie/lsda_encoding");
                            ensure_eq!(cie.fde_address_encoding().map(|e| e.0), if z && spec.aug.contains(&b'R') { Some(spec.fde_enc) } else { None }, "c05/cie/fde_address_encoding");
                            ensure_eq!(cie.is_signal_trampoline(), z && spec.aug.contains(&b'S'), "c05/cie/is_signal_trampoline");
                            let want_p = if z && spec.aug.contains(&b'P') {
                                let (enc, raw) = spec.personality.unwrap();
                                let fa = c.bases.eh_frame.map(|b| b.wrapping_add(rec.personality_at as u64) & m);
                                let (p, ind) = model_pointer(enc, raw, a, fa, c.bases.text, c.bases.data, None).unwrap();
                                Some((enc, if ind { Pointer::Indirect(p) } else { Pointer::Direct(p) }))
                            } else {
                                None
                            };
                            ensure_eq!(cie.personality_with_encoding().map(|(e, p)| (e.0, p)), want_p, "c05/cie/personality");
                            ensure_eq!(cie.personality(), want_p.map(|x| x.1), "c05/cie/personality-accessor");
                            // instructions: the encoded ones followed by padding nops
                            let mut n = 0;
                            let mut ii = cie.instructions(&s, &bases);
                            while let Some(_) = ii.next().map_err(|e| Failure { sig: "c05/cie/instructions".into(), detail: format!("{e:?}") })? {
                                n += 1;
                            }
                            ensure_eq!(n, spec.instrs.len() + spec.pad, "c05/cie/instruction-count");
                        }
                        (Err(e), Err(want)) => {
                            ensure_eq!(errname(&e), want, "c05/cie/error-kind", "entry {}", k);
                            // iteration stops being comparable after an error
                            return Ok(());
                        }
                        (other, want) => fail!("c05/cie/mismatch", "entry {} (CIE {}): gimli {:?}, model {:?}", k, idx, other.map(|o| o.map(|x| matches!(x, CieOrFde::Cie(_)))), want),
                    }
                } else {
                    let spec = &c.fdes[*idx];
                    let rec = &built.fdes[*idx];
                    match e {
                        Ok(Some(CieOrFde::Fde(partial))) => {
                            ensure_eq!(partial.offset(), rec.offset, "c05/fde/offset", "entry {}", k);
                            ensure_eq!(partial.entry_len() as u64, rec.length, "c05/fde/entry_len");
                            let cie_off: usize = gimli::UnwindOffset::into(partial.cie_offset());
                            ensure_eq!(cie_off, built.cies[spec.cie].offset, "c05/fde/cie_offset", "FDE {} must be bound to CIE {}", idx, spec.cie);
                            let parsed = partial.parse(|s, b, o| s.cie_from_offset(b, o));
                            match (parsed, &models[*idx]) {
                                (Ok(fde), Ok(mf)) => {
                                    ensure_eq!(fde.offset(), rec.offset, "c05/fde/parsed-offset");
                                    ensure_eq!(fde.cie().offset(), mf.cie_offset, "c05/fde/cie-binding");
                                    ensure_eq!(fde.initial_address(), mf.initial, "c05/fde/initial_address", "FDE {} enc {:#x} raw {:#x}", idx, c.cies[spec.cie].fde_enc, spec.initial_raw);
                                    ensure_eq!(fde.len(), mf.len, "c05/fde/len");
                                    ensure_eq!(fde.end_address(), mf.end, "c05/fde/end_address");
                                    ensure_eq!(fde.lsda(), mf.lsda.map(|(p, ind)| if ind { Pointer::Indirect(p) } else { Pointer::Direct(p) }), "c05/fde/lsda");
                                    ensure_eq!(fde.is_signal_trampoline(), c.cies[spec.cie].aug.first() == Some(&b'z') && c.cies[spec.cie].aug.contains(&b'S'), "c05/fde/is_signal_trampoline");
                                    ensure_eq!(fde.entry_len() as u64, rec.length, "c05/fde/parsed-entry_len");
                                    for probe in [mf.initial, mf.initial.wrapping_sub(1), mf.end.wrapping_sub(1), mf.end] {
                                        ensure_eq!(fde.contains(probe), mf.initial <= probe && probe < mf.end, "c05/fde/contains", "probe {:#x} in [{:#x},{:#x})", probe, mf.initial, mf.end);
                                    }
                                    let mut n = 0;
                                    let mut ii = fde.instructions(&s, &bases);
                                    while let Some(_) = ii.next().map_err(|e| Failure { sig: "c05/fde/instructions".into(), detail: format!("{e:?}") })? {
                                        n += 1;
                                    }
                                    ensure_eq!(n, spec.instrs.len() + spec.pad, "c05/fde/instruction-count");
                                }
                                (Err(e), Err(want)) => ensure_eq!(errname(&e), *want, "c05/fde/error-kind", "FDE {}", idx),
                                (g, mfe) => fail!("c05/fde/mismatch", "FDE {}: gimli {:?} model {:?}", idx, g.map(|f| f.initial_address()), mfe),
                            }
                        }
                        other => fail!("c05/fde/missing", "entry {} should be FDE {}: {:?}", k, idx, other.map(|o| o.is_some())),
                    }
                }
            }
            match it.next() {
                Ok(None) => {}
                other => fail!("c05/entries/extra", "{:?}", other.map(|o| o.is_some())),
            }
            ensure!(matches!(it.next(), Ok(None)), "c05/entries/after-end", "");
            // ---- fde_from_offset with a caching get_cie; cie_from_offset at FDE offsets must fail
            let mut cache: std::collections::HashMap<usize, gimli::CommonInformationEntry<Rdr>> = std::collections::HashMap::new();
            for (i, mf) in models.iter().enumerate() {
                let rec = &built.fdes[i];
                let got = s.fde_from_offset(&bases, $off(rec.offset), |s, b, o| {
                    let k: usize = gimli::UnwindOffset::into(o);
                    if let Some(c) = cache.get(&k) {
                        return Ok(c.clone());
                    }
                    let c = s.cie_from_offset(b, o)?;
                    cache.insert(k, c.clone());
                    Ok(c)
                });
                match (got, mf) {
                    (Ok(f), Ok(m)) => ensure_eq!((f.initial_address(), f.len(), f.cie().offset()), (m.initial, m.len, m.cie_offset), "c05/fde_from_offset/fields", "FDE {}", i),
                    (Err(e), Err(w)) => ensure_eq!(errname(&e), *w, "c05/fde_from_offset/error-kind"),
                    (g, w) => fail!("c05/fde_from_offset/mismatch", "FDE {}: {:?} vs {:?}", i, g.map(|f| f.initial_address()), w),
                }
                ensure!(s.cie_from_offset(&bases, $off(rec.offset)).is_err(), "c05/cie_from_offset/accepted-fde", "an FDE offset was parsed as a CIE");
            }
            for (i, rec) in built.cies.iter().enumerate() {
                if model_cie_error(c, i, &built).is_ok() {
                    let cie = s.cie_from_offset(&bases, $off(rec.offset)).map_err(|e| Failure { sig: "c05/cie_from_offset/rejected".into(), detail: format!("CIE {}: {:?}", i, e) })?;
                    ensure_eq!(cie.offset(), rec.offset, "c05/cie_from_offset/offset");
                }
                ensure!(s.partial_fde_from_offset(&bases, $off(rec.offset)).is_err(), "c05/fde_from_offset/accepted-cie", "a CIE offset was parsed as an FDE");
            }
            // ---- address lookup by linear search
            if !any_error {
                let ok: Vec<&ModelFde> = models.iter().filter_map(|m| m.as_ref().ok()).collect();
                let mut probes: Vec<u64> = vec![0, m];
                for f in ok.iter().take(6) {
                    probes.extend_from_slice(&[f.initial.wrapping_sub(1) & m, f.initial, f.initial.wrapping_add(1) & m, f.end.wrapping_sub(1) & m, f.end, f.end.wrapping_add(1) & m]);
                }
                for p in probes {
                    // first FDE in section order that contains p
                    let want = built.order.iter().filter(|(is_cie, _)| !*is_cie).filter_map(|(_, i)| models[*i].as_ref().ok()).find(|f| f.initial <= p && p < f.end);
                    let got = s.fde_for_address(&bases, p, |s, b, o| s.cie_from_offset(b, o));
                    match (got, want) {
                        (Ok(f), Some(w)) => ensure_eq!(f.offset(), w.offset, "c05/fde_for_address/wrong-fde", "address {:#x}", p),
                        (Err(gimli::Error::NoUnwindInfoForAddress), None) => {}
                        (g, w) => fail!("c05/fde_for_address/mismatch", "address {:#x}: gimli {:?}, exhaustive scan {:?}", p, g.map(|f| f.offset()), w.map(|f| f.offset)),
                    }
                    let mut ctx = UnwindContext::new();
                    let got = s.unwind_info_for_address(&bases, &mut ctx, p, |s, b, o| s.cie_from_offset(b, o)).map(|r| (r.start_address(), r.end_address()));
                    match (got, want) {
                        (Ok((st, en)), Some(w)) => {
                            ensure!(st <= p && p < en, "c05/unwind_info_for_address/row-does-not-contain", "address {:#x} row [{:#x},{:#x})", p, st, en);
                            ensure_eq!((st, en), (w.initial, w.end), "c05/unwind_info_for_address/row", "address {:#x}", p);
                        }
                        (Err(gimli::Error::NoUnwindInfoForAddress), None) => {}
                        (g, w) => fail!("c05/unwind_info_for_address/mismatch", "address {:#x}: gimli {:?}, exhaustive scan {:?}", p, g, w.map(|f| (f.initial, f.end))),
                    }
                }
            }
            Ok(())
        }};
    }
    let r: R = with_section!(iterate);
    r?;

    // ---- .eh_frame_hdr
    if let (true, Some((ptr_enc, cnt_enc, table_enc)), false) = (c.eh, c.hdr, any_error) {
        check_hdr(c, &built, &models, ptr_enc, cnt_enc, table_enc, cx)?;
    }

    if c.cies.len() >= 2 && c.fdes.len() >= 3 && c.cies.iter().any(|x| x.aug.contains(&b'R') && x.fde_enc != 0) {
        cx.nt();
    }
    cx.label(if c.eh { ".eh_frame" } else { ".debug_frame" });
    if any_error {
        cx.label("some entry must be rejected");
    }
    Ok(())
}

fn check_hdr(c: &FrameCase, built: &BuiltFrame, models: &[Result<ModelFde, String>], ptr_enc: u8, cnt_enc: u8, table_enc: u8, cx: &mut Ctx) -> R {
    let a = c.address_size;
    let m = mask(a);
    let (Some(eh_base), Some(hdr_base)) = (c.bases.eh_frame, c.bases.hdr) else { return Ok(()) };
    let mut rows: Vec<(u64, u64, usize)> = models.iter().filter_map(|x| x.as_ref().ok()).map(|f| (f.initial, eh_base.wrapping_add(f.offset as u64) & m, f.idx)).collect();
    rows.sort();
    if rows.is_empty() {
        return Ok(());
    }
    // a binary-search table is only meaningful when the FDE ranges are pairwise disjoint with distinct
    // start addresses (the linker's contract); different pointer encodings can make generated ranges overlap
    {
        let mut spans: Vec<(u64, u64)> = models.iter().filter_map(|x| x.as_ref().ok()).map(|f| (f.initial, f.end)).collect();
        spans.sort();
        if spans.windows(2).any(|w| w[1].0 < w[0].1 || w[1].0 == w[0].0) || spans.iter().any(|s| s.1 < s.0) {
            cx.label("hdr skipped: overlapping FDE ranges");
            return Ok(());
        }
    }
    // assemble the header; raw = target - base, must be representable in the format
    let fits = |enc: u8, raw: u64| -> bool {
        let back = pe_value(enc, raw, a);
        match enc & 0x0f {
            0x02 => raw <= 0xffff,
            0x03 => raw <= 0xffff_ffff,
            0x0a => (back as i64) >= i16::MIN as i64 && (back as i64) <= i16::MAX as i64 && (raw as u16 as i16 as i64 as u64) & m == raw & m,
            0x0b => (raw as u32 as i32 as i64 as u64) & m == raw & m,
            _ => true,
        }
    };
    let mut w = W::new(c.big);
    w.u8(1).u8(ptr_enc).u8(cnt_enc).u8(table_enc);
    let raw_for = |enc: u8, target: u64, field_at: usize| -> Option<u64> {
        let base = match enc & 0x70 {
            0x00 => 0,
            0x10 => hdr_base.wrapping_add(field_at as u64) & m,
            0x30 => hdr_base,
            _ => return None,
        };
        let raw = target.wrapping_sub(base) & m;
        // sign-extend-able? keep only representable
        let raw_fmt = match enc & 0x0f {
            0x0a => raw & 0xffff,
            0x0b => raw & 0xffff_ffff,
            _ => raw,
        };
        if fits(enc, raw) || (pe_value(enc, raw_fmt, a).wrapping_add(base) & m) == target & m {
            Some(raw_fmt)
        } else {
            None
        }
    };
    let Some(ptr_raw) = raw_for(ptr_enc, eh_base, w.len()) else { return Ok(()) };
    if (pe_value(ptr_enc, ptr_raw, a).wrapping_add(match ptr_enc & 0x70 { 0x10 => hdr_base.wrapping_add(4) & m, 0x30 => hdr_base, _ => 0 }) & m) != eh_base & m {
        return Ok(());
    }
    write_pe(&mut w, ptr_enc, ptr_raw, a);
    write_pe(&mut w, cnt_enc, rows.len() as u64, a);
    let table_at = w.len();
    let mut encoded_rows = Vec::new();
    for (from, to, _) in &rows {
        let f_at = w.len();
        let Some(fr) = raw_for(table_enc, *from, f_at) else { return Ok(()) };
        if (pe_value(table_enc, fr, a).wrapping_add(match table_enc & 0x70 { 0x10 => hdr_base.wrapping_add(f_at as u64) & m, 0x30 => hdr_base, _ => 0 }) & m) != *from & m {
            return Ok(());
        }
        write_pe(&mut w, table_enc, fr, a);
        let t_at = w.len();
        let Some(tr) = raw_for(table_enc, *to, t_at) else { return Ok(()) };
        if (pe_value(table_enc, tr, a).wrapping_add(match table_enc & 0x70 { 0x10 => hdr_base.wrapping_add(t_at as u64) & m, 0x30 => hdr_base, _ => 0 }) & m) != *to & m {
            return Ok(());
        }
        write_pe(&mut w, table_enc, tr, a);
        encoded_rows.push((*from, *to));
    }
    let _ = table_at;
    let endian = if c.big { RunTimeEndian::Big } else { RunTimeEndian::Little };
    let bases = c.bases.to_gimli();
    let hdr = EhFrameHdr::new(&w.buf, endian);
    let parsed = hdr.parse(&bases, a).map_err(|e| Failure { sig: "c05/hdr/parse".into(), detail: format!("{:?} (encodings {:#x} {:#x} {:#x})", e, ptr_enc, cnt_enc, table_enc) })?;
    ensure_eq!(parsed.eh_frame_ptr(), if ptr_enc & 0x80 != 0 { Pointer::Indirect(eh_base) } else { Pointer::Direct(eh_base) }, "c05/hdr/eh_frame_ptr");
    let Some(table) = parsed.table() else { fail!("c05/hdr/no-table", "{} rows", rows.len()) };
    // iter and nth
    let mut it = table.iter(&bases);
    for (k, (from, to)) in encoded_rows.iter().enumerate() {
        match it.next() {
            Ok(Some((f, t))) => ensure_eq!((f.pointer(), t.pointer()), (*from, *to), "c05/hdr/iter-row", "row {} enc {:#x}", k, table_enc),
            other => fail!("c05/hdr/iter-missing", "row {}: {:?}", k, other),
        }
    }
    ensure!(matches!(it.next(), Ok(None)), "c05/hdr/iter-extra", "");
    for k in 0..encoded_rows.len() + 1 {
        let got = table.iter(&bases).nth(k);
        match (got, encoded_rows.get(k)) {
            (Ok(Some((f, t))), Some(w)) => ensure_eq!((f.pointer(), t.pointer()), *w, "c05/hdr/nth", "n={}", k),
            (Ok(None), None) | (Err(_), None) => {}
            (g, w) => fail!("c05/hdr/nth-mismatch", "n={}: {:?} vs {:?}", k, g, w),
        }
    }
    // histories on one iterator: every sequence of up to three steps over {next, nth(0), nth(1), nth(2)}; the iterator
    // keeps its place between calls, and nothing is yielded beyond the table's rows
    {
        let n = encoded_rows.len();
        let ops: [Option<usize>; 4] = [None, Some(0), Some(1), Some(2)];
        for len in 1..=3usize {
            for idx in 0..4usize.pow(len as u32) {
                let mut it = table.iter(&bases);
                let mut pos = 0usize;
                let mut trace = Vec::new();
                for step in 0..len {
                    let op = ops[(idx / 4usize.pow(step as u32)) % 4];
                    let (got, at) = match op {
                        None => (it.next(), pos),
                        Some(k) => (it.nth(k), pos + k),
                    };
                    trace.push(op);
                    match (got, encoded_rows.get(at)) {
                        (Ok(Some((f, t))), Some(w)) => ensure_eq!((f.pointer(), t.pointer()), *w, "c05/hdr/iter-history-row", "steps {:?} (None = next, Some(k) = nth(k)) over {} rows", trace, n),
                        (Ok(None), None) | (Err(_), None) => {}
                        (g, w) => fail!("c05/hdr/iter-history", "steps {:?} (None = next, Some(k) = nth(k)) over {} rows: got {:?}, the table has {:?} there", trace, n, g, w),
                    }
                    pos = (at + 1).min(n + 4);
                    if pos <= n {
                        ensure_eq!(Iterator::size_hint(&it), (n - pos, Some(n - pos)), "c05/hdr/iter-size_hint", "after steps {:?} over {} rows", trace, n);
                    }
                }
            }
        }
        // the std::iter::Iterator view of the same table
        let mut it = table.iter(&bases);
        let mut k = 0;
        while let Some(r) = Iterator::next(&mut it) {
            match (r, encoded_rows.get(k)) {
                (Ok((f, t)), Some(w)) => ensure_eq!((f.pointer(), t.pointer()), *w, "c05/hdr/std-iter-row", "row {}", k),
                (g, w) => fail!("c05/hdr/std-iter", "row {}: {:?} vs {:?}", k, g, w),
            }
            k += 1;
            if k > n + 2 {
                break;
            }
        }
        ensure_eq!(k, n, "c05/hdr/std-iter-count");
        if n >= 2 {
            let got = Iterator::nth(&mut table.iter(&bases), 1).map(|r| r.map(|(f, t)| (f.pointer(), t.pointer())).ok());
            ensure_eq!(got, Some(Some(encoded_rows[1])), "c05/hdr/std-iter-nth");
        }
    }
    // lookups
    let eh = {
        let mut s = EhFrame::new(&built.bytes, endian);
        s.set_address_size(a);
        s
    };
    let ok: Vec<&ModelFde> = models.iter().filter_map(|x| x.as_ref().ok()).collect();
    let mut probes: Vec<u64> = vec![0, m, rows[0].0.wrapping_sub(1) & m];
    for f in ok.iter().take(8) {
        probes.extend_from_slice(&[f.initial, f.initial.wrapping_add(1) & m, f.end.wrapping_sub(1) & m, f.end, f.end.wrapping_add(1) & m]);
    }
    let indirect = table_enc & 0x80 != 0;
    for p in probes {
        // binary-search semantics: the last row whose address is <= p, or the first row
        let row = encoded_rows.iter().rev().find(|r| r.0 <= p).unwrap_or(&encoded_rows[0]);
        let got = table.lookup(p, &bases);
        if indirect {
            continue;
        }
        match got {
            Ok(ptr) => ensure_eq!(ptr.pointer(), row.1, "c05/hdr/lookup", "address {:#x} rows {:x?}", p, encoded_rows),
            Err(e) => fail!("c05/hdr/lookup-error", "address {:#x}: {:?}", p, e),
        }
        let off = table.pointer_to_offset(Pointer::Direct(row.1)).map_err(|e| Failure { sig: "c05/hdr/pointer_to_offset".into(), detail: format!("{e:?}") })?;
        ensure_eq!(off.0 as u64, row.1.wrapping_sub(eh_base) & m, "c05/hdr/pointer_to_offset-value");
        // exhaustive scan over the model FDEs (disjoint by construction unless empty ranges coincide)
        let covering: Vec<&&ModelFde> = ok.iter().filter(|f| f.initial <= p && p < f.end).collect();
        let got = table.fde_for_address(&eh, &bases, p, |s, b, o| s.cie_from_offset(b, o));
        match (got, covering.first()) {
            (Ok(f), Some(_)) => ensure!(covering.iter().any(|w| w.offset == f.offset()), "c05/hdr/fde_for_address/wrong-fde", "address {:#x}: got FDE at {:#x}", p, f.offset()),
            (Err(gimli::Error::NoUnwindInfoForAddress), None) => {}
            (Ok(f), None) => fail!("c05/hdr/fde_for_address/phantom", "address {:#x} is covered by no FDE; table lookup returns the FDE at {:#x}", p, f.offset()),
            (Err(e), Some(w)) => {
                // a row address shared by several FDEs (empty ranges) can hide a covering FDE behind the de-duplicated row
                if ok.iter().filter(|f| f.initial == w.initial).count() == 1 {
                    fail!("c05/hdr/fde_for_address/missed", "address {:#x} is covered by the FDE at {:#x}; table lookup returns {:?}", p, w.offset, e)
                }
            }
            (Err(e), None) => fail!("c05/hdr/fde_for_address/error", "address {:#x}: {:?}", p, e),
        }
        let mut ctx = UnwindContext::new();
        let got = table.unwind_info_for_address(&eh, &bases, &mut ctx, p, |s, b, o| s.cie_from_offset(b, o)).map(|r| (r.start_address(), r.end_address()));
        match (got, covering.first()) {
            (Ok((st, en)), Some(_)) => ensure!(st <= p && p < en, "c05/hdr/unwind_info_for_address/row", "address {:#x} row [{:#x},{:#x})", p, st, en),
            (Err(gimli::Error::NoUnwindInfoForAddress), None) => {}
            (Ok(r), None) => fail!("c05/hdr/unwind_info_for_address/phantom", "address {:#x}: {:?}", p, r),
            (Err(_), Some(w)) if ok.iter().filter(|f| f.initial == w.initial).count() > 1 => {}
            (Err(e), _) => fail!("c05/hdr/unwind_info_for_address/error", "address {:#x}: {:?}", p, e),
        }
    }
    cx.label(".eh_frame_hdr table checked");
    cx.label(match table_enc & 0x70 {
        0x00 => "hdr-table:absptr",
        0x10 => "hdr-table:pcrel",
        _ => "hdr-table:datarel",
    });
    Ok(())
}

/// All 256 encoding bytes as the FDE address encoding of a one-CIE one-FDE .eh_frame.
fn check_encoding_byte(enc: u8, big: bool, address_size: u8, bases_set: u8) -> R {
    let m = mask(address_size);
    let bases = Bases { eh_frame: if bases_set & 1 != 0 { Some(0x200000 & m) } else { None }, text: if bases_set & 2 != 0 { Some(0x400000 & m) } else { None }, data: if bases_set & 4 != 0 { Some(0x600000 & m) } else { None }, hdr: None };
    let cie = CieSpec { version: 1, format64: false, aug: b"zR".to_vec(), address_size, segment_size: 0, code_align: 1, data_align: -8, ra_reg: 16, lsda_enc: 0, personality: None, fde_enc: enc, instrs: vec![], pad: 0 };
    let fde = FdeSpec { cie: 0, format64: false, initial_raw: 0x1234 & m, range_raw: 0x20, lsda_raw: None, instrs: vec![], pad: 0 };
    let c = FrameCase { eh: true, big, address_size, cies: vec![cie], fdes: vec![fde], order: vec![Entry::Cie(0), Entry::Fde(0)], terminator: true, bases, hdr: None };
    let mut cx = Ctx::new(&[], true, false);
    check_frame(&c, &mut cx)
}

impl Prop for C05 {
    fn id(&self) -> &'static str {
        "C05"
    }
    fn rule(&self) -> &'static str {
        "exhaustive: all 256 DW_EH_PE encoding bytes as the FDE address encoding x byte order x address size 2/4/8 x all 8 subsets of {section, text, data} bases: accept/reject and decoded pointer vs the model; random: .eh_frame / .debug_frame sections of 1-3 CIEs (versions 1/3/4, 32/64-bit, augmentations z + permuted subsets of R,L,P,S, generated pointer encodings for R/L/P incl. indirect, aligned, omit and invalid bytes) and 0-8 FDEs in generated order (FDEs before their CIE, shared and interleaved CIEs), zero terminator, base-address subsets, boundary ranges (0, 1, adjacent). Oracle: the assembler's record + pointer model: every entry at its offset with every encoded field, each FDE bound to the CIE its pointer designates (also through fde_from_offset with a caching get_cie), expected error kinds for unusable encodings; fde_for_address / unwind_info_for_address at and around every FDE boundary = exhaustive scan in section order; .eh_frame_hdr tables (sdata2/udata2/sdata4/udata4/sdata8/udata8 x absptr/datarel/pcrel) built from the model: iter, nth, lookup (last row <= address), pointer_to_offset, fde_for_address, unwind_info_for_address. Non-trivial = >=2 CIEs, >=3 FDEs and a non-absptr FDE encoding; distinct by choice string / enumeration index. Later additions: augmentation data longer than the known fields; the BaseAddresses setters in any order; the std Iterator view of the entries iterator."
    }
    fn assumptions(&self) -> Vec<&'static str> {
        vec![
            "FDE ranges are disjoint by construction (raw deltas increase with the FDE index) except for generated empty ranges",
            "the .eh_frame_hdr table is sorted and consistent with the section (built from the model); tables with an indirect entry encoding are only iterated",
            "DW_EH_PE_aligned is rejected by gimli by design (UnsupportedPointerEncoding expected)",
        ]
    }
    fn max_len(&self) -> usize {
        400
    }
    fn cases(&self, tier: Tier, dev: bool) -> u64 {
        match (tier, dev) {
            (Tier::Quick, false) => 80_000,
            (Tier::Quick, true) => 8_000,
            (Tier::Thorough, false) => 3_000_000,
            (Tier::Thorough, true) => 250_000,
        }
    }
    fn run_case(&self, ch: &mut Choices, cx: &mut Ctx) -> R {
        let c = gen_case(ch);
        cx.sample_with(|| {
            format!(
                "{} {} addr{} bases {:?} hdr {:x?} order {:?} CIEs {:?} FDEs {:?}",
                if c.eh { ".eh_frame" } else { ".debug_frame" },
                if c.big { "BE" } else { "LE" },
                c.address_size,
                c.bases,
                c.hdr,
                c.order,
                c.cies.iter().map(|x| (x.version, x.format64, String::from_utf8_lossy(&x.aug).to_string(), x.fde_enc, x.lsda_enc, x.personality)).collect::<Vec<_>>(),
                c.fdes.iter().map(|f| (f.cie, f.format64, f.initial_raw, f.range_raw)).collect::<Vec<_>>()
            )
        });
        check_frame(&c, cx)
    }
    fn exhaustive(&self, _tier: Tier, _dev: bool, shard: usize, nshards: usize, ex: &mut Exhaust) {
        let mut n = 0u64;
        for enc in 0..=255u8 {
            if enc as usize % nshards != shard {
                continue;
            }
            for big in [false, true] {
                for a in [2u8, 4, 8] {
                    for bs in 0..8u8 {
                        let r = catch("enc-byte", || check_encoding_byte(enc, big, a, bs)).and_then(|r| r);
                        n += 1;
                        if let Err(e) = r {
                            ex.fail("enc-byte", &[enc, big as u8, a, bs], e);
                            if ex.stop {
                                return;
                            }
                        }
                    }
                }
            }
        }
        ex.tally(n, n, "exhaustive-encoding-bytes");
        ex.complete("all 256 pointer-encoding bytes x byte order x address size 2/4/8 x 8 base-address subsets");
        ex.sample("enumerated: FDE address encoding 0x9b (indirect|pcrel|sdata4), LE, address size 4, section base set: pointer = (section base + field offset + sdata4) mod 2^32".to_string());
    }
    fn replay_special(&self, mode: &str, data: &[u8], _cx: &mut Ctx) -> R {
        if mode != "enc-byte" {
            fail!("replay/unknown-mode", "{}", mode);
        }
        check_encoding_byte(data[0], data[1] != 0, data[2], data[3])
    }
}
