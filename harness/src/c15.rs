//! C15 — written expressions decode to the same operations, branches and references.
use crate::c07::default_answer;
use crate::core::*;
use crate::exprvm::{self, MOp};
use crate::wmodel::*;
use crate::{ensure, ensure_eq, fail};
use gimli::write as w;
use gimli::{EndianSlice, RunTimeEndian, UnwindSection};

pub struct C15;

const SIMPLE_OPS: [u8; 34] = [
    0x06, 0x12, 0x13, 0x14, 0x16, 0x17, 0x18, 0x19, 0x1a, 0x1b, 0x1c, 0x1d, 0x1e, 0x1f, 0x20, 0x21, 0x22, 0x24, 0x25, 0x26, 0x27, 0x29, 0x2a, 0x2b, 0x2c, 0x2d, 0x2e, 0x96, 0x97, 0x9b, 0x9c, 0x9f, 0xe0, 0xf0,
];

struct Gen<'a> {
    /// entries of the unit under test that may be referenced
    n_entries: usize,
    n_units: usize,
    counts: &'a [usize],
    addr_mask: u64,
}

fn gen_expr(ch: &mut Choices, g: &Gen, depth: u32, allow_branches: bool) -> Vec<WOp> {
    let n = 1 + ch.below(if depth == 0 { 10 } else { 4 });
    let mut v: Vec<WOp> = Vec::new();
    for _ in 0..n {
        let t = |ch: &mut Choices| ch.below(g.n_entries);
        v.push(match ch.below(40) {
            0 | 1 => WOp::Simple(SIMPLE_OPS[ch.below(SIMPLE_OPS.len())]),
            2 => WOp::Addr(ch.biased(64) & g.addr_mask),
            3 | 4 => WOp::Constu(ch.pick(&[0u64, 1, 30, 31, 32, 33, 127, 128, 16383, 16384, u64::MAX])),
            5 => WOp::Consts(if ch.bool() { ch.sleb_edge() } else { ch.pick(&[0i64, -1, 63, 64, -64, -65, 8191, 8192, i64::MAX, i64::MIN]) }),
            6 => {
                let k = ch.pick(&[0usize, 1, 4, 8, 255]);
                WOp::ConstType(t(ch), ch.bytes(k.min(16)).into_iter().cycle().take(k).collect())
            }
            7 => WOp::Fbreg(if ch.bool() { ch.sleb_edge() } else { ch.biased_signed(64) }),
            8 | 9 => WOp::Breg(ch.pick(&[0u16, 30, 31, 32, 33, 127, 128, 0xffff]), if ch.bool() { ch.sleb_edge() } else { ch.biased_signed(64) }),
            10 => WOp::RegvalType(ch.pick(&[0u16, 31, 32, 200]), t(ch)),
            11 | 12 => WOp::Pick(ch.pick(&[0u8, 1, 2, 3, 255])),
            13 => WOp::Deref,
            14 => WOp::XDeref,
            15 => WOp::DerefSize(ch.u8()),
            16 => WOp::XDerefSize(ch.u8()),
            17 => WOp::DerefType(ch.pick(&[1u8, 4, 8]), t(ch)),
            18 => WOp::XDerefType(ch.pick(&[1u8, 4, 8]), t(ch)),
            19 => WOp::PlusUconst(ch.pick(&[0u64, 127, 128, 1 << 21, u64::MAX])),
            20..=23 => {
                if allow_branches {
                    if ch.bool() {
                        WOp::Skip(usize::MAX)
                    } else {
                        WOp::Bra(usize::MAX)
                    }
                } else {
                    WOp::Simple(0x96)
                }
            }
            24 => WOp::Call(t(ch)),
            25 => {
                let tu = ch.below(g.n_units);
                WOp::CallRef(tu, ch.below(g.counts[tu]))
            }
            26 => {
                let tu = ch.below(g.n_units);
                WOp::VariableValue(tu, ch.below(g.counts[tu]))
            }
            27 => WOp::Convert(if ch.bool() { Some(t(ch)) } else { None }),
            28 => WOp::Reinterpret(if ch.bool() { Some(t(ch)) } else { None }),
            29 | 30 => {
                if depth < 2 {
                    WOp::EntryValue(gen_expr(ch, g, depth + 1, true))
                } else {
                    WOp::Reg(3)
                }
            }
            31 | 32 => WOp::Reg(ch.pick(&[0u16, 30, 31, 32, 33, 127, 128, 0xffff])),
            33 => {
                let k = ch.pick(&[0usize, 1, 127, 128, 129, 300, 40000]);
                WOp::ImplicitValue(vec![0xab; k])
            }
            34 => {
                let tu = ch.below(g.n_units);
                WOp::ImplicitPointer(tu, ch.below(g.counts[tu]), if ch.bool() { ch.sleb_edge() } else { ch.biased_signed(64) })
            }
            35 => WOp::Piece(ch.pick(&[0u64, 1, 127, 128, u64::MAX >> 3])),
            36 => WOp::BitPiece(ch.biased(64), ch.biased(64)),
            37 => WOp::ParameterRef(t(ch)),
            38 => match ch.below(3) {
                0 => WOp::WasmLocal(ch.u32()),
                1 => WOp::WasmGlobal(ch.u32()),
                _ => WOp::WasmStack(ch.u32()),
            },
            _ => WOp::Constu(ch.below(40) as u64),
        });
    }
    // an expression started from raw bytecode (`Expression::raw`) and then extended through the builder
    if ch.chance(24) {
        v[0] = WOp::Raw(SIMPLE_OPS[ch.below(SIMPLE_OPS.len())]);
    }
    // resolve branch targets: any operation index, or the end
    let len = v.len();
    for i in 0..len {
        if let WOp::Skip(t) | WOp::Bra(t) = &mut v[i] {
            let mut target = ch.below(len + 1);
            if target == i {
                target = (i + 1).min(len);
            }
            *t = target;
        }
    }
    v
}

/// Which entries an expression refers to by unit-local id (must have a known offset where the expression is sized).
fn unit_targets(ops: &[WOp], uleb_only: bool, out: &mut Vec<usize>) {
    for op in ops {
        match op {
            WOp::ConstType(t, _) | WOp::RegvalType(_, t) | WOp::DerefType(_, t) | WOp::XDerefType(_, t) => out.push(*t),
            WOp::Convert(Some(t)) | WOp::Reinterpret(Some(t)) => out.push(*t),
            // fixed-size operands: filled in from the offsets computed before anything is written
            WOp::Call(t) | WOp::ParameterRef(t) if !uleb_only => out.push(*t),
            WOp::EntryValue(inner) => unit_targets(inner, uleb_only, out),
            _ => {}
        }
    }
}

fn info_targets(ops: &[WOp], out: &mut Vec<(usize, usize)>) {
    for op in ops {
        match op {
            WOp::CallRef(u, t) | WOp::VariableValue(u, t) | WOp::ImplicitPointer(u, t, _) => out.push((*u, *t)),
            WOp::EntryValue(inner) => info_targets(inner, out),
            _ => {}
        }
    }
}

fn show(ops: &[WOp]) -> String {
    let parts: Vec<String> = ops
        .iter()
        .map(|o| match o {
            WOp::ImplicitValue(b) if b.len() > 8 => format!("ImplicitValue(<{} bytes>)", b.len()),
            WOp::ConstType(t, b) if b.len() > 8 => format!("ConstType({}, <{} bytes>)", t, b.len()),
            WOp::EntryValue(i) => format!("EntryValue({})", show(i)),
            o => format!("{:?}", o),
        })
        .collect();
    format!("[{}]", parts.join(", "))
}

fn big_bytes(ops: &[WOp]) -> usize {
    ops.iter()
        .map(|o| match o {
            WOp::ImplicitValue(b) => b.len(),
            WOp::EntryValue(i) => big_bytes(i),
            _ => 0,
        })
        .sum()
}

fn has_big(ops: &[WOp]) -> bool {
    ops.iter().any(|o| match o {
        WOp::ImplicitValue(b) => b.len() > 30000,
        WOp::EntryValue(i) => has_big(i),
        _ => false,
    })
}

fn has_branch(ops: &[WOp]) -> bool {
    ops.iter().any(|o| match o {
        WOp::Skip(_) | WOp::Bra(_) => true,
        WOp::EntryValue(i) => has_branch(i),
        _ => false,
    })
}

fn nontrivial(ops: &[WOp]) -> bool {
    let mut ut = Vec::new();
    let mut it = Vec::new();
    unit_targets(ops, false, &mut ut);
    info_targets(ops, &mut it);
    if !ut.is_empty() || !it.is_empty() {
        return true;
    }
    // a branch whose span contains a variable-length operation
    for (i, op) in ops.iter().enumerate() {
        if let WOp::Skip(t) | WOp::Bra(t) = op {
            let (a, b) = if *t > i { (i + 1, *t) } else { (*t, i) };
            if ops[a.min(ops.len())..b.min(ops.len())].iter().any(|o| matches!(o, WOp::Constu(_) | WOp::Consts(_) | WOp::Breg(..) | WOp::Fbreg(_) | WOp::PlusUconst(_) | WOp::ImplicitValue(_) | WOp::EntryValue(_) | WOp::Reg(_) | WOp::Piece(_) | WOp::BitPiece(..))) {
                return true;
            }
        }
    }
    false
}

/// Semantic clause: the emitted bytes evaluate like the operations as built (canonical encoding by the harness).
fn check_semantics(bytes: &[u8], ops: &[WOp], ui: usize, u: &WUnit, big: bool, pos: &Positions) -> R {
    let cfg = u.cfg(big);
    let Some(mut mops) = expected_mops(ops, ui, u, pos) else { return Ok(()) };
    // nested entry values: encode recursively
    fn fill_nested(ops: &[WOp], mops: &mut [MOp], ui: usize, u: &WUnit, big: bool, pos: &Positions) {
        for (i, op) in ops.iter().enumerate() {
            if let WOp::EntryValue(inner) = op {
                if let Some(mut im) = expected_mops(inner, ui, u, pos) {
                    fill_nested(inner, &mut im, ui, u, big, pos);
                    let b = encode_with_branches(inner, &im, &u.cfg(big));
                    mops[i] = MOp::EntryValue(b, u.version < 5);
                }
            }
        }
    }
    fn encode_with_branches(ops: &[WOp], mops: &[MOp], cfg: &crate::enc::Cfg) -> Vec<u8> {
        let mut offs = Vec::new();
        let mut o = 0usize;
        for m in mops {
            offs.push(o);
            o += exprvm::op_len(m, cfg);
        }
        offs.push(o);
        let mut out = mops.to_vec();
        for (i, op) in ops.iter().enumerate() {
            if let WOp::Skip(t) | WOp::Bra(t) = op {
                let d = offs[(*t).min(ops.len())] as i64 - (offs[i] + 3) as i64;
                out[i] = if matches!(op, WOp::Skip(_)) { MOp::Skip(d as i16) } else { MOp::Bra(d as i16) };
            }
        }
        exprvm::encode(&out, cfg)
    }
    fill_nested(ops, &mut mops, ui, u, big, pos);
    let mine = encode_with_branches(ops, &mops, &cfg);
    let run = |code: &[u8]| {
        let mut f = |r: &exprvm::Req| default_answer(r);
        let mut env = exprvm::Env { cfg, object_address: Some(0x1234), initial_value: Some(7), answer: &mut f, fuel: 400 };
        exprvm::run(code, &mut env)
    };
    let a = run(bytes);
    let b = run(&mine);
    // requests carry section offsets / nested bytes: identical by construction if decoding agreed
    ensure_eq!(format!("{:?}", a.end), format!("{:?}", b.end), "c15/semantics/result", "emitted {:02x?} vs canonical {:02x?} for {:?}", &bytes[..bytes.len().min(64)], &mine[..mine.len().min(64)], ops);
    ensure_eq!(a.exchanges.len(), b.exchanges.len(), "c15/semantics/requests");
    Ok(())
}

fn check_die_or_list(ch: &mut Choices, cx: &mut Ctx) -> R {
    let big = ch.bool();
    let nunits = 1 + ch.below(2);
    let mut counts: Vec<usize> = (0..nunits).map(|_| 3 + ch.below(8)).collect();
    // the unit that carries the expression: the first, or the second behind a first unit large enough that unit offsets and
    // section offsets of its entries need different numbers of LEB128 bytes
    let ui = if nunits == 2 && ch.chance(100) { 1usize } else { 0 };
    if ui == 1 {
        counts[ui] += 20 + ch.below(16);
    }
    let mut units: Vec<WUnit> = Vec::new();
    for uj in 0..nunits {
        let version = ch.pick(&[4u16, 5, 3, 2, 5]);
        let n = counts[uj];
        let mut entries = vec![WEntry { parent: 0, tag: 0x11, sibling: false, attrs: vec![], reserved_early: false, never_added: false }];
        for i in 1..n {
            let parent = if ch.chance(170) { 0 } else { ch.below(i) };
            entries.push(WEntry { parent, tag: ch.pick(&[0x24u16, 0x34, 0x2e, 0x24, 0x05]), sibling: ch.chance(60), attrs: vec![], reserved_early: false, never_added: false });
        }
        units.push(WUnit { version, format64: ch.chance(64), address_size: ch.pick(&[8u8, 4]), entries, ranges: vec![], locs: vec![], files: None });
    }
    let g = Gen { n_entries: counts[ui], n_units: nunits, counts: &counts, addr_mask: crate::enc::mask(units[ui].address_size) };
    let ops = gen_expr(ch, &g, 0, true);
    if ui == 1 {
        cx.label("expression in the second unit");
    }
    let in_list = ch.chance(100);
    let referrer = 1 + ch.below(counts[ui] - 1);
    let mut expect = Expect::Ok;
    if in_list {
        // a location list: offsets of all entries are known when it is written
        let v = units[ui].version;
        let has_base = ch.bool();
        if has_base {
            units[ui].entries[0].attrs.push((0x11, WVal::Address(0x4000)));
        }
        let loc = if v >= 5 || has_base { WLoc::OffsetPair(0x10, 0x20, ops.clone()) } else { WLoc::StartEnd(0x10, 0x20, ops.clone()) };
        units[ui].locs.push(vec![loc]);
        units[ui].entries[referrer].attrs.push((0x02, WVal::LocationListRef(0)));
        cx.label("placement:location-list");
    } else {
        units[ui].entries[referrer].attrs.push((0x02, WVal::Exprloc(ops.clone())));
        // unit-local references must already have an offset where the attribute is sized
        let order: Vec<usize> = units[ui].preorder().iter().map(|x| x.0).collect();
        let p = |e: usize| order.iter().position(|x| *x == e).unwrap();
        let mut ut = Vec::new();
        unit_targets(&ops, true, &mut ut);
        if ut.iter().any(|t| p(*t) > p(referrer)) {
            expect = Expect::MustFail("expression operand refers to an entry that is written after the expression");
            cx.label("negative: forward unit reference in a DIE expression");
        }
        cx.label("placement:die-attribute");
    }
    if expect == Expect::Ok && has_branch(&ops) && has_big(&ops) {
        expect = Expect::MayFail("branch displacement may exceed 16 bits");
    }
    // call4 / parameter_ref operands are 4 bytes; lengths of const_type are 1 byte
    if ops.iter().any(|o| matches!(o, WOp::ConstType(_, b) if b.len() > 255)) {
        expect = Expect::MayFail("typed constant longer than 255 bytes");
    }
    if in_list && units[ui].version < 5 && big_bytes(&ops) > 60000 {
        expect = Expect::MayFail("expression longer than the 16-bit length of a pre-v5 location list entry");
    }
    if nontrivial(&ops) {
        cx.nt();
    }
    let m = WDwarf { big, units, dummies: Vec::new() };
    cx.sample_with(|| format!("{} v{} {} expression {} on entry {} of the expression unit ({} entries, {} units) expect {:?}", if in_list { "location list" } else { "DIE attribute" }, m.units[ui].version, if m.units[ui].format64 { "dwarf64" } else { "dwarf32" }, show(&ops), referrer, counts[ui], nunits, expect));
    check_written(&m, &expect, cx, "c15")?;
    // semantic clause, when it was written
    if expect == Expect::Ok {
        let mut built = build(&m);
        if let Ok(ws) = write_sections(&mut built, m.big) {
            let dwarf = load(&ws, m.big);
            // positions
            let mut pos: Positions = Positions::new();
            let mut it = dwarf.units();
            let mut uidx = 0;
            while let Ok(Some(h)) = it.next() {
                if let Ok(unit) = dwarf.unit(h) {
                    let mut cur = unit.entries();
                    while let Ok(Some(e)) = cur.next_dfs() {
                        if let Some(mk) = e.attr_value(gimli::DwAt(AT_MARKER)).and_then(|v| v.udata_value()) {
                            pos.insert(mk, (uidx, e.offset().0, h.offset().0 + e.offset().0));
                        }
                    }
                }
                uidx += 1;
            }
            // find the emitted bytes again
            let h = { let mut it = dwarf.units(); let mut h = None; for _ in 0..=ui { h = it.next().ok().flatten(); } h };
            if let Some(h) = h {
                if let Ok(unit) = dwarf.unit(h) {
                    let mut cur = unit.entries();
                    while let Ok(Some(e)) = cur.next_dfs() {
                        if e.attr_value(gimli::DwAt(AT_MARKER)).and_then(|v| v.udata_value()) == Some(marker_of(ui, referrer)) {
                            if let Some(v) = e.attr_value(gimli::DW_AT_location) {
                                if let Some(ex) = v.exprloc_value() {
                                    check_semantics(ex.0.slice(), &ops, ui, &m.units[ui], m.big, &pos)?;
                                } else if let Ok(Some(mut ll)) = dwarf.attr_locations(&unit, v) {
                                    if let Ok(Some(l)) = ll.next() {
                                        check_semantics(l.data.0.slice(), &ops, ui, &m.units[ui], m.big, &pos)?;
                                    }
                                }
                            }
                        }
                    }
                }
            }
        }
    }
    Ok(())
}

fn check_cfi(ch: &mut Choices, cx: &mut Ctx) -> R {
    cx.label("placement:cfi-expression");
    let big = ch.bool();
    let counts = [4usize];
    let enc = gimli::Encoding { format: if ch.chance(64) { gimli::Format::Dwarf64 } else { gimli::Format::Dwarf32 }, version: 4, address_size: ch.pick(&[8u8, 4]) };
    let g = Gen { n_entries: 4, n_units: 1, counts: &counts, addr_mask: crate::enc::mask(enc.address_size) };
    let ops = gen_expr(ch, &g, 0, true);
    let mut ut = Vec::new();
    let mut it = Vec::new();
    unit_targets(&ops, false, &mut ut);
    info_targets(&ops, &mut it);
    let must_fail = !ut.is_empty() || !it.is_empty();
    // ids for the builder: a throw-away unit provides valid ids
    let wu = WUnit { version: 4, format64: enc.format == gimli::Format::Dwarf64, address_size: enc.address_size, entries: (0..4).map(|i| WEntry { parent: 0, tag: if i == 0 { 0x11 } else { 0x24 }, sibling: false, attrs: vec![], reserved_early: false, never_added: false }).collect(), ranges: vec![], locs: vec![], files: None };
    let m = WDwarf { big, units: vec![wu], dummies: Vec::new() };
    let built = build(&m);
    let expr = build_expr(&ops, 0, &built.unit_ids, &built.entry_ids);
    let mut table = w::FrameTable::default();
    let cie = table.add_cie(w::CommonInformationEntry::new(enc, 1, -8, gimli::Register(16)));
    let mut fde = w::FrameDescriptionEntry::new(w::Address::Constant(0x1000), 0x100);
    fde.add_instruction(0, w::CallFrameInstruction::CfaExpression(expr));
    table.add_fde(cie, fde);
    let endian = if big { RunTimeEndian::Big } else { RunTimeEndian::Little };
    let mut out = w::DebugFrame::from(w::EndianVec::new(endian));
    cx.sample_with(|| format!("CFI expression {} ({:?})", show(&ops), enc));
    match table.write_debug_frame(&mut out) {
        Err(e) => {
            let may = has_branch(&ops) && has_big(&ops) || ops.iter().any(|o| matches!(o, WOp::ConstType(_, b) if b.len() > 255));
            ensure!(must_fail || may, "c15/cfi/refused", "{:?} for {:?}", e, ops);
            Ok(())
        }
        Ok(()) => {
            ensure!(!must_fail, "c15/cfi/accepted-reference", "an expression with entry references was written into a frame table (no entry offsets exist there): {:?}", ops);
            let bytes = out.0.into_vec();
            let mut sec = gimli::DebugFrame::new(&bytes, endian);
            sec.set_address_size(enc.address_size);
            let bases = gimli::BaseAddresses::default();
            let mut entries = sec.entries(&bases);
            let mut found = false;
            while let Some(e) = entries.next().map_err(|e| Failure { sig: "c15/cfi/readback".into(), detail: format!("{e:?}") })? {
                if let gimli::CieOrFde::Fde(p) = e {
                    let fde = p.parse(|s, b, o| s.cie_from_offset(b, o)).map_err(|e| Failure { sig: "c15/cfi/readback-fde".into(), detail: format!("{e:?}") })?;
                    let mut ii = fde.instructions(&sec, &bases);
                    while let Some(i) = ii.next().map_err(|e| Failure { sig: "c15/cfi/instructions".into(), detail: format!("{:?} for {:?}", e, ops) })? {
                        if let gimli::CallFrameInstruction::DefCfaExpression { expression } = i {
                            let ex = expression.get(&sec).map_err(|e| Failure { sig: "c15/cfi/expression".into(), detail: format!("{e:?}") })?;
                            check_expr_bytes(ex.0.slice(), &ops, 0, &m.units[0], big, &Positions::new(), "c15")?;
                            found = true;
                        }
                    }
                }
            }
            ensure!(found, "c15/cfi/expression-missing", "");
            if nontrivial(&ops) {
                cx.nt();
            }
            Ok(())
        }
    }
}

impl Prop for C15 {
    fn id(&self) -> &'static str {
        "C15"
    }
    fn rule(&self) -> &'static str {
        "generated expressions of 1-10 operations (nested entry values to depth 2) over every write::Expression builder: 34 operand-free opcodes, op_addr, constants around 31/32 and the LEB128 size steps, registers 30..33/127/128/65535, pick 0/1/2/3/255, deref variants, typed operations referring to entries, op_skip/op_bra with set_target forward/backward/to the end, op_call, op_call_ref/op_variable_value/op_implicit_pointer with in-unit and cross-unit targets before and after the referring entry, implicit values of 0..40000 bytes, pieces, wasm locations; versions 2-5 (DW_OP vs DW_OP_GNU opcodes, v2 reference sizes) x 32/64-bit x address size 4/8 x byte order; placed in a DIE attribute, in a location list (pre-v5 and v5) and in a CFI expression. Oracle: (1) the emitted bytes decode (gimli's operation iterator, itself checked in C07) to the built operations up to the documented equivalent encodings, every branch lands on the byte offset of the intended operation, every entry reference resolves through the read-back forest to the intended identity marker; (2) the container's length prefix is consistent (the enclosing forest/list/CFI parses back intact) and the writer's size-prediction assertions hold (dev profile); (3) the emitted bytes and the harness's own canonical encoding of the built list evaluate to the same result on the harness's stack machine. Unresolvable forward references and references in CFI must be refused. Non-trivial = an entry reference, or a branch spanning a variable-length operation; distinct by choice string. Later additions: the expression in the second unit, behind a first unit large enough that unit offsets and section offsets differ in LEB128 length."
    }
    fn assumptions(&self) -> Vec<&'static str> {
        vec![
            "every op_skip/op_bra gets a target via set_target (leaving it unset is an API misuse)",
            "a branch displacement beyond 16 bits or a typed constant longer than 255 bytes may be refused",
        ]
    }
    fn max_len(&self) -> usize {
        500
    }
    fn cases(&self, tier: Tier, dev: bool) -> u64 {
        match (tier, dev) {
            (Tier::Quick, false) => 60_000,
            (Tier::Quick, true) => 8_000,
            (Tier::Thorough, false) => 2_500_000,
            (Tier::Thorough, true) => 250_000,
        }
    }
    fn run_case(&self, ch: &mut Choices, cx: &mut Ctx) -> R {
        if ch.chance(40) {
            check_cfi(ch, cx)
        } else {
            check_die_or_list(ch, cx)
        }
    }
}
