//! C16 — written range and location lists read back as the same lists.
use crate::c11::{gen_simple_expr, gen_valid_locs, gen_valid_ranges};
use crate::core::*;
use crate::enc::mask;
use crate::wmodel::*;
use crate::{ensure, ensure_eq, fail};
use gimli::write as w;

pub struct C16;

#[derive(Clone, Copy, PartialEq, Debug)]
enum Verdict {
    Ok,
    May(&'static str),
    Must(&'static str),
}

impl Verdict {
    fn worse(self, o: Verdict) -> Verdict {
        match (self, o) {
            (Verdict::Must(a), _) => Verdict::Must(a),
            (_, Verdict::Must(b)) => Verdict::Must(b),
            (Verdict::May(a), _) => Verdict::May(a),
            (_, Verdict::May(b)) => Verdict::May(b),
            _ => Verdict::Ok,
        }
    }
}

/// One entry reduced to what matters for representability.
#[derive(Clone, Copy)]
enum Shape {
    Base(u64),
    Offsets(u64, u64),
    Addrs(u64, u64),
    AddrLen(u64, u64),
    Default,
}

/// Can this list be represented unambiguously in the unit's encoding?
/// `unit_base`: None = no DW_AT_low_pc on the root, Some(0) = present but zero.
fn verdict(list: &[Shape], version: u16, a: u8, unit_base: Option<u64>) -> Verdict {
    let m = mask(a);
    let mut v = Verdict::Ok;
    if version >= 5 {
        for s in list {
            match *s {
                Shape::Base(x) if x > m => v = v.worse(Verdict::Must("base address wider than the address size")),
                Shape::Addrs(b, e) if b > m || e > m => v = v.worse(Verdict::Must("address wider than the address size")),
                Shape::AddrLen(b, _) if b > m => v = v.worse(Verdict::Must("address wider than the address size")),
                _ => {}
            }
        }
        return v;
    }
    // .debug_ranges / .debug_loc: pairs of address-sized words; (0,0) ends the list, (all-ones, x) selects a base
    let mut have = matches!(unit_base, Some(b) if b != 0);
    for s in list {
        match *s {
            Shape::Base(x) => {
                if x > m {
                    v = v.worse(Verdict::Must("base address wider than the address size"));
                }
                have = true;
            }
            Shape::Offsets(b, e) => {
                if !have {
                    // with a zero unit base the pair would read back correctly; refusing is allowed
                    v = v.worse(if unit_base == Some(0) { Verdict::May("offset pair with a zero unit base") } else { Verdict::Must("offset pair without a base address") });
                }
                if b == e {
                    v = v.worse(Verdict::Must("empty range (reads as a terminator or vanishes)"));
                }
                if b > m || e > m {
                    v = v.worse(Verdict::Must("offset wider than the address size"));
                }
                if b == m {
                    v = v.worse(Verdict::Must("offset pair whose begin is the base-selection marker"));
                }
            }
            Shape::Addrs(b, e) => {
                if have {
                    v = v.worse(Verdict::Must("address pair in a list that has a base address"));
                }
                if b == e {
                    v = v.worse(Verdict::Must("empty range"));
                }
                if b > m || e > m {
                    v = v.worse(Verdict::Must("address wider than the address size"));
                }
                if b == m {
                    v = v.worse(Verdict::Must("address pair whose begin is the base-selection marker"));
                }
            }
            Shape::AddrLen(b, l) => {
                if have {
                    v = v.worse(Verdict::Must("address pair in a list that has a base address"));
                }
                if l == 0 {
                    v = v.worse(Verdict::Must("empty range"));
                }
                match b.checked_add(l) {
                    Some(e) if b <= m && e <= m => {}
                    _ => v = v.worse(Verdict::Must("begin + length does not fit the address size")),
                }
                if b == m {
                    v = v.worse(Verdict::Must("address pair whose begin is the base-selection marker"));
                }
            }
            Shape::Default => v = v.worse(Verdict::Must("default location before DWARF 5")),
        }
    }
    v
}

fn shapes_r(l: &[WRange]) -> Vec<Shape> {
    l.iter()
        .map(|r| match *r {
            WRange::BaseAddress(a) => Shape::Base(a),
            WRange::OffsetPair(b, e) => Shape::Offsets(b, e),
            WRange::StartEnd(b, e) => Shape::Addrs(b, e),
            WRange::StartLength(b, l) => Shape::AddrLen(b, l),
        })
        .collect()
}

fn shapes_l(l: &[WLoc]) -> Vec<Shape> {
    l.iter()
        .map(|r| match r {
            WLoc::BaseAddress(a) => Shape::Base(*a),
            WLoc::OffsetPair(b, e, _) => Shape::Offsets(*b, *e),
            WLoc::StartEnd(b, e, _) => Shape::Addrs(*b, *e),
            WLoc::StartLength(b, l, _) => Shape::AddrLen(*b, *l),
            WLoc::DefaultLocation(_) => Shape::Default,
        })
        .collect()
}

fn boundary_addr(ch: &mut Choices, a: u8) -> u64 {
    let m = mask(a);
    match ch.below(12) {
        0 => 0,
        1 => 1,
        2 => m,
        3 => m - 1,
        4 => m - 2,
        5 => m.wrapping_add(1),
        6 => u64::MAX,
        7 => m / 2 + 1,
        _ => 0x1000 + ch.below(0x100) as u64 * 8,
    }
}

fn boundary_len(ch: &mut Choices, a: u8) -> u64 {
    let m = mask(a);
    match ch.below(10) {
        0 => 0,
        1 => 1,
        2 => m,
        3 => u64::MAX,
        4 => m - 0x1000,
        _ => 1 + ch.below(0x80) as u64,
    }
}

fn gen_boundary_ranges(ch: &mut Choices, a: u8) -> Vec<WRange> {
    let n = 1 + ch.below(4);
    (0..n)
        .map(|_| match ch.below(4) {
            0 => WRange::BaseAddress(boundary_addr(ch, a)),
            1 => {
                let b = boundary_addr(ch, a);
                let e = if ch.chance(40) { b } else { b.wrapping_add(boundary_len(ch, a)) };
                WRange::OffsetPair(b, e)
            }
            2 => {
                let b = boundary_addr(ch, a);
                let e = if ch.chance(40) { b } else { b.wrapping_add(boundary_len(ch, a)) };
                WRange::StartEnd(b, e)
            }
            _ => WRange::StartLength(boundary_addr(ch, a), boundary_len(ch, a)),
        })
        .collect()
}

/// Addresses inside expressions cut to the unit's address size (a wider one is a different, legitimate refusal).
fn fit_addresses(ops: Vec<WOp>, a: u8) -> Vec<WOp> {
    let m = mask(a);
    ops.into_iter()
        .map(|o| match o {
            WOp::Addr(x) => WOp::Addr(x & m),
            WOp::EntryValue(inner) => WOp::EntryValue(fit_addresses(inner, a)),
            o => o,
        })
        .collect()
}

fn gen_loc_expr(ch: &mut Choices, nentries: usize, nunits: usize, counts: &[usize]) -> Vec<WOp> {
    if ch.chance(20) {
        // the empty description: no location in this range (still an entry: a default location must not apply there)
        return Vec::new();
    }
    let mut v = gen_simple_expr(ch, 1);
    if ch.chance(80) {
        // entry references: every entry offset is known when the lists are written
        let at = ch.below(v.len() + 1);
        let op = match ch.below(4) {
            0 => WOp::ConstType(ch.below(nentries), vec![1, 2, 3, 4]),
            1 => WOp::Call(ch.below(nentries)),
            2 => {
                let u = ch.below(nunits);
                WOp::CallRef(u, ch.below(counts[u]))
            }
            _ => WOp::RegvalType(3, ch.below(nentries)),
        };
        v.insert(at, op);
    }
    v
}

const LOC_NAMES: [u16; 6] = [0x02, 0x40, 0x38, 0x2a, 0x48, 0x19];

/// Count the lists physically present in the emitted list sections.
fn count_lists(data: &[u8], v5: bool, loc: bool, big: bool, a: u8) -> Result<usize, String> {
    let rd = |p: usize, n: usize| -> Result<u64, String> {
        let s = data.get(p..p + n).ok_or_else(|| format!("truncated at {:#x}", p))?;
        let mut v = 0u64;
        if big {
            for b in s {
                v = v << 8 | *b as u64;
            }
        } else {
            for b in s.iter().rev() {
                v = v << 8 | *b as u64;
            }
        }
        Ok(v)
    };
    let uleb = |p: &mut usize| -> Result<u64, String> {
        let mut v = 0u64;
        let mut sh = 0;
        loop {
            let b = *data.get(*p).ok_or("truncated uleb")?;
            *p += 1;
            if sh < 64 {
                v |= ((b & 0x7f) as u64) << sh;
            }
            sh += 7;
            if b & 0x80 == 0 {
                return Ok(v);
            }
        }
    };
    let a = a as usize;
    let mut p = 0usize;
    let mut n = 0usize;
    if !v5 {
        let m = mask(a as u8);
        while p < data.len() {
            let b = rd(p, a)?;
            let e = rd(p + a, a)?;
            p += 2 * a;
            if b == 0 && e == 0 {
                n += 1;
            } else if b == m {
            } else if loc {
                let l = rd(p, 2)? as usize;
                p += 2 + l;
            }
        }
        return Ok(n);
    }
    while p < data.len() {
        // table header
        let mut len = rd(p, 4)?;
        let mut hp = p + 4;
        let mut word = 4;
        if len == 0xffff_ffff {
            len = rd(p + 4, 8)?;
            hp = p + 12;
            word = 8;
        }
        let _ = word;
        let end = hp + len as usize;
        let mut q = hp + 8;
        let asz = rd(hp + 2, 1)? as usize;
        while q < end {
            let kind = rd(q, 1)?;
            q += 1;
            let mut data_follows = false;
            match kind {
                0 => {
                    n += 1;
                }
                1 => {
                    uleb(&mut q)?;
                }
                2 | 3 => {
                    uleb(&mut q)?;
                    uleb(&mut q)?;
                    data_follows = true;
                }
                4 => {
                    uleb(&mut q)?;
                    uleb(&mut q)?;
                    data_follows = true;
                }
                5 => {
                    // DW_RLE_base_address / DW_LLE_default_location
                    if loc {
                        data_follows = true;
                    } else {
                        q += asz;
                    }
                }
                6 => {
                    // DW_RLE_start_end / DW_LLE_base_address
                    if loc {
                        q += asz;
                    } else {
                        q += 2 * asz;
                    }
                }
                7 => {
                    // DW_RLE_start_length / DW_LLE_start_end
                    if loc {
                        q += 2 * asz;
                        data_follows = true;
                    } else {
                        q += asz;
                        uleb(&mut q)?;
                    }
                }
                8 if loc => {
                    q += asz;
                    uleb(&mut q)?;
                    data_follows = true;
                }
                k => return Err(format!("unknown list entry kind {:#x} at {:#x}", k, q - 1)),
            }
            if loc && data_follows {
                let l = uleb(&mut q)? as usize;
                q += l;
            }
        }
        if q != end {
            return Err(format!("list table overruns its length: {:#x} vs {:#x}", q, end));
        }
        p = end;
    }
    Ok(n)
}

fn distinct<T: PartialEq>(v: &[T]) -> usize {
    let mut n = 0;
    for (i, x) in v.iter().enumerate() {
        if !v[..i].contains(x) {
            n += 1;
        }
    }
    n
}

fn check(ch: &mut Choices, cx: &mut Ctx) -> R {
    let big = ch.bool();
    let nunits = 1 + ch.below(2);
    let mut plan: Vec<(usize, usize)> = Vec::new();
    for _ in 0..nunits {
        plan.push((1 + ch.below(4), ch.below(4)));
    }
    let counts: Vec<usize> = plan.iter().map(|p| 1 + p.0 + p.1).collect();
    let mut units = Vec::new();
    let mut overall = Verdict::Ok;
    let mut nt = false;
    for ui in 0..nunits {
        let version = ch.pick(&[4u16, 5, 3, 2, 5, 4]);
        // (two-byte addresses too: the base-selection marker of the older list sections is all ones at that width)
        let a = ch.pick(&[8u8, 4, 8, 4, 2]);
        let format64 = ch.chance(64);
        let unit_base = match ch.below(3) {
            0 => None,
            1 => Some(0u64),
            _ if a == 2 => Some(0x1000 + ch.below(16) as u64 * 0x100),
            _ => Some(0x1_0000 + ch.below(16) as u64 * 0x1000),
        };
        let (nr, nl) = plan[ui];
        let mut entries = vec![WEntry { parent: 0, tag: 0x11, sibling: false, attrs: vec![], reserved_early: false, never_added: false }];
        if let Some(b) = unit_base {
            entries[0].attrs.push((0x11, WVal::Address(b)));
        }
        let has_base = matches!(unit_base, Some(b) if b != 0);
        let mut ranges: Vec<Vec<WRange>> = Vec::new();
        for _ in 0..nr {
            let l = if !ranges.is_empty() && ch.chance(70) {
                ranges[ch.below(ranges.len())].clone()
            } else if ch.chance(150) {
                gen_valid_ranges(ch, version, has_base, a)
            } else {
                gen_boundary_ranges(ch, a)
            };
            ranges.push(l);
        }
        let mut locs: Vec<Vec<WLoc>> = Vec::new();
        for _ in 0..nl {
            let l: Vec<WLoc> = if !locs.is_empty() && ch.chance(70) {
                locs[ch.below(locs.len())].clone()
            } else if ch.chance(150) {
                let mut l = gen_valid_locs(ch, version, has_base, a);
                for e in l.iter_mut() {
                    if let WLoc::OffsetPair(_, _, d) | WLoc::StartEnd(_, _, d) | WLoc::StartLength(_, _, d) | WLoc::DefaultLocation(d) = e {
                        *d = gen_loc_expr(ch, counts[ui], nunits, &counts);
                    }
                }
                l
            } else {
                let mut l: Vec<WLoc> = gen_boundary_ranges(ch, a)
                    .into_iter()
                    .map(|r| match r {
                        WRange::BaseAddress(x) => WLoc::BaseAddress(x),
                        WRange::OffsetPair(b, e) => WLoc::OffsetPair(b, e, gen_simple_expr(ch, 1)),
                        WRange::StartEnd(b, e) => WLoc::StartEnd(b, e, gen_simple_expr(ch, 1)),
                        WRange::StartLength(b, l) => WLoc::StartLength(b, l, gen_simple_expr(ch, 1)),
                    })
                    .collect();
                if ch.chance(50) {
                    let at = ch.below(l.len() + 1);
                    l.insert(at, WLoc::DefaultLocation(gen_simple_expr(ch, 1)));
                }
                l
            };
            let l: Vec<WLoc> = l
                .into_iter()
                .map(|e| match e {
                    WLoc::OffsetPair(b, e, d) => WLoc::OffsetPair(b, e, fit_addresses(d, a)),
                    WLoc::StartEnd(b, e, d) => WLoc::StartEnd(b, e, fit_addresses(d, a)),
                    WLoc::StartLength(b, l, d) => WLoc::StartLength(b, l, fit_addresses(d, a)),
                    WLoc::DefaultLocation(d) => WLoc::DefaultLocation(fit_addresses(d, a)),
                    e => e,
                })
                .collect();
            locs.push(l);
        }
        for (i, l) in ranges.iter().enumerate() {
            overall = overall.worse(verdict(&shapes_r(l), version, a, unit_base));
            entries.push(WEntry { parent: 0, tag: 0x2e, sibling: false, attrs: vec![(0x55, WVal::RangeListRef(i))], reserved_early: false, never_added: false });
            if l.windows(2).any(|w| matches!((&w[0], &w[1]), (WRange::BaseAddress(_), WRange::OffsetPair(..)))) && nr + nl >= 2 {
                nt = true;
            }
        }
        // an expression whose encoding needs more than the 2-byte length field of .debug_loc (versions 2-4):
        // 1 opcode + 3 length bytes + k value bytes = 65535 (fits) / 65536 / more (must be refused before version 5)
        if !locs.is_empty() && ch.chance(5) {
            let k = ch.pick(&[65531usize, 65532, 65532, 70000]);
            let li = ch.below(locs.len());
            let mut placed = false;
            for e in locs[li].iter_mut() {
                if let WLoc::OffsetPair(_, _, d) | WLoc::StartEnd(_, _, d) | WLoc::StartLength(_, _, d) | WLoc::DefaultLocation(d) = e {
                    *d = vec![WOp::ImplicitValue(vec![0xab; k])];
                    placed = true;
                    break;
                }
            }
            if placed {
                cx.label("location expression around 65535 bytes");
                if version < 5 && k > 65531 {
                    overall = overall.worse(Verdict::Must("location expression longer than 65535 bytes in .debug_loc"));
                }
            }
        }
        for (i, l) in locs.iter().enumerate() {
            overall = overall.worse(verdict(&shapes_l(l), version, a, unit_base));
            entries.push(WEntry { parent: 0, tag: 0x34, sibling: false, attrs: vec![(LOC_NAMES[ch.below(LOC_NAMES.len())], WVal::LocationListRef(i))], reserved_early: false, never_added: false });
            if l.windows(2).any(|w| matches!((&w[0], &w[1]), (WLoc::BaseAddress(_), WLoc::OffsetPair(..)))) && nr + nl >= 2 {
                nt = true;
            }
        }
        debug_assert_eq!(entries.len(), counts[ui]);
        units.push(WUnit { version, format64, address_size: a, entries, ranges, locs, files: None });
    }
    let expect = match overall {
        Verdict::Ok => Expect::Ok,
        Verdict::May(w) => Expect::MayFail(w),
        Verdict::Must(w) => Expect::MustFail(w),
    };
    match overall {
        Verdict::Must(w) => {
            cx.label("negative case");
            cx.label(w);
            nt = true;
        }
        Verdict::May(_) => cx.label("may be refused"),
        Verdict::Ok => cx.label("representable"),
    }
    if nt {
        cx.nt();
    }
    let m = WDwarf { big, units, dummies: Vec::new() };
    cx.sample_with(|| format!("{} expect {:?}: {}", if big { "BE" } else { "LE" }, expect, m.units.iter().map(|u| format!("[v{} {} addr{} low_pc {:?} ranges {:x?} locs {:x?}]", u.version, if u.format64 { "dwarf64" } else { "dwarf32" }, u.address_size, u.low_pc(), u.ranges, u.locs.iter().map(|l| shapes_dbg(l)).collect::<Vec<_>>())).collect::<Vec<_>>().join(" ")));
    // identifiers: equal lists share one id
    {
        let u0 = &m.units[0];
        let mut unit = w::Unit::new(u0.encoding(), w::LineProgram::none());
        let mk = |l: &Vec<WRange>| {
            w::RangeList(
                l.iter()
                    .map(|r| match *r {
                        WRange::BaseAddress(a) => w::Range::BaseAddress { address: w::Address::Constant(a) },
                        WRange::OffsetPair(b, e) => w::Range::OffsetPair { begin: b, end: e },
                        WRange::StartEnd(b, e) => w::Range::StartEnd { begin: w::Address::Constant(b), end: w::Address::Constant(e) },
                        WRange::StartLength(b, l) => w::Range::StartLength { begin: w::Address::Constant(b), length: l },
                    })
                    .collect(),
            )
        };
        let ids: Vec<_> = u0.ranges.iter().map(|l| unit.ranges.add(mk(l))).collect();
        for i in 0..ids.len() {
            for j in 0..i {
                ensure_eq!(ids[i] == ids[j], u0.ranges[i] == u0.ranges[j], "c16/dedup/ids", "lists {} and {}: {:x?} vs {:x?}", j, i, u0.ranges[j], u0.ranges[i]);
            }
            ensure_eq!(unit.ranges.get(ids[i]), &mk(&u0.ranges[i]), "c16/dedup/get", "list {}", i);
        }
    }
    check_written(&m, &expect, cx, "c16")?;
    // one emitted copy per distinct list; raw entries as requested
    let mut built = build(&m);
    if let Ok(ws) = write_sections(&mut built, big) {
        let empty = Vec::new();
        let sec = |n: &str| ws.map.get(n).unwrap_or(&empty);
        // all units of a case may differ in address size: count per encoding family only when uniform
        let a0 = m.units[0].address_size;
        if m.units.iter().all(|u| u.address_size == a0) {
            let want_r_old: usize = m.units.iter().filter(|u| u.version < 5).map(|u| distinct(&u.ranges)).sum();
            let want_r_new: usize = m.units.iter().filter(|u| u.version >= 5).map(|u| distinct(&u.ranges)).sum();
            let want_l_old: usize = m.units.iter().filter(|u| u.version < 5).map(|u| distinct(&u.locs)).sum();
            let want_l_new: usize = m.units.iter().filter(|u| u.version >= 5).map(|u| distinct(&u.locs)).sum();
            for (name, v5, loc, want) in [(".debug_ranges", false, false, want_r_old), (".debug_rnglists", true, false, want_r_new), (".debug_loc", false, true, want_l_old), (".debug_loclists", true, true, want_l_new)] {
                match count_lists(sec(name), v5, loc, big, a0) {
                    Ok(n) => ensure_eq!(n, want, "c16/dedup/copies", "{}: {} lists emitted for {} distinct lists", name, n, want),
                    Err(e) => fail!("c16/section/malformed", "{}: {}", name, e),
                }
            }
            cx.label("copies counted");
        }
    }
    let _ = ensure_dummy();
    Ok(())
}

/// The base-address rules with a *symbolic* unit base: the unit's DW_AT_low_pc and every list address are
/// `Address::Symbol`, the sections are written through a relocation-recording writer and the relocations applied.
/// A symbolic low_pc is a base address like any other: offset pairs need it, address pairs conflict with it (pre-v5).
pub fn check_symbolic(ch: &mut Choices, cx: &mut Ctx, tag: &str) -> R {
    cx.label("symbolic unit base");
    let big = ch.bool();
    let version = ch.pick(&[4u16, 3, 2, 5, 4]);
    let a = ch.pick(&[8u8, 4]);
    let low_pc = match ch.below(3) {
        0 => None,
        1 => Some(0u64),
        _ => Some(0x1_0000 + ch.below(16) as u64 * 0x1000),
    };
    let mut entries = vec![WEntry { parent: 0, tag: 0x11, sibling: false, attrs: vec![], reserved_early: false, never_added: false }];
    if let Some(b) = low_pc {
        entries[0].attrs.push((0x11, WVal::Address(b)));
    }
    // list shapes: 0 = offset pairs only, 1 = address pairs only, 2 = base selection then offset pairs
    let mut verdict_ok = true;
    let mut why = "";
    let mut gen_shape = |ch: &mut Choices| -> (Vec<WRange>, usize) {
        let shape = ch.below(3);
        let n = 1 + ch.below(3);
        let mut v = Vec::new();
        if shape == 2 {
            v.push(WRange::BaseAddress(0x40_0000 + ch.below(8) as u64 * 0x1000));
        }
        for _ in 0..n {
            let b = 0x10 + ch.below(0x800) as u64;
            let len = 1 + ch.below(0x40) as u64;
            v.push(match shape {
                1 => {
                    if ch.bool() {
                        WRange::StartEnd(0x20_0000 + b, 0x20_0000 + b + len)
                    } else {
                        WRange::StartLength(0x20_0000 + b, len)
                    }
                }
                _ => WRange::OffsetPair(b, b + len),
            });
        }
        (v, shape)
    };
    let nr = 1 + ch.below(2);
    let nl = ch.below(2);
    let mut ranges = Vec::new();
    let mut locs = Vec::new();
    let mut judge = |shape: usize| {
        if version < 5 {
            match (shape, low_pc.is_some()) {
                (0, false) => {
                    verdict_ok = false;
                    why = "offset pairs in a unit without a base address";
                }
                (1, true) => {
                    verdict_ok = false;
                    why = "address pairs in a unit that has a (symbolic) base address";
                }
                _ => {}
            }
        }
    };
    for i in 0..nr {
        let (l, shape) = gen_shape(ch);
        judge(shape);
        ranges.push(l);
        entries.push(WEntry { parent: 0, tag: 0x2e, sibling: false, attrs: vec![(0x55, WVal::RangeListRef(i))], reserved_early: false, never_added: false });
    }
    for i in 0..nl {
        let (l, shape) = gen_shape(ch);
        judge(shape);
        let l: Vec<WLoc> = l
            .into_iter()
            .map(|r| match r {
                WRange::BaseAddress(x) => WLoc::BaseAddress(x),
                WRange::OffsetPair(b, e) => WLoc::OffsetPair(b, e, gen_simple_expr(ch, 1)),
                WRange::StartEnd(b, e) => WLoc::StartEnd(b, e, gen_simple_expr(ch, 1)),
                WRange::StartLength(b, l) => WLoc::StartLength(b, l, gen_simple_expr(ch, 1)),
            })
            .collect();
        locs.push(l);
        entries.push(WEntry { parent: 0, tag: 0x34, sibling: false, attrs: vec![(0x02, WVal::LocationListRef(i))], reserved_early: false, never_added: false });
    }
    let m = WDwarf { big, units: vec![WUnit { version, format64: ch.chance(64), address_size: a, entries, ranges, locs, files: None }], dummies: Vec::new() };
    let expect = if verdict_ok { Expect::Ok } else { Expect::MustFail(why) };
    cx.sample_with(|| format!("symbolic addresses, {} v{} addr{} low_pc {:x?} ranges {:x?} locs {:?} expect {:?}", if big { "BE" } else { "LE" }, version, a, low_pc, m.units[0].ranges, m.units[0].locs.iter().map(|l| shapes_dbg(l)).collect::<Vec<_>>(), expect));
    if low_pc.is_some() && version < 5 {
        cx.nt();
    }
    with_symbolic_write(|| check_written(&m, &expect, cx, tag))
}

fn ensure_dummy() -> R {
    ensure!(true, "c16/dummy", "");
    Ok(())
}

fn shapes_dbg(l: &[WLoc]) -> Vec<String> {
    l.iter()
        .map(|e| match e {
            WLoc::BaseAddress(a) => format!("Base({:#x})", a),
            WLoc::OffsetPair(b, e, d) => format!("Offsets({:#x},{:#x},{} ops)", b, e, d.len()),
            WLoc::StartEnd(b, e, d) => format!("Addrs({:#x},{:#x},{} ops)", b, e, d.len()),
            WLoc::StartLength(b, l, d) => format!("AddrLen({:#x},{:#x},{} ops)", b, l, d.len()),
            WLoc::DefaultLocation(d) => format!("Default({} ops)", d.len()),
        })
        .collect()
}

impl Prop for C16 {
    fn id(&self) -> &'static str {
        "C16"
    }
    fn rule(&self) -> &'static str {
        "generated units (1-2; versions 2-5 x 32/64-bit x address size 4/8 x byte order; DW_AT_low_pc absent / zero / non-zero) each with 1-4 range lists and 0-3 location lists, some equal to an earlier list; lists are either valid by construction or drawn from boundary values (0, 1, all-ones, all-ones-1/-2, 2^32, u64::MAX, begin = end, begin + length wrapping, offsets without a base, address pairs with a base, default locations before v5); location expressions include entry references (typed constants, calls, cross-unit call_ref). Oracle: the request: attr_ranges/attr_locations on the read-back unit must yield the model resolution (harness/src/c08.rs resolve, relative to the unit base) of the requested list with the requested expressions; equal lists get equal ids, get(id) returns the list, and the emitted section contains exactly one copy per distinct list (independent section walker); a request that is not representable unambiguously in the chosen encoding (independent verdict function over the entry shapes) must be refused. separate mode (symbolic unit base): DW_AT_low_pc and all list addresses are Address::Symbol, written through a relocation-recording writer whose relocations are then applied; offset pairs must be accepted exactly when the unit has a (symbolic) base and address pairs exactly when it has none (pre-v5), and the lists must read back as requested. Non-trivial = a base-address entry followed by an offset pair in a unit with >= 2 lists, or a negative case, or a symbolic base in a pre-v5 unit; distinct by choice string. Later additions: units with two-byte addresses; empty expressions in bounded location list entries."
    }
    fn assumptions(&self) -> Vec<&'static str> {
        vec![
            "an offset pair in a pre-v5 unit whose DW_AT_low_pc is zero may be refused (it would read back correctly, but the writer documents that it needs a base address)",
            "ranges that the reader documents as filtered (begin >= end, tombstone begin) are compared after the same filter on the model side",
        ]
    }
    fn max_len(&self) -> usize {
        600
    }
    fn cases(&self, tier: Tier, dev: bool) -> u64 {
        match (tier, dev) {
            (Tier::Quick, false) => 60_000,
            (Tier::Quick, true) => 10_000,
            (Tier::Thorough, false) => 3_000_000,
            (Tier::Thorough, true) => 300_000,
        }
    }
    fn run_case(&self, ch: &mut Choices, cx: &mut Ctx) -> R {
        if ch.chance(24) {
            return check_symbolic(ch, cx, "c16/symbolic");
        }
        check(ch, cx)
    }
}
