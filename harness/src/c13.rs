//! C13 — written line programs read back to exactly the rows that were generated.
use crate::core::*;
use crate::enc::mask;
use crate::linemodel::{run_line, LineEnd, LineHeader, STD_LENGTHS};
use crate::{ensure, ensure_eq, fail};
use gimli::write::{Address, DebugLine as WDebugLine, DebugLineStr as WDebugLineStr, DebugStr as WDebugStr, EndianVec, FileInfo, LineProgram, LineString, LineStringTable, StringTable};
use gimli::{ColumnType, Encoding, EndianSlice, Format, LineEncoding, RunTimeEndian};

pub struct C13;

#[derive(Clone, Debug)]
struct RowSpec {
    offset: u64,
    op_index: u64,
    file: usize, // index into the files we added
    line: u64,
    column: u64,
    disc: u64,
    is_stmt: bool,
    bb: bool,
    pe: bool,
    eb: bool,
    isa: u64,
}

#[derive(Clone, Debug)]
enum Begin {
    /// begin_sequence(Some(addr))
    BeginSome(u64),
    /// begin_sequence(None); base 0
    BeginNone,
    /// set_address(addr) (starts a sequence)
    SetAddress(u64),
    /// nothing: first generate_row starts the sequence at base 0
    Implicit,
}

#[derive(Clone, Debug)]
struct SeqSpec {
    begin: Begin,
    rows: Vec<RowSpec>,
    /// after row i (index), re-state the current address with set_address(base + offset_i)
    restate_after: Option<usize>,
    end_offset: u64,
    /// VLIW only: the operation index the sequence ends at (set on the current row before end_sequence)
    end_opi: Option<u64>,
}

#[derive(Clone, Debug, PartialEq, Eq)]
enum StrForm {
    Inline,
    LineStr,
    Str,
}

#[derive(Clone, Debug)]
struct FileSpecW {
    name: Vec<u8>,
    dir: usize,
    info: Option<(u64, u64, [u8; 16], Option<Vec<u8>>)>,
}

#[derive(Clone, Debug)]
struct ProgSpec {
    big: bool,
    version: u16,
    format64: bool,
    address_size: u8,
    lenc: LineEncoding,
    dir_form: StrForm,
    file_form: StrForm,
    src_form: StrForm,
    working_dir: Vec<u8>,
    source_dir: Option<Vec<u8>>,
    source_file: Vec<u8>,
    source_info: Option<(u64, u64, [u8; 16], Option<Vec<u8>>)>,
    dirs: Vec<Vec<u8>>,
    files: Vec<FileSpecW>,
    has_ts: bool,
    has_size: bool,
    has_md5: bool,
    has_source: bool,
    seqs: Vec<SeqSpec>,
}

fn gen_name(ch: &mut Choices, pool: usize) -> Vec<u8> {
    // a small pool so that duplicate names (in different directories) occur
    let names: [&[u8]; 6] = [b"a.c", b"b.c", b"lib", b"main.rs", b"x", b"src/inc"];
    if ch.chance(200) {
        names[ch.below(pool.min(6))].to_vec()
    } else {
        let n = 1 + ch.below(12);
        (0..n).map(|_| b'A' + ch.u8() % 50).collect()
    }
}

fn gen_info(ch: &mut Choices) -> Option<(u64, u64, [u8; 16], Option<Vec<u8>>)> {
    if ch.chance(80) {
        return None;
    }
    let mut md5 = [0u8; 16];
    for b in md5.iter_mut() {
        *b = ch.u8();
    }
    let src = if ch.bool() {
        let n = ch.below(10);
        Some((0..n).map(|_| b' ' + ch.u8() % 90).collect())
    } else {
        None
    };
    Some((ch.biased(64), ch.biased(64), md5, src))
}

fn gen_lenc(ch: &mut Choices, version: u16) -> LineEncoding {
    let line_base: i8 = match ch.below(6) {
        0 => 0,
        1 => -128,
        2 => -1,
        3 => -(ch.below(129) as i16) as i8,
        _ => -5,
    };
    let min_range = (-(line_base as i16) + 1).max(1) as u16;
    let line_range: u8 = match ch.below(6) {
        0 => min_range as u8,
        1 => 255,
        2 => (min_range + ch.below((256 - min_range as usize).max(1)) as u16).min(255) as u8,
        3 => (128u16.max(min_range) + ch.below(20) as u16).min(255) as u8,
        _ => 14u16.max(min_range) as u8,
    };
    LineEncoding {
        minimum_instruction_length: ch.pick(&[1u8, 1, 2, 4, 1, 8, 255]),
        maximum_operations_per_instruction: if version >= 4 { ch.pick(&[1u8, 1, 1, 2, 4, 3, 255]) } else { 1 },
        default_is_stmt: ch.bool(),
        line_base,
        line_range,
    }
}

fn gen_spec(ch: &mut Choices) -> ProgSpec {
    let big = ch.bool();
    let version = ch.pick(&[4u16, 5, 5, 3, 2]);
    let format64 = ch.chance(64);
    let address_size = ch.pick(&[8u8, 4, 8, 4, 2, 1]);
    let lenc = gen_lenc(ch, version);
    let form = |ch: &mut Choices| -> StrForm {
        if version >= 5 {
            [StrForm::Inline, StrForm::LineStr, StrForm::Str][ch.below(3)].clone()
        } else {
            StrForm::Inline
        }
    };
    let dir_form = form(ch);
    let file_form = form(ch);
    let src_form = form(ch);
    let ndirs = ch.count(3);
    let dirs: Vec<Vec<u8>> = (0..ndirs).map(|_| gen_name(ch, 6)).collect();
    let nfiles = ch.count(5);
    let ndir_total = 2 + ndirs; // working dir, maybe source dir, extra
    let files: Vec<FileSpecW> = (0..nfiles).map(|_| FileSpecW { name: gen_name(ch, 4), dir: ch.below(ndir_total), info: gen_info(ch) }).collect();
    let m = mask(address_size);
    let mil = lenc.minimum_instruction_length as u64;
    let mops = lenc.maximum_operations_per_instruction as u64;
    let nseq = 1 + ch.count(4);
    let mut seqs = Vec::new();
    for _ in 0..nseq {
        let base = match ch.below(4) {
            0 => 0,
            1 => ch.biased(8 * address_size as u32) / 2,
            _ => 0x1000 & m,
        };
        let begin = match ch.below(5) {
            0 => Begin::BeginNone,
            1 => Begin::SetAddress(base),
            2 => Begin::Implicit,
            _ => Begin::BeginSome(base),
        };
        let base_eff = match &begin {
            Begin::BeginSome(b) | Begin::SetAddress(b) => *b,
            _ => 0,
        };
        let room = m - base_eff;
        let nrows = ch.count(30);
        let mut rows: Vec<RowSpec> = Vec::new();
        let mut off: u64 = 0;
        let mut opi: u64 = 0;
        let mut line: u64 = 1;
        for _ in 0..nrows {
            // address / op advance
            let adv_units = match ch.below(10) {
                0..=2 => 0,
                3..=5 => ch.below(4) as u64,
                6 => ch.biased(10),
                7 => ch.biased(20),
                8 => ch.biased(40),
                _ => ch.below(300) as u64,
            };
            let new_off = off.saturating_add(adv_units.saturating_mul(mil));
            let new_off = if new_off > room.saturating_sub(mil * 2) { off } else { new_off };
            let new_opi = if mops > 1 {
                if new_off == off {
                    // same instruction: op_index may only grow
                    (opi + ch.below(3) as u64).min(mops - 1)
                } else {
                    ch.below(mops as usize) as u64
                }
            } else {
                0
            };
            off = new_off;
            opi = new_opi;
            line = match ch.below(10) {
                0 => line,
                1 => line.saturating_add(1),
                2 => line.saturating_sub(ch.below(5) as u64),
                3 => ch.biased(32),
                4 => ch.biased(63),
                5 => (line as i64).saturating_add(ch.range(-300, 300)).max(0) as u64,
                6 => 0,
                _ => line.saturating_add(ch.below(20) as u64),
            };
            // documented domain: a line advance must fit one signed operand
            line = line.min(i64::MAX as u64);
            rows.push(RowSpec {
                offset: off,
                op_index: opi,
                file: ch.below(nfiles + 1),
                line,
                column: if ch.bool() { 0 } else { ch.biased(64) },
                disc: if ch.chance(200) { 0 } else { ch.biased(64) },
                is_stmt: ch.bool(),
                bb: ch.chance(60),
                pe: ch.chance(40),
                eb: ch.chance(40),
                isa: if ch.chance(220) { 0 } else { ch.biased(64) },
            });
        }
        let end_offset = {
            let extra = ch.below(5) as u64 * mil;
            let e = off.saturating_add(extra);
            if e > room {
                off
            } else {
                e
            }
        };
        let restate_after = if !rows.is_empty() && ch.chance(48) { Some(ch.below(rows.len())) } else { None };
        let max_ops = lenc.maximum_operations_per_instruction as u64;
        let end_opi = if max_ops > 1 && ch.chance(110) {
            let last = rows.last().map(|r: &RowSpec| (r.offset, r.op_index));
            Some(match last {
                // within the last row's instruction the operation index may only grow
                Some((o, opi)) if o == end_offset => opi + ch.below((max_ops - opi) as usize) as u64,
                _ => ch.below(max_ops as usize) as u64,
            })
        } else {
            None
        };
        seqs.push(SeqSpec { begin, rows, restate_after, end_offset, end_opi });
    }
    ProgSpec {
        big,
        version,
        format64,
        address_size,
        lenc,
        dir_form,
        file_form,
        src_form,
        working_dir: gen_name(ch, 3),
        source_dir: if ch.bool() { Some(gen_name(ch, 6)) } else { None },
        source_file: gen_name(ch, 2),
        source_info: gen_info(ch),
        dirs,
        files,
        has_ts: ch.bool(),
        has_size: ch.bool(),
        has_md5: ch.bool(),
        has_source: ch.chance(100),
        seqs,
    }
}

#[derive(Debug, Clone, PartialEq)]
struct ExpRow {
    address: u64,
    op_index: u64,
    file_raw: u64,
    line: u64,
    column: u64,
    is_stmt: bool,
    bb: bool,
    end_sequence: bool,
    pe: bool,
    eb: bool,
    isa: u64,
    disc: u64,
}

#[derive(Debug, Clone, PartialEq)]
struct ExpFile {
    name: Vec<u8>,
    dir: Vec<u8>,
    ts: u64,
    size: u64,
    md5: [u8; 16],
    source: Option<Vec<u8>>,
}

fn mkstr(v: &[u8], form: &StrForm, ls: &mut LineStringTable, st: &mut StringTable) -> LineString {
    match form {
        StrForm::Inline => LineString::String(v.to_vec()),
        StrForm::LineStr => LineString::LineStringRef(ls.add(v.to_vec())),
        StrForm::Str => LineString::StringRef(st.add(v.to_vec())),
    }
}

fn mkinfo(i: &Option<(u64, u64, [u8; 16], Option<Vec<u8>>)>, form: &StrForm, ls: &mut LineStringTable, st: &mut StringTable) -> Option<FileInfo> {
    i.as_ref().map(|(ts, size, md5, src)| FileInfo { timestamp: *ts, size: *size, md5: *md5, source: src.as_ref().map(|s| mkstr(s, form, ls, st)) })
}

struct Written {
    line: Vec<u8>,
    line_str: Vec<u8>,
    str_: Vec<u8>,
}

/// Build the program through gimli's writing API. Returns the sections, the
/// expected rows and the expected file table (index = raw file index).
fn write_spec(s: &ProgSpec) -> R<Result<(Written, Vec<ExpRow>, Vec<Option<ExpFile>>), String>> {
    let enc = Encoding { format: if s.format64 { Format::Dwarf64 } else { Format::Dwarf32 }, version: s.version, address_size: s.address_size };
    let mut ls = LineStringTable::default();
    let mut st = StringTable::default();
    let wd = mkstr(&s.working_dir, &s.dir_form, &mut ls, &mut st);
    let sd = s.source_dir.as_ref().map(|d| mkstr(d, &s.dir_form, &mut ls, &mut st));
    let sf = mkstr(&s.source_file, &s.file_form, &mut ls, &mut st);
    let si = mkinfo(&s.source_info, &s.src_form, &mut ls, &mut st);
    let mut p = LineProgram::new(enc, s.lenc, wd, sd, sf, si);
    p.file_has_timestamp = s.has_ts;
    p.file_has_size = s.has_size;
    p.file_has_md5 = s.has_md5;
    p.file_has_source = s.has_source;
    // Model of the writer's tables: directories are de-duplicated by value, files by (name, directory id);
    // adding an existing file with Some(info) replaces its info, with None keeps it.
    let mut mdirs: Vec<Vec<u8>> = Vec::new();
    let mut mdir_id = |name: &Vec<u8>| -> usize {
        match mdirs.iter().position(|d| d == name) {
            Some(i) => i,
            None => {
                mdirs.push(name.clone());
                mdirs.len() - 1
            }
        }
    };
    let mut mfiles: Vec<((Vec<u8>, usize), ExpFile)> = Vec::new();
    let mut dir_ids = vec![p.default_directory()];
    let mut dir_model_ids = vec![mdir_id(&s.working_dir)];
    let mut dir_names: Vec<Vec<u8>> = vec![s.working_dir.clone()];
    let source_dir_id = match &s.source_dir {
        Some(d) => p.add_directory(mkstr(d, &s.dir_form, &mut ls, &mut st)),
        None => p.default_directory(),
    };
    dir_ids.push(source_dir_id);
    dir_names.push(s.source_dir.clone().unwrap_or_else(|| s.working_dir.clone()));
    dir_model_ids.push(mdir_id(&dir_names[1].clone()));
    for d in &s.dirs {
        dir_ids.push(p.add_directory(mkstr(d, &s.dir_form, &mut ls, &mut st)));
        dir_names.push(d.clone());
        dir_model_ids.push(mdir_id(d));
    }
    let mk_exp = |name: &Vec<u8>, dir: &Vec<u8>, info: &Option<(u64, u64, [u8; 16], Option<Vec<u8>>)>| -> ExpFile {
        let (ts, size, md5, src) = info.clone().unwrap_or((0, 0, [0; 16], None));
        ExpFile { name: name.clone(), dir: dir.clone(), ts, size, md5, source: src }
    };
    let mut madd = |name: &Vec<u8>, d: usize, info: &Option<(u64, u64, [u8; 16], Option<Vec<u8>>)>| -> usize {
        let key = (name.clone(), dir_model_ids[d]);
        match mfiles.iter().position(|f| f.0 == key) {
            Some(i) => {
                if info.is_some() {
                    mfiles[i].1 = mk_exp(name, &dir_names[d], info);
                }
                i
            }
            None => {
                mfiles.push((key, mk_exp(name, &dir_names[d], info)));
                mfiles.len() - 1
            }
        }
    };
    // files: our index 0 = the source file (added explicitly for v<=4 as well so that rows can use it)
    let mut file_ids = Vec::new();
    let mut file_model_idx = Vec::new();
    file_ids.push(p.add_file(mkstr(&s.source_file, &s.file_form, &mut ls, &mut st), source_dir_id, mkinfo(&s.source_info, &s.src_form, &mut ls, &mut st)));
    file_model_idx.push(madd(&s.source_file, 1, &s.source_info));
    for f in &s.files {
        let d = f.dir.min(dir_ids.len() - 1);
        file_ids.push(p.add_file(mkstr(&f.name, &s.file_form, &mut ls, &mut st), dir_ids[d], mkinfo(&f.info, &s.src_form, &mut ls, &mut st)));
        file_model_idx.push(madd(&f.name, d, &f.info));
    }
    // the ids the writer handed out must denote the same table positions as the model's
    for (i, id) in file_ids.iter().enumerate() {
        let pos = p.files().position(|(fid, _, _)| fid == *id);
        ensure_eq!(pos, Some(file_model_idx[i]), "c13/files/id-position", "file #{} {:?}", i, String::from_utf8_lossy(if i == 0 { &s.source_file } else { &s.files[i - 1].name }));
    }
    // the table accessors of the writer give back what was added
    for (i, id) in file_ids.iter().enumerate() {
        let name = if i == 0 { &s.source_file } else { &s.files[i - 1].name };
        let d = if i == 0 { 1 } else { s.files[i - 1].dir.min(dir_ids.len() - 1) };
        let (got_name, got_dir) = p.get_file(*id);
        ensure_eq!(got_name.get(&st, &ls), &name[..], "c13/files/get_file-name", "file #{}", i);
        ensure_eq!(p.get_directory(got_dir).get(&st, &ls), &dir_names[d][..], "c13/files/get_file-directory", "file #{} {:?}", i, String::from_utf8_lossy(name));
        // (the information kept for a file is what was last given for that name and directory)
        let want = &mfiles[file_model_idx[i]].1;
        let info = p.get_file_info(*id);
        ensure_eq!((info.timestamp, info.size, info.md5, info.source.as_ref().map(|x| x.get(&st, &ls).to_vec())), (want.ts, want.size, want.md5, want.source.clone()), "c13/files/get_file_info", "file #{} {:?}", i, String::from_utf8_lossy(name));
    }
    for (k, id) in dir_ids.iter().enumerate() {
        ensure_eq!(p.get_directory(*id).get(&st, &ls), &dir_names[k][..], "c13/files/get_directory", "directory #{}", k);
    }
    let raw_of = |i: usize| -> u64 {
        if s.version <= 4 {
            file_model_idx[i] as u64 + 1
        } else {
            file_model_idx[i] as u64
        }
    };
    let mut final_by_raw: std::collections::BTreeMap<u64, ExpFile> = std::collections::BTreeMap::new();
    for (i, (_, e)) in mfiles.iter().enumerate() {
        final_by_raw.insert(if s.version <= 4 { i as u64 + 1 } else { i as u64 }, e.clone());
    }
    let mut exp_rows = Vec::new();
    for seq in &s.seqs {
        let base = match &seq.begin {
            Begin::BeginSome(a) => {
                p.begin_sequence(Some(Address::Constant(*a)));
                *a
            }
            Begin::BeginNone => {
                p.begin_sequence(None);
                0
            }
            Begin::SetAddress(a) => {
                p.set_address(Address::Constant(*a));
                *a
            }
            Begin::Implicit => 0,
        };
        let mut last_opi = 0;
        for (i, r) in seq.rows.iter().enumerate() {
            {
                let row = p.row();
                row.address_offset = r.offset;
                row.op_index = r.op_index;
                row.file = file_ids[r.file];
                row.line = r.line;
                row.column = r.column;
                row.discriminator = r.disc;
                row.is_statement = r.is_stmt;
                row.basic_block = r.bb;
                row.prologue_end = r.pe;
                row.epilogue_begin = r.eb;
                row.isa = r.isa;
            }
            p.generate_row();
            last_opi = r.op_index;
            exp_rows.push(ExpRow { address: base + r.offset, op_index: r.op_index, file_raw: raw_of(r.file), line: r.line, column: r.column, is_stmt: r.is_stmt, bb: r.bb, end_sequence: false, pe: r.pe, eb: r.eb, isa: r.isa, disc: r.disc });
            if seq.restate_after == Some(i) {
                // re-state the current address: both readings of `address_offset` agree on what follows (the operation
                // index restarts at 0 there, as DW_LNE_set_address says; the rows that follow keep their own)
                p.set_address(Address::Constant(base + r.offset));
            }
        }
        if let Some(x) = seq.end_opi {
            p.row().op_index = x;
            last_opi = x;
        }
        p.end_sequence(seq.end_offset);
        let last = seq.rows.last();
        exp_rows.push(ExpRow {
            address: base + seq.end_offset,
            // only the address offset and the op_index of the current row are used
            op_index: if last.map(|l| l.offset) == Some(seq.end_offset) { last_opi } else if s.lenc.maximum_operations_per_instruction > 1 { last_opi } else { 0 },
            file_raw: 0,
            line: 0,
            column: 0,
            is_stmt: false,
            bb: false,
            end_sequence: true,
            pe: false,
            eb: false,
            isa: 0,
            disc: 0,
        });
    }
    let endian = if s.big { RunTimeEndian::Big } else { RunTimeEndian::Little };
    let mut w = WDebugLine::from(EndianVec::new(endian));
    // the encoding of the unit the program belongs to is only checked for compatibility: a DWARF 5 unit may carry an
    // older program, and the formats may differ; neither may change what is written
    let unit_enc = match (s.files.len() + s.dirs.len()) % 3 {
        1 => Encoding { version: 5, ..enc },
        2 => Encoding { format: if s.format64 { Format::Dwarf32 } else { Format::Dwarf64 }, ..enc },
        _ => enc,
    };
    match p.write(&mut w, unit_enc, &mut ls, &mut st) {
        Ok(off) => {
            ensure_eq!(off.0, 0, "c13/write/offset");
        }
        Err(e) => return Ok(Err(format!("{:?}", e))),
    }
    let mut wls = WDebugLineStr::from(EndianVec::new(endian));
    ls.write(&mut wls).map_err(|e| Failure { sig: "c13/write/line_str".into(), detail: format!("{e:?}") })?;
    let mut wst = WDebugStr::from(EndianVec::new(endian));
    st.write(&mut wst).map_err(|e| Failure { sig: "c13/write/str".into(), detail: format!("{e:?}") })?;
    let max_raw = final_by_raw.keys().max().copied().unwrap_or(0);
    let mut files: Vec<Option<ExpFile>> = vec![None; max_raw as usize + 1];
    for (k, v) in final_by_raw {
        files[k as usize] = Some(v);
    }
    Ok(Ok((Written { line: w.0.into_vec(), line_str: wls.0.into_vec(), str_: wst.0.into_vec() }, exp_rows, files)))
}

fn resolve(v: &gimli::AttributeValue<EndianSlice<RunTimeEndian>>, wr: &Written, endian: RunTimeEndian) -> R<Vec<u8>> {
    use gimli::AttributeValue as AV;
    Ok(match v {
        AV::String(s) => s.slice().to_vec(),
        AV::DebugLineStrRef(o) => gimli::DebugLineStr::new(&wr.line_str, endian).get_str(*o).map_err(|e| Failure { sig: "c13/readback/line_strp-dangling".into(), detail: format!("{:?} offset {}", e, o.0) })?.slice().to_vec(),
        AV::DebugStrRef(o) => gimli::DebugStr::new(&wr.str_, endian).get_str(*o).map_err(|e| Failure { sig: "c13/readback/strp-dangling".into(), detail: format!("{:?} offset {}", e, o.0) })?.slice().to_vec(),
        other => fail!("c13/readback/string-form", "unexpected string value {:?}", other),
    })
}

fn check_spec(s: &ProgSpec, cx: &mut Ctx) -> R {
    // documented negative cases
    // (every embedded source of a program is given in the one form `src_form`: nothing is mixed, so the writer, which
    // takes the form of the source column from the first file that has a source, has nothing to refuse)
    let mixed_forms_possible = false;
    let (wr, exp_rows, exp_files) = match write_spec(s)? {
        Ok(x) => x,
        Err(e) => {
            // the only legitimate refusal in this domain: source strings whose form differs between files
            // (a file without info gets an inline/empty placeholder of the chosen form) — never for plain inputs
            if mixed_forms_possible && e.contains("LineStringFormMismatch") {
                cx.label("refused:LineStringFormMismatch");
                return Ok(());
            }
            fail!("c13/write/refused", "LineProgram::write failed with {} for a program inside the documented preconditions", e)
        }
    };
    let endian = if s.big { RunTimeEndian::Big } else { RunTimeEndian::Little };
    let dl = gimli::DebugLine::new(&wr.line, endian);
    let wd = EndianSlice::new(&s.working_dir[..], endian);
    let program = match dl.program(gimli::DebugLineOffset(0), s.address_size, Some(wd), None) {
        Ok(p) => p,
        Err(e) => fail!("c13/readback/header", "written header does not parse: {:?}", e),
    };
    {
        let h = program.header();
        ensure_eq!(h.version(), s.version, "c13/readback/version");
        ensure_eq!(h.address_size(), s.address_size, "c13/readback/address_size");
        ensure_eq!(h.format(), if s.format64 { Format::Dwarf64 } else { Format::Dwarf32 }, "c13/readback/format");
        ensure_eq!(h.line_encoding(), s.lenc, "c13/readback/line_encoding");
        ensure_eq!(h.unit_length(), wr.line.len() - if s.format64 { 12 } else { 4 }, "c13/readback/unit_length");
    }
    // rows
    let mut rows = program.rows();
    let mut got: Vec<ExpRow> = Vec::new();
    loop {
        match rows.next_row() {
            Ok(Some((_, r))) => got.push(ExpRow {
                address: r.address(),
                op_index: r.op_index(),
                file_raw: r.file_index(),
                line: r.line().map(|l| l.get()).unwrap_or(0),
                column: match r.column() {
                    ColumnType::LeftEdge => 0,
                    ColumnType::Column(c) => c.get(),
                },
                is_stmt: r.is_stmt(),
                bb: r.basic_block(),
                end_sequence: r.end_sequence(),
                pe: r.prologue_end(),
                eb: r.epilogue_begin(),
                isa: r.isa(),
                disc: r.discriminator(),
            }),
            Ok(None) => break,
            Err(e) => fail!("c13/readback/rows-error", "{:?} after {} rows", e, got.len()),
        }
        if got.len() > exp_rows.len() + 4 {
            break;
        }
    }
    let header = rows.header().clone();
    let cmp = |got: &[ExpRow], what: &str| -> R {
        for (i, e) in exp_rows.iter().enumerate() {
            let Some(g) = got.get(i) else { fail!(format!("c13/{}/missing-row", what), "row #{} {:?} missing; read back {} rows", i, e, got.len()) };
            if e.end_sequence {
                if !(g.end_sequence && g.address == e.address && g.op_index == e.op_index) {
                    fail!(format!("c13/{}/end-sequence", what), "row #{}: read back {:?}; generated end of sequence at {:#x} op_index {}", i, g, e.address, e.op_index);
                }
            } else if g != e {
                fail!(format!("c13/{}/row", what), "row #{} differs\n read back {:?}\n generated {:?}", i, g, e);
            }
        }
        ensure_eq!(got.len(), exp_rows.len(), format!("c13/{}/row-count", what));
        Ok(())
    };
    cmp(&got, "readback")?;
    // independent reader: the harness's own state machine over the emitted program bytes
    {
        let mh = LineHeader {
            version: s.version,
            format64: s.format64,
            address_size: s.address_size,
            min_inst_len: s.lenc.minimum_instruction_length,
            max_ops: s.lenc.maximum_operations_per_instruction,
            default_is_stmt: s.lenc.default_is_stmt,
            line_base: s.lenc.line_base,
            line_range: s.lenc.line_range,
            opcode_base: header.opcode_base(),
            std_lengths: STD_LENGTHS.to_vec(),
            dirs: vec![],
            files: vec![],
            dir_format: vec![],
            file_format: vec![],
            header_pad: vec![],
        };
        ensure_eq!(header.opcode_base(), 13, "c13/readback/opcode_base");
        ensure_eq!(header.standard_opcode_lengths().slice(), &STD_LENGTHS[..], "c13/readback/standard_opcode_lengths");
        let prog = header.raw_program_buf();
        let run = run_line(&mh, s.big, prog.slice());
        if matches!(run.end, LineEnd::Done) {
            let mrows: Vec<ExpRow> = run
                .rows
                .iter()
                .map(|r| ExpRow { address: r.address, op_index: r.op_index, file_raw: r.file, line: r.line, column: r.column, is_stmt: r.is_stmt, bb: r.basic_block, end_sequence: r.end_sequence, pe: r.prologue_end, eb: r.epilogue_begin, isa: r.isa, disc: r.discriminator })
                .collect();
            cmp(&mrows, "model-readback")?;
        } else {
            fail!("c13/model-readback/program", "the emitted program is not a well-formed line program for the independent state machine: {:?}", run.end);
        }
        // classes: which opcodes the writer chose
        let mut special_adv = false;
        for op in &run.ops {
            match op {
                crate::linemodel::LOp::ConstAddPc => {
                    cx.label("writer-chose:const_add_pc");
                    cx.nt();
                }
                crate::linemodel::LOp::AdvancePc(_) => {
                    cx.label("writer-chose:advance_pc");
                    cx.nt();
                }
                crate::linemodel::LOp::AdvanceLine(_) => {
                    cx.label("writer-chose:advance_line");
                    cx.nt();
                }
                crate::linemodel::LOp::Special(b) => {
                    if (*b - 13) / s.lenc.line_range > 0 {
                        special_adv = true;
                    }
                }
                _ => {}
            }
        }
        if special_adv {
            cx.label("writer-chose:special-with-op-advance");
            cx.nt();
        }
    }
    // files used by rows resolve to the intended file
    for (raw, ef) in exp_files.iter().enumerate() {
        let Some(ef) = ef else { continue };
        let Some(fe) = header.file(raw as u64) else { fail!("c13/files/missing", "file index {} not in the read-back table", raw) };
        let name = resolve(&fe.path_name(), &wr, endian)?;
        ensure_eq!(name, ef.name, "c13/files/name", "file index {}", raw);
        let dir = match fe.directory(&header) {
            Some(d) => resolve(&d, &wr, endian)?,
            None => fail!("c13/files/directory-missing", "file index {} directory index {}", raw, fe.directory_index()),
        };
        ensure_eq!(dir, ef.dir, "c13/files/directory", "file index {} ({:?})", raw, String::from_utf8_lossy(&ef.name));
        let v5 = s.version >= 5;
        if !v5 || s.has_ts {
            ensure_eq!(fe.timestamp(), ef.ts, "c13/files/timestamp", "file index {}", raw);
        }
        if !v5 || s.has_size {
            ensure_eq!(fe.size(), ef.size, "c13/files/size", "file index {}", raw);
        }
        if v5 && s.has_md5 {
            ensure_eq!(*fe.md5(), ef.md5, "c13/files/md5", "file index {}", raw);
        }
        if v5 && s.has_source {
            let src = match fe.source() {
                Some(v) => resolve(&v, &wr, endian)?,
                None => fail!("c13/files/source-missing", "file index {}", raw),
            };
            ensure_eq!(src, ef.source.clone().unwrap_or_default(), "c13/files/source", "file index {}", raw);
        }
    }
    match s.version {
        2 => cx.label("v2"),
        3 => cx.label("v3"),
        4 => cx.label("v4"),
        _ => cx.label("v5"),
    }
    if s.lenc.line_range >= 128 {
        cx.label("line_range>=128");
    }
    if s.lenc.maximum_operations_per_instruction > 1 {
        cx.label("max_ops>1");
    }
    if s.seqs.iter().any(|q| q.restate_after.is_some()) {
        cx.label("mid-sequence set_address");
    }
    Ok(())
}

/// One grid cell block: for a fixed encoding and line advance, all operation advances 0..=600 as two-row sequences.
fn grid_block(lenc: LineEncoding, version: u16, la: i64, oa_step: usize) -> R<u64> {
    let enc = Encoding { format: Format::Dwarf32, version, address_size: 8 };
    let mut ls = LineStringTable::default();
    let mut st = StringTable::default();
    let mut p = LineProgram::new(enc, lenc, LineString::String(b"/w".to_vec()), None, LineString::String(b"f.c".to_vec()), None);
    let fid = p.add_file(LineString::String(b"f.c".to_vec()), p.default_directory(), None);
    let mil = lenc.minimum_instruction_length as u64;
    let mops = lenc.maximum_operations_per_instruction as u64;
    let mut expected: Vec<(u64, u64, u64, bool)> = Vec::new(); // address, op_index, line, end
    let base_line: u64 = 1000;
    let mut oa = 0u64;
    let mut n = 0;
    while oa <= 600 {
        p.begin_sequence(Some(Address::Constant(0x10000)));
        {
            let r = p.row();
            r.address_offset = 0;
            r.op_index = 0;
            r.file = fid;
            r.line = base_line;
        }
        p.generate_row();
        expected.push((0x10000, 0, base_line, false));
        let off = (oa / mops) * mil;
        let opi = oa % mops;
        {
            let r = p.row();
            r.address_offset = off;
            r.op_index = opi;
            r.line = (base_line as i64 + la) as u64;
        }
        p.generate_row();
        expected.push((0x10000 + off, opi, (base_line as i64 + la) as u64, false));
        p.end_sequence(off);
        expected.push((0x10000 + off, opi, 0, true));
        oa += oa_step as u64;
        n += 1;
    }
    let mut w = WDebugLine::from(EndianVec::new(RunTimeEndian::Little));
    if let Err(e) = p.write(&mut w, enc, &mut ls, &mut st) {
        fail!("c13/grid/write-refused", "{:?}", e);
    }
    let bytes = w.0.into_vec();
    let dl = gimli::DebugLine::new(&bytes, RunTimeEndian::Little);
    let program = dl.program(gimli::DebugLineOffset(0), 8, None, None).map_err(|e| Failure { sig: "c13/grid/header".into(), detail: format!("{e:?}") })?;
    let mut rows = program.rows();
    let mut i = 0usize;
    loop {
        match rows.next_row() {
            Ok(Some((_, r))) => {
                let Some(e) = expected.get(i) else { fail!("c13/grid/extra-row", "row #{}", i) };
                let g = (r.address(), r.op_index(), r.line().map(|l| l.get()).unwrap_or(0), r.end_sequence());
                let ok = if e.3 { g.3 && g.0 == e.0 && g.1 == e.1 } else { g == *e };
                if !ok {
                    fail!("c13/grid/row", "line advance {} op advance {} ({:?} v{}): read back (addr {:#x}, op_index {}, line {}, end {}) generated (addr {:#x}, op_index {}, line {}, end {})", la, (i / 3) * oa_step, lenc, version, g.0, g.1, g.2, g.3, e.0, e.1, e.2, e.3);
                }
                i += 1;
            }
            Ok(None) => break,
            Err(e) => fail!("c13/grid/rows-error", "{:?}", e),
        }
    }
    ensure_eq!(i, expected.len(), "c13/grid/row-count");
    Ok(n)
}

fn grid_encodings() -> Vec<(LineEncoding, u16)> {
    let mut v = Vec::new();
    let le = |mil: u8, mops: u8, lb: i8, lr: u8| LineEncoding { minimum_instruction_length: mil, maximum_operations_per_instruction: mops, default_is_stmt: true, line_base: lb, line_range: lr };
    for (lb, lr) in [(-5i8, 14u8), (0, 1), (-128, 129), (-128, 255), (-1, 2), (-3, 12), (0, 255), (-100, 200), (-10, 243), (-1, 81), (0, 27), (-5, 128)] {
        v.push((le(1, 1, lb, lr), 4));
    }
    for (mil, mops) in [(2u8, 1u8), (4, 1), (1, 2), (1, 4), (2, 2), (4, 4), (1, 3)] {
        v.push((le(mil, mops, -5, 14), 4));
        v.push((le(mil, mops, -3, 9), 5));
    }
    v
}

impl Prop for C13 {
    fn id(&self) -> &'static str {
        "C13"
    }
    fn rule(&self) -> &'static str {
        "exhaustive grid: for 26 LineEncoding tuples (line_base -128..0, line_range 1..255 incl. >=128 and divisors of 243, min_inst_len {1,2,4}, max_ops {1,2,3,4}) every (line advance -300..300) x (operation advance 0..600) as a two-row sequence (quick tier: stride over line advances / op advances); random: programs of 1-5 sequences x 0-30 rows with every row field varied, begin_sequence(Some/None)/set_address/implicit starts, a mid-sequence set_address re-stating the current address, end offsets, directories/files with duplicate names, all optional FileInfo fields and file_has_* switches, string forms inline/.debug_line_str/.debug_str, versions 2-5 x formats x address sizes 1/2/4/8 x byte order. Oracle: the generated rows themselves, read back through gimli's reader and, independently, through the harness's own line-number state machine run over the emitted program bytes; file table entries resolved through the emitted string sections. Non-trivial = the writer had to choose a non-default opcode (special with operation advance, const_add_pc, advance_pc or advance_line fallback), decoded from the output; distinct by choice string / by grid cell. Later additions: a mid-sequence set_address after a row with a non-zero op_index; get_file_info; no refusal tolerated for uniformly formed embedded sources."
    }
    fn assumptions(&self) -> Vec<&'static str> {
        vec![
            "documented preconditions respected: line_base <= 0, line_base + line_range > 0, address offsets multiples of min_inst_len and non-decreasing, op_index < max_ops and non-decreasing within one instruction, names without NUL and non-empty",
            "line numbers below 2^63 (a single DW_LNS_advance_line operand is an i64)",
            "a mid-sequence set_address is only used to re-state the current address (base + offset of the previous row), where both readings of `address_offset` agree",
            "registers of an end_sequence row other than address and op_index are not compared (the API uses only those two)",
        ]
    }
    fn max_len(&self) -> usize {
        600
    }
    fn cases(&self, tier: Tier, dev: bool) -> u64 {
        match (tier, dev) {
            (Tier::Quick, false) => 60_000,
            (Tier::Quick, true) => 8_000,
            (Tier::Thorough, false) => 3_000_000,
            (Tier::Thorough, true) => 300_000,
        }
    }
    fn run_case(&self, ch: &mut Choices, cx: &mut Ctx) -> R {
        let s = gen_spec(ch);
        cx.sample_with(|| format!("v{} {} addr{} {:?} forms dir={:?} file={:?} src={:?} flags ts={} size={} md5={} source={} dirs={} files={} seqs={:?}", s.version, if s.format64 { "dwarf64" } else { "dwarf32" }, s.address_size, s.lenc, s.dir_form, s.file_form, s.src_form, s.has_ts, s.has_size, s.has_md5, s.has_source, s.dirs.len(), s.files.len(), s.seqs.iter().map(|q| (format!("{:?}", q.begin), q.rows.len(), q.end_offset)).collect::<Vec<_>>()));
        check_spec(&s, cx)
    }
    fn exhaustive(&self, tier: Tier, dev: bool, shard: usize, nshards: usize, ex: &mut Exhaust) {
        let encs = grid_encodings();
        let (la_step, oa_step) = match (tier, dev) {
            (Tier::Thorough, false) => (1, 1),
            (Tier::Thorough, true) => (3, 2),
            (Tier::Quick, false) => (5, 3),
            (Tier::Quick, true) => (25, 7),
        };
        let mut total = 0u64;
        let mut work = 0usize;
        for (ei, (lenc, version)) in encs.iter().enumerate() {
            let mut la = -300i64 + (ei as i64 % la_step as i64);
            while la <= 300 {
                work += 1;
                if work % nshards == shard {
                    let r = catch("grid", || grid_block(*lenc, *version, la, oa_step)).and_then(|r| r);
                    match r {
                        Ok(n) => total += n,
                        Err(e) => {
                            let mut data = vec![ei as u8];
                            data.extend_from_slice(&la.to_le_bytes());
                            data.push(oa_step as u8);
                            ex.fail("grid", &data, e);
                            if ex.stop {
                                return;
                            }
                        }
                    }
                }
                la += la_step as i64;
            }
        }
        ex.tally(total, total, "exhaustive-grid-cells");
        if la_step == 1 && oa_step == 1 {
            ex.complete("26 LineEncoding tuples x line advance -300..=300 x operation advance 0..=600");
        }
        ex.sample("grid cell: LineEncoding{line_base:-10,line_range:243,min_inst_len:1,max_ops:1} line advance +7, operation advance 1 -> two-row sequence read back".to_string());
    }
    fn replay_special(&self, mode: &str, data: &[u8], cx: &mut Ctx) -> R {
        if mode != "grid" {
            fail!("replay/unknown-mode", "{}", mode);
        }
        let encs = grid_encodings();
        let (lenc, version) = encs[data[0] as usize];
        let mut a = [0u8; 8];
        a.copy_from_slice(&data[1..9]);
        let la = i64::from_le_bytes(a);
        cx.say(|| format!("grid block {:?} v{} line advance {}", lenc, version, la));
        grid_block(lenc, version, la, data[9].max(1) as usize).map(|_| ())
    }
}
