//! C07 — expression decoding and evaluation equal the DWARF stack machine.
use crate::core::*;
use crate::enc::{mask, Cfg};
use crate::exprvm::*;
use crate::{ensure, ensure_eq, fail};
use gimli::{EndianSlice, Evaluation, EvaluationResult, EvaluationStorage, Location, Operation, Piece, Reader, RunTimeEndian, Value};

pub struct C07;

type Rdr<'a> = EndianSlice<'a, RunTimeEndian>;

// ---------------------------------------------------------------------------
// canonical text of decoded operations (gimli side vs model side)
// ---------------------------------------------------------------------------

pub fn canon_gimli(op: &Operation<Rdr>) -> String {
    use gimli::DieReference as DR;
    match op {
        Operation::Deref { base_type, size, space } => format!("Deref(base={},size={},space={})", base_type.0, size, space),
        Operation::Drop => "Drop".into(),
        Operation::Pick { index } => format!("Pick({})", index),
        Operation::Swap => "Swap".into(),
        Operation::Rot => "Rot".into(),
        Operation::Abs => "Abs".into(),
        Operation::And => "And".into(),
        Operation::Div => "Div".into(),
        Operation::Minus => "Minus".into(),
        Operation::Mod => "Mod".into(),
        Operation::Mul => "Mul".into(),
        Operation::Neg => "Neg".into(),
        Operation::Not => "Not".into(),
        Operation::Or => "Or".into(),
        Operation::Plus => "Plus".into(),
        Operation::PlusConstant { value } => format!("PlusConstant({})", value),
        Operation::Shl => "Shl".into(),
        Operation::Shr => "Shr".into(),
        Operation::Shra => "Shra".into(),
        Operation::Xor => "Xor".into(),
        Operation::Bra { target } => format!("Bra({})", target),
        Operation::Eq => "Eq".into(),
        Operation::Ge => "Ge".into(),
        Operation::Gt => "Gt".into(),
        Operation::Le => "Le".into(),
        Operation::Lt => "Lt".into(),
        Operation::Ne => "Ne".into(),
        Operation::Skip { target } => format!("Skip({})", target),
        Operation::UnsignedConstant { value } => format!("Const({})", value),
        Operation::SignedConstant { value } => format!("Const({})", *value as u64),
        Operation::Register { register } => format!("Register({})", register.0),
        Operation::RegisterOffset { register, offset, base_type } => format!("RegisterOffset(reg={},off={},base={})", register.0, offset, base_type.0),
        Operation::FrameOffset { offset } => format!("FrameOffset({})", offset),
        Operation::Nop => "Nop".into(),
        Operation::PushObjectAddress => "PushObjectAddress".into(),
        Operation::Call { offset: DR::UnitRef(o) } => format!("Call(unit,{})", o.0),
        Operation::Call { offset: DR::DebugInfoRef(o) } => format!("Call(info,{})", o.0),
        Operation::VariableValue { offset } => format!("VariableValue({})", offset.0),
        Operation::TLS => "TLS".into(),
        Operation::CallFrameCFA => "CallFrameCFA".into(),
        Operation::Piece { size_in_bits, bit_offset } => format!("Piece(bits={},off={:?})", size_in_bits, bit_offset),
        Operation::ImplicitValue { data } => format!("ImplicitValue({:02x?})", data.slice()),
        Operation::StackValue => "StackValue".into(),
        Operation::ImplicitPointer { value, byte_offset } => format!("ImplicitPointer({},{})", value.0, byte_offset),
        Operation::EntryValue { expression } => format!("EntryValue({:02x?})", expression.slice()),
        Operation::ParameterRef { offset } => format!("ParameterRef({})", offset.0),
        Operation::Address { address } => format!("Address({})", address),
        Operation::AddressIndex { index } => format!("AddressIndex({})", index.0),
        Operation::ConstantIndex { index } => format!("ConstantIndex({})", index.0),
        Operation::TypedLiteral { base_type, value } => format!("TypedLiteral({},{:02x?})", base_type.0, value.slice()),
        Operation::Convert { base_type } => format!("Convert({})", base_type.0),
        Operation::Reinterpret { base_type } => format!("Reinterpret({})", base_type.0),
        Operation::Uninitialized => "Uninitialized".into(),
        Operation::WasmLocal { index } => format!("WasmLocal({})", index),
        Operation::WasmGlobal { index } => format!("WasmGlobal({})", index),
        Operation::WasmStack { index } => format!("WasmStack({})", index),
    }
}

/// The canonical operation the standard assigns to a model op, or None when the
/// numeric result is outside what the decoded form can represent (8*size overflow).
pub fn canon_model(op: &MOp, cfg: &Cfg) -> Option<String> {
    let a = cfg.address_size;
    Some(match op {
        MOp::Addr(v) => format!("Address({})", v),
        MOp::Lit(n) => format!("Const({})", n),
        MOp::Const(_, v) => format!("Const({})", v),
        MOp::Dup => "Pick(0)".into(),
        MOp::Drop => "Drop".into(),
        MOp::Over => "Pick(1)".into(),
        MOp::Pick(i) => format!("Pick({})", i),
        MOp::Swap => "Swap".into(),
        MOp::Rot => "Rot".into(),
        MOp::Abs => "Abs".into(),
        MOp::And => "And".into(),
        MOp::Div => "Div".into(),
        MOp::Minus => "Minus".into(),
        MOp::Mod => "Mod".into(),
        MOp::Mul => "Mul".into(),
        MOp::Neg => "Neg".into(),
        MOp::Not => "Not".into(),
        MOp::Or => "Or".into(),
        MOp::Plus => "Plus".into(),
        MOp::PlusUconst(v) => format!("PlusConstant({})", v),
        MOp::Shl => "Shl".into(),
        MOp::Shr => "Shr".into(),
        MOp::Shra => "Shra".into(),
        MOp::Xor => "Xor".into(),
        MOp::Eq => "Eq".into(),
        MOp::Ge => "Ge".into(),
        MOp::Gt => "Gt".into(),
        MOp::Le => "Le".into(),
        MOp::Lt => "Lt".into(),
        MOp::Ne => "Ne".into(),
        MOp::Skip(t) => format!("Skip({})", t),
        MOp::Bra(t) => format!("Bra({})", t),
        MOp::Deref => format!("Deref(base=0,size={},space=false)", a),
        MOp::DerefSize(s) => format!("Deref(base=0,size={},space=false)", s),
        MOp::XDeref => format!("Deref(base=0,size={},space=true)", a),
        MOp::XDerefSize(s) => format!("Deref(base=0,size={},space=true)", s),
        MOp::DerefType(s, t, _) => format!("Deref(base={},size={},space=false)", t, s),
        MOp::XDerefType(s, t) => format!("Deref(base={},size={},space=true)", t, s),
        MOp::Reg(r) => format!("Register({})", r),
        MOp::Regx(r) => format!("Register({})", r),
        MOp::Breg(r, o) => format!("RegisterOffset(reg={},off={},base=0)", r, o),
        MOp::Bregx(r, o) => format!("RegisterOffset(reg={},off={},base=0)", r, o),
        MOp::RegvalType(r, t, _) => format!("RegisterOffset(reg={},off=0,base={})", r, t),
        MOp::Fbreg(o) => format!("FrameOffset({})", o),
        MOp::Piece(s) => {
            if *s > u64::MAX / 8 {
                return None;
            }
            format!("Piece(bits={},off=None)", s * 8)
        }
        MOp::BitPiece(s, o) => format!("Piece(bits={},off={:?})", s, Some(*o)),
        MOp::ImplicitValue(b) => format!("ImplicitValue({:02x?})", &b[..]),
        MOp::StackValue => "StackValue".into(),
        MOp::ImplicitPointer(v, o, _) => format!("ImplicitPointer({},{})", v, o),
        MOp::Nop => "Nop".into(),
        MOp::PushObjectAddress => "PushObjectAddress".into(),
        MOp::Call2(v) => format!("Call(unit,{})", v),
        MOp::Call4(v) => format!("Call(unit,{})", v),
        MOp::CallRef(v) => format!("Call(info,{})", v),
        MOp::Tls(_) => "TLS".into(),
        MOp::CallFrameCfa => "CallFrameCFA".into(),
        MOp::EntryValue(b, _) => format!("EntryValue({:02x?})", &b[..]),
        MOp::ParameterRef(v) => format!("ParameterRef({})", v),
        MOp::Addrx(v, _) => format!("AddressIndex({})", v),
        MOp::Constx(v, _) => format!("ConstantIndex({})", v),
        MOp::ConstType(t, b, _) => format!("TypedLiteral({},{:02x?})", t, &b[..]),
        MOp::Convert(t, _) => format!("Convert({})", t),
        MOp::Reinterpret(t, _) => format!("Reinterpret({})", t),
        MOp::VariableValue(v) => format!("VariableValue({})", v),
        MOp::Uninit => "Uninitialized".into(),
        MOp::Wasm(0, i) => format!("WasmLocal({})", i),
        MOp::Wasm(2, i) => format!("WasmStack({})", i),
        MOp::Wasm(_, i) => format!("WasmGlobal({})", i),
        MOp::Unknown(_) => return None,
    })
}

fn errname(e: &gimli::Error) -> String {
    let s = format!("{:?}", e);
    match s.find('(') {
        Some(i) => s[..i].to_string(),
        None => s,
    }
}

// ---------------------------------------------------------------------------
// generators
// ---------------------------------------------------------------------------

fn gen_value(ch: &mut Choices, addr: u8) -> MV {
    let ty = ALL_TYS[ch.weighted(&[8, 1, 1, 1, 1, 1, 1, 1, 1, 1, 1])];
    match ty {
        Ty::F32 => {
            let f = match ch.below(6) {
                0 => 0.0f32,
                1 => -1.5,
                2 => f32::NAN,
                3 => f32::INFINITY,
                4 => 3.0e9,
                _ => f32::from_bits(ch.u32()),
            };
            MV { ty, bits: f.to_bits() as u64 }
        }
        Ty::F64 => {
            let f = match ch.below(6) {
                0 => 0.0f64,
                1 => -2.25,
                2 => f64::NAN,
                3 => f64::NEG_INFINITY,
                4 => 1.0e19,
                _ => f64::from_bits(ch.u64()),
            };
            MV { ty, bits: f.to_bits() }
        }
        Ty::Gen => MV::gen(ch.biased(8 * addr as u32), addr),
        t => MV::int(t, ch.biased(t.bits(addr)), addr),
    }
}

fn gen_leaf_op(ch: &mut Choices, cfg: &Cfg, depth: u32) -> MOp {
    let a = cfg.address_size;
    let abits = 8 * a as u32;
    match ch.below(64) {
        0..=5 => MOp::Lit(ch.below(32) as u8),
        6..=9 => {
            let k = ch.below(10) as u8;
            let bits = [8, 8, 16, 16, 32, 32, 64, 64, 64, 64][k as usize];
            let v = ch.biased(bits);
            // signed kinds carry sign-extended values
            let v = match k {
                1 => v as u8 as i8 as i64 as u64,
                3 => v as u16 as i16 as i64 as u64,
                5 => v as u32 as i32 as i64 as u64,
                _ => v,
            };
            MOp::Const(k, v)
        }
        10 => MOp::Addr(ch.biased(abits)),
        11 => MOp::Dup,
        12 => MOp::Drop,
        13 => MOp::Over,
        14 => MOp::Pick(ch.below(4) as u8),
        15 => MOp::Swap,
        16 => MOp::Rot,
        17 => MOp::Abs,
        18 => MOp::And,
        19 => MOp::Div,
        20 => MOp::Minus,
        21 => MOp::Mod,
        22 => MOp::Mul,
        23 => MOp::Neg,
        24 => MOp::Not,
        25 => MOp::Or,
        26 => MOp::Plus,
        27 => MOp::PlusUconst(ch.biased(64)),
        28 => MOp::Shl,
        29 => MOp::Shr,
        30 => MOp::Shra,
        31 => MOp::Xor,
        32 => [MOp::Eq, MOp::Ge, MOp::Gt, MOp::Le, MOp::Lt, MOp::Ne][ch.below(6)].clone(),
        33 => MOp::Deref,
        34 => MOp::DerefSize(ch.pick(&[1u8, 2, 4, 8, 0, 3, 9])),
        35 => {
            if ch.bool() {
                MOp::XDeref
            } else {
                MOp::XDerefSize(ch.pick(&[1u8, 2, 4, 8, 16]))
            }
        }
        36 => {
            if ch.bool() {
                MOp::DerefType(ch.pick(&[1u8, 2, 4, 8]), ch.biased(16), ch.bool())
            } else {
                MOp::XDerefType(ch.pick(&[1u8, 2, 4, 8]), ch.biased(16))
            }
        }
        37 => MOp::Reg(ch.below(32) as u8),
        38 => MOp::Regx(ch.pick(&[0u64, 31, 32, 0xffff, 0x10000, 1 << 40])),
        39 => MOp::Breg(ch.below(32) as u8, ch.biased_signed(64)),
        40 => MOp::Bregx(ch.pick(&[0u64, 32, 0xffff, 0x10000]), ch.biased_signed(64)),
        41 => MOp::RegvalType(ch.pick(&[0u64, 33, 0xffff]), ch.biased(16), ch.bool()),
        42 => MOp::Fbreg(ch.biased_signed(64)),
        43 => MOp::Piece(ch.pick(&[0u64, 1, 4, 8, 1 << 20, (1 << 61) - 1])),
        44 => MOp::BitPiece(ch.biased(64), ch.biased(64)),
        45 => {
            let n = ch.below(5);
            MOp::ImplicitValue(ch.bytes(n))
        }
        46 => MOp::StackValue,
        47 => MOp::ImplicitPointer(ch.biased(if cfg.version == 2 { abits } else { 8 * cfg.word() as u32 }), ch.biased_signed(64), ch.bool()),
        48 => MOp::Nop,
        49 => MOp::PushObjectAddress,
        50 => match ch.below(3) {
            0 => MOp::Call2(ch.u16()),
            1 => MOp::Call4(ch.u32()),
            _ => MOp::CallRef(ch.biased(8 * cfg.word() as u32)),
        },
        51 => MOp::Tls(ch.bool()),
        52 => MOp::CallFrameCfa,
        53 => {
            let inner = if depth < 2 { gen_program(ch, cfg, depth + 1, 3) } else { vec![MOp::Reg(5)] };
            MOp::EntryValue(encode(&inner, cfg), ch.bool())
        }
        54 => MOp::ParameterRef(ch.u32()),
        55 => MOp::Addrx(ch.biased(64), ch.bool()),
        56 => MOp::Constx(ch.biased(64), ch.bool()),
        57 => {
            let n = ch.pick(&[0usize, 1, 2, 4, 8, 3, 16]);
            MOp::ConstType(ch.biased(16), ch.bytes(n), ch.bool())
        }
        58 => MOp::Convert(ch.biased(16), ch.bool()),
        59 => MOp::Reinterpret(ch.biased(16), ch.bool()),
        60 => {
            if ch.chance(40) {
                if ch.bool() {
                    MOp::VariableValue(ch.u32() as u64)
                } else {
                    MOp::Uninit
                }
            } else {
                MOp::Lit(1)
            }
        }
        61 => {
            if ch.chance(60) {
                MOp::Wasm(ch.below(4) as u8, ch.u32())
            } else {
                MOp::Lit(2)
            }
        }
        62 => {
            if ch.chance(30) {
                // an unknown opcode
                let mut b = ch.u8();
                while !is_unknown_opcode(b) {
                    b = b.wrapping_add(1);
                }
                MOp::Unknown(b)
            } else {
                MOp::Dup
            }
        }
        _ => MOp::Lit(0),
    }
}

fn gen_const(ch: &mut Choices, cfg: &Cfg) -> MOp {
    let abits = 8 * cfg.address_size as u32;
    match ch.below(4) {
        0 => MOp::Lit(ch.below(32) as u8),
        1 => MOp::Const(8, ch.biased(abits)),
        2 => MOp::Const(9, ch.biased_signed(abits.min(64)) as u64),
        _ => MOp::Const(6, ch.biased(64)),
    }
}

/// (operands needed, net stack change) of an operation, for the stack-aware generator
fn stack_effect(op: &MOp) -> (usize, i32) {
    match op {
        MOp::Addr(_) | MOp::Lit(_) | MOp::Const(..) | MOp::Fbreg(_) | MOp::Breg(..) | MOp::Bregx(..) | MOp::RegvalType(..) | MOp::PushObjectAddress | MOp::CallFrameCfa | MOp::EntryValue(..) | MOp::ParameterRef(_) | MOp::Addrx(..) | MOp::Constx(..) | MOp::ConstType(..) | MOp::Wasm(..) => (0, 1),
        MOp::Dup => (1, 1),
        MOp::Over => (2, 1),
        MOp::Pick(k) => (*k as usize + 1, 1),
        MOp::Drop | MOp::StackValue => (1, -1),
        MOp::Swap => (2, 0),
        MOp::Rot => (3, 0),
        MOp::Abs | MOp::Neg | MOp::Not | MOp::PlusUconst(_) | MOp::Convert(..) | MOp::Reinterpret(..) | MOp::Deref | MOp::DerefSize(_) | MOp::DerefType(..) | MOp::Tls(_) => (1, 0),
        MOp::XDeref | MOp::XDerefSize(_) | MOp::XDerefType(..) => (2, -1),
        MOp::And | MOp::Div | MOp::Minus | MOp::Mod | MOp::Mul | MOp::Or | MOp::Plus | MOp::Shl | MOp::Shr | MOp::Shra | MOp::Xor | MOp::Eq | MOp::Ge | MOp::Gt | MOp::Le | MOp::Lt | MOp::Ne => (2, -1),
        MOp::Piece(_) | MOp::BitPiece(..) => (0, -1),
        _ => (0, 0),
    }
}

/// A program of up to `max` ops with branches resolved to op boundaries (mostly).
pub fn gen_program(ch: &mut Choices, cfg: &Cfg, depth: u32, max: usize) -> Vec<MOp> {
    let n = if max <= 1 { 1 } else { 1 + ch.below(max) };
    let mut ops: Vec<MOp> = Vec::with_capacity(n);
    let mut branch_to: Vec<(usize, Option<usize>)> = Vec::new(); // (op index, target op index or None = raw)
    let mut est_depth: i32 = 0;
    for _ in 0..n {
        let i = ops.len();
        if ch.chance(28) {
            let is_bra = ch.bool();
            if is_bra {
                if est_depth < 1 && !ch.chance(24) {
                    let c = gen_const(ch, cfg);
                    ops.push(c);
                } else {
                    est_depth -= 1;
                }
            }
            let i = ops.len();
            let target = match ch.below(8) {
                0 => None,
                1 => Some(n),                          // to the end
                2 => Some(i + 1),                      // fall through
                3 | 4 => Some(ch.below(i + 1)),        // backward
                _ => Some(i + 1 + ch.below(n - i)),    // forward
            };
            let raw = ch.range(-12, 12) as i16;
            ops.push(if is_bra { MOp::Bra(raw) } else { MOp::Skip(raw) });
            branch_to.push((i, target));
        } else {
            let op = gen_leaf_op(ch, cfg, depth);
            // stack-aware: usually supply the operands an operation needs, so that programs get past their first op
            let (need, delta) = stack_effect(&op);
            if (est_depth as i64) < need as i64 && !ch.chance(24) {
                for _ in 0..(need - est_depth.max(0) as usize).min(3) {
                    if ops.len() + 1 < n {
                        let c = gen_const(ch, cfg);
                        ops.push(c);
                        est_depth += 1;
                    }
                }
            }
            est_depth = (est_depth + delta).max(0);
            let is_loc = matches!(&op, MOp::Reg(_) | MOp::Regx(_) | MOp::ImplicitValue(_) | MOp::StackValue | MOp::ImplicitPointer(..));
            ops.push(op);
            // a location is usually followed by a piece (or is the last operation)
            if is_loc && ops.len() < n && !ch.chance(40) {
                ops.push(if ch.bool() { MOp::Piece(ch.pick(&[0u64, 1, 2, 4, 8, 1 << 20])) } else { MOp::BitPiece(ch.biased(16), ch.biased(8)) });
            }
        }
        if ops.len() >= n {
            break;
        }
    }
    let n = ops.len();
    branch_to.retain(|(i, _)| *i < n);
    // resolve targets: byte offset of op k
    let mut offs = Vec::with_capacity(n + 1);
    let mut o = 0usize;
    for op in &ops {
        offs.push(o);
        o += op_len(op, cfg);
    }
    offs.push(o);
    for (i, t) in branch_to {
        if let Some(t) = t {
            let after = offs[i] + 3;
            let d = offs[t.min(n)] as i64 - after as i64;
            if d >= i16::MIN as i64 && d <= i16::MAX as i64 {
                ops[i] = match &ops[i] {
                    MOp::Bra(_) => MOp::Bra(d as i16),
                    _ => MOp::Skip(d as i16),
                };
            }
        }
    }
    ops
}

// ---------------------------------------------------------------------------
// answers
// ---------------------------------------------------------------------------

struct AnswerSource {
    values: Vec<MV>,
    u64s: Vec<u64>,
    codes: Vec<Vec<u8>>,
    types: Vec<Ty>,
    i: usize,
}

impl AnswerSource {
    fn gen(ch: &mut Choices, cfg: &Cfg) -> AnswerSource {
        let a = cfg.address_size;
        let values = (0..4).map(|_| gen_value(ch, a)).collect();
        let u64s = (0..3).map(|_| ch.biased(64)).collect();
        let mut codes = Vec::new();
        for _ in 0..3 {
            if ch.chance(60) {
                codes.push(Vec::new());
            } else {
                let p = gen_program(ch, cfg, 1, 4);
                codes.push(encode(&p, cfg));
            }
        }
        let types = (0..3).map(|_| ALL_TYS[ch.below(ALL_TYS.len())]).collect();
        AnswerSource { values, u64s, codes, types, i: 0 }
    }
    fn answer(&mut self, req: &Req) -> Answer {
        self.i += 1;
        let i = self.i;
        match req {
            Req::Memory { .. } | Req::Register { .. } | Req::EntryValue(_) | Req::WasmLocal(_) | Req::WasmGlobal(_) | Req::WasmStack(_) => Answer::Value(self.values[i % self.values.len()]),
            Req::FrameBase | Req::Tls(_) | Req::Cfa | Req::ParameterRef(_) | Req::RelocatedAddress(_) | Req::IndexedAddress { .. } => Answer::U64(self.u64s[i % self.u64s.len()]),
            Req::AtLocation { .. } => Answer::Bytes(self.codes[i % self.codes.len()].clone()),
            Req::BaseType(_) => Answer::Type(self.types[i % self.types.len()]),
        }
    }
}

// ---------------------------------------------------------------------------
// driving gimli
// ---------------------------------------------------------------------------

fn req_of_gimli(r: &EvaluationResult<Rdr>) -> Option<Req> {
    use gimli::DieReference as DR;
    Some(match r {
        EvaluationResult::Complete => return None,
        EvaluationResult::RequiresMemory { address, size, space, base_type } => Req::Memory { address: *address, size: *size, space: *space, base_type: base_type.0 as u64 },
        EvaluationResult::RequiresRegister { register, base_type } => Req::Register { register: register.0 as u64, base_type: base_type.0 as u64 },
        EvaluationResult::RequiresFrameBase => Req::FrameBase,
        EvaluationResult::RequiresTls(v) => Req::Tls(*v),
        EvaluationResult::RequiresCallFrameCfa => Req::Cfa,
        EvaluationResult::RequiresAtLocation(DR::UnitRef(o)) => Req::AtLocation { unit_ref: true, offset: o.0 as u64 },
        EvaluationResult::RequiresAtLocation(DR::DebugInfoRef(o)) => Req::AtLocation { unit_ref: false, offset: o.0 as u64 },
        EvaluationResult::RequiresEntryValue(e) => Req::EntryValue(e.0.slice().to_vec()),
        EvaluationResult::RequiresParameterRef(o) => Req::ParameterRef(o.0 as u64),
        EvaluationResult::RequiresRelocatedAddress(a) => Req::RelocatedAddress(*a),
        EvaluationResult::RequiresIndexedAddress { index, relocate } => Req::IndexedAddress { index: index.0 as u64, relocate: *relocate },
        EvaluationResult::RequiresBaseType(o) => Req::BaseType(o.0 as u64),
        EvaluationResult::RequiresWasmLocal { index } => Req::WasmLocal(*index),
        EvaluationResult::RequiresWasmGlobal { index } => Req::WasmGlobal(*index),
        EvaluationResult::RequiresWasmStack { index } => Req::WasmStack(*index),
    })
}

#[derive(Debug)]
enum GEnd {
    Complete(Vec<MPiece>, Option<MV>),
    Err(String),
}

fn mloc_of(l: &Location<Rdr>, addr: u8) -> MLoc {
    match l {
        Location::Empty => MLoc::Empty,
        Location::Register { register } => MLoc::Register(register.0 as u64),
        Location::Address { address } => MLoc::Address(*address),
        Location::Value { value } => MLoc::Value(MV::from_gimli(*value, addr)),
        Location::Bytes { value } => MLoc::Bytes(value.slice().to_vec()),
        Location::ImplicitPointer { value, byte_offset } => MLoc::ImplicitPointer(value.0 as u64, *byte_offset),
    }
}

fn pieces_of(ps: &[Piece<Rdr>], addr: u8) -> Vec<MPiece> {
    ps.iter().map(|p| MPiece { size_in_bits: p.size_in_bits, bit_offset: p.bit_offset, loc: mloc_of(&p.location, addr) }).collect()
}

/// Drive a gimli evaluation with the exchanges recorded by the model. Returns
/// how it ended and checks each request against the model's.
fn drive<'a, S: EvaluationStorage<Rdr<'a>>>(
    mut ev: Evaluation<Rdr<'a>, S>,
    cfg: &Cfg,
    exchanges: &'a [(Req, Answer)],
    endian: RunTimeEndian,
    strict_requests: bool,
) -> R<(GEnd, usize)> {
    let addr = cfg.address_size;
    let mut res = ev.evaluate();
    let mut i = 0usize;
    loop {
        match res {
            Err(e) => return Ok((GEnd::Err(errname(&e)), i)),
            Ok(EvaluationResult::Complete) => {
                let pieces = pieces_of(ev.as_result(), addr);
                let vr = ev.value_result().map(|v| MV::from_gimli(v, addr));
                return Ok((GEnd::Complete(pieces, vr), i));
            }
            Ok(ref r) => {
                let req = req_of_gimli(r).unwrap();
                let Some((mreq, ans)) = exchanges.get(i) else {
                    if strict_requests {
                        fail!("c07/extra-request", "gimli asks {:?} after the model's run had ended ({} exchanges)", req, exchanges.len());
                    }
                    return Ok((GEnd::Err("<<diverged>>".into()), i));
                };
                // generic addresses are compared modulo the address size
                let same = match (&req, mreq) {
                    (Req::Memory { address: a1, size: s1, space: sp1, base_type: b1 }, Req::Memory { address: a2, size: s2, space: sp2, base_type: b2 }) => a1 == a2 && s1 == s2 && sp1 == sp2 && b1 == b2,
                    (a, b) => a == b,
                };
                if !same {
                    if strict_requests {
                        fail!("c07/request-mismatch", "exchange #{}: gimli asks {:?}, the DWARF machine asks {:?}", i, req, mreq);
                    }
                    return Ok((GEnd::Err("<<diverged>>".into()), i));
                }
                i += 1;
                res = match (r, ans) {
                    (EvaluationResult::RequiresMemory { .. }, Answer::Value(v)) => ev.resume_with_memory(v.to_gimli()),
                    (EvaluationResult::RequiresRegister { .. }, Answer::Value(v)) => ev.resume_with_register(v.to_gimli()),
                    (EvaluationResult::RequiresEntryValue(_), Answer::Value(v)) => ev.resume_with_entry_value(v.to_gimli()),
                    (EvaluationResult::RequiresWasmLocal { .. } | EvaluationResult::RequiresWasmGlobal { .. } | EvaluationResult::RequiresWasmStack { .. }, Answer::Value(v)) => ev.resume_with_wasm_value(v.to_gimli()),
                    (EvaluationResult::RequiresFrameBase, Answer::U64(v)) => ev.resume_with_frame_base(*v),
                    (EvaluationResult::RequiresTls(_), Answer::U64(v)) => ev.resume_with_tls(*v),
                    (EvaluationResult::RequiresCallFrameCfa, Answer::U64(v)) => ev.resume_with_call_frame_cfa(*v),
                    (EvaluationResult::RequiresParameterRef(_), Answer::U64(v)) => ev.resume_with_parameter_ref(*v),
                    (EvaluationResult::RequiresRelocatedAddress(_), Answer::U64(v)) => ev.resume_with_relocated_address(*v),
                    (EvaluationResult::RequiresIndexedAddress { .. }, Answer::U64(v)) => ev.resume_with_indexed_address(*v),
                    (EvaluationResult::RequiresAtLocation(_), Answer::Bytes(b)) => ev.resume_with_at_location(EndianSlice::new(&b[..], endian)),
                    (EvaluationResult::RequiresBaseType(_), Answer::Type(t)) => ev.resume_with_base_type(t.to_gimli()),
                    (r, a) => fail!("c07/harness/answer-kind", "{:?} vs {:?}", r, a),
                };
            }
        }
    }
}

fn pieces_equal(g: &[MPiece], m: &[MPiece], addr: u8) -> bool {
    if g.len() != m.len() {
        return false;
    }
    g.iter().zip(m.iter()).all(|(a, b)| {
        a.size_in_bits == b.size_in_bits
            && a.bit_offset == b.bit_offset
            && match (&a.loc, &b.loc) {
                (MLoc::Value(x), MLoc::Value(y)) => x.same(*y),
                (MLoc::Address(x), MLoc::Address(y)) => x == y || (x & mask(addr)) == (y & mask(addr)) && false,
                (x, y) => x == y,
            }
    })
}

struct Fixed4;
impl<'a> EvaluationStorage<Rdr<'a>> for Fixed4 {
    type Stack = [Value; 4];
    type ExpressionStack = [(Rdr<'a>, Rdr<'a>); 2];
    type Result = [Piece<Rdr<'a>>; 2];
}
struct Fixed2;
impl<'a> EvaluationStorage<Rdr<'a>> for Fixed2 {
    type Stack = [Value; 2];
    type ExpressionStack = [(Rdr<'a>, Rdr<'a>); 1];
    type Result = [Piece<Rdr<'a>>; 1];
}

pub fn default_answer(req: &Req) -> Answer {
    match req {
        Req::Memory { .. } | Req::Register { .. } | Req::EntryValue(_) | Req::WasmLocal(_) | Req::WasmGlobal(_) | Req::WasmStack(_) => Answer::Value(MV { ty: Ty::Gen, bits: 5 }),
        Req::FrameBase | Req::Tls(_) | Req::Cfa | Req::ParameterRef(_) | Req::RelocatedAddress(_) | Req::IndexedAddress { .. } => Answer::U64(7),
        Req::AtLocation { .. } => Answer::Bytes(Vec::new()),
        Req::BaseType(_) => Answer::Type(Ty::U8),
    }
}

/// Base types: which value type a base type entry (encoding, byte size) stands for - what a caller answers a
/// base-type request with. Every encoding 0..=0x14 (and two vendor values) x byte sizes, through
/// `ValueType::from_encoding` and through `ValueType::from_entry` on assembled DW_TAG_base_type entries.
fn check_value_types(cx: &mut Ctx) -> R {
    use crate::dieasm::{build_info, Abbrev, DieSpec, UnitKind, UnitSpec, AV, F_DATA1};
    use gimli::ValueType as VT;
    let model = |enc: u8, size: u64| -> Option<VT> {
        Some(match (enc, size) {
            (0x05, 1) => VT::I8,
            (0x05, 2) => VT::I16,
            (0x05, 4) => VT::I32,
            (0x05, 8) => VT::I64,
            (0x07, 1) => VT::U8,
            (0x07, 2) => VT::U16,
            (0x07, 4) => VT::U32,
            (0x07, 8) => VT::U64,
            (0x04, 4) => VT::F32,
            (0x04, 8) => VT::F64,
            _ => return None,
        })
    };
    let encs: Vec<u8> = (0u8..=0x14).chain([0x80u8, 0xff]).collect();
    let sizes = [0u64, 1, 2, 3, 4, 5, 8, 16, 255];
    for enc in &encs {
        for size in sizes {
            ensure_eq!(VT::from_encoding(gimli::DwAte(*enc), size), model(*enc, size), "c07/value-type/from_encoding", "encoding {:#x} size {}", enc, size);
            // the same through an entry: DW_TAG_base_type with byte_size and encoding, in either order, optionally with a
            // default or a non-default DW_AT_endianity, and once under another tag
            for variant in 0..5u8 {
                let mut attrs = vec![(0x0bu16, F_DATA1, 0i64), (0x3e, F_DATA1, 0)];
                let mut vals = vec![AV::U(size), AV::U(*enc as u64)];
                if variant == 1 {
                    attrs.reverse();
                    vals.reverse();
                }
                if variant == 2 {
                    attrs.push((0x65, F_DATA1, 0));
                    vals.push(AV::U(0));
                }
                if variant == 3 {
                    attrs.push((0x65, F_DATA1, 0));
                    vals.push(AV::U(1));
                }
                let tag = if variant == 4 { 0x16 } else { 0x24 };
                let cfg = Cfg { big: false, runtime_endian: true, address_size: 8, format64: false, version: 4 };
                let unit = UnitSpec {
                    cfg,
                    kind: UnitKind::Compile,
                    abbrevs: vec![Abbrev { code: 1, tag: 0x11, children: true, attrs: vec![] }, Abbrev { code: 2, tag, children: false, attrs }],
                    abbrev_group: 0,
                    root: DieSpec { id: 0, abbrev: 0, vals: vec![], children: vec![DieSpec { id: 1, abbrev: 1, vals, children: vec![] }] },
                    trailing_nulls: 0,
                };
                if size > 255 {
                    continue;
                }
                let built = build_info(std::slice::from_ref(&unit), false);
                let endian = RunTimeEndian::Little;
                let di = gimli::DebugInfo::new(&built.info, endian);
                let da = gimli::DebugAbbrev::new(&built.abbrev, endian);
                let header = di.units().next().ok().flatten().ok_or_else(|| Failure { sig: "c07/harness/value-type-unit".into(), detail: String::new() })?;
                let abbrevs = header.abbreviations(&da).map_err(|e| Failure { sig: "c07/harness/value-type-abbrevs".into(), detail: format!("{e:?}") })?;
                let mut cur = header.entries(&abbrevs);
                let _ = cur.next_dfs();
                let Ok(Some(entry)) = cur.next_dfs() else { fail!("c07/harness/value-type-entry", "") };
                let want = if variant == 4 || variant == 3 { None } else { model(*enc, size) };
                let got = VT::from_entry(entry).map_err(|e| Failure { sig: "c07/value-type/from_entry-error".into(), detail: format!("{e:?}") })?;
                ensure_eq!(got, want, "c07/value-type/from_entry", "encoding {:#x} size {} variant {}", enc, size, variant);
            }
        }
    }
    // bit sizes that reinterpret / typed literals rely on
    for (t, bits) in [(VT::I8, 8u32), (VT::U8, 8), (VT::I16, 16), (VT::U16, 16), (VT::I32, 32), (VT::U32, 32), (VT::F32, 32), (VT::I64, 64), (VT::U64, 64), (VT::F64, 64)] {
        ensure_eq!(t.bit_size(0xffff_ffff), bits, "c07/value-type/bit_size", "{:?}", t);
    }
    for (mask, bits) in [(0xffu64, 8u32), (0xffff, 16), (0xffff_ffff, 32), (u64::MAX, 64)] {
        ensure_eq!(VT::Generic.bit_size(mask), bits, "c07/value-type/bit_size-generic", "mask {:#x}", mask);
    }
    cx.nt();
    Ok(())
}

pub struct ExprCase {
    pub cfg: Cfg,
    pub code: Vec<u8>,
    pub object_address: Option<u64>,
    pub initial_value: Option<u64>,
}

/// Check decoding of every operation in the byte string (linear sweep) against the model decoder.
pub fn check_decode(code: &[u8], cfg: &Cfg, cx: &mut Ctx) -> R {
    let endian = cfg.endian();
    let enc = cfg.encoding();
    let mut pos = 0usize;
    let mut iter = gimli::Expression(EndianSlice::new(code, endian)).operations(enc);
    let whole = gimli::Expression(EndianSlice::new(code, endian));
    crate::std_iter_agrees!(gimli::Expression(EndianSlice::new(code, endian)).operations(enc), |o: &Operation<Rdr>| canon_gimli(o), "c07/decode/std-iterator");
    while pos < code.len() {
        let m = decode_op(code, pos, cfg);
        // Operation::parse at this position
        let mut r = EndianSlice::new(&code[pos..], endian);
        let g = Operation::parse(&mut r, enc);
        let consumed = code.len() - pos - r.len();
        ensure_eq!(iter.offset_from(&whole), pos, "c07/decode/iter-offset");
        let gi = iter.next();
        match (&m, &g) {
            (Ok((mop, len)), Ok(gop)) => {
                match canon_model(mop, cfg) {
                    Some(want) => {
                        ensure_eq!(canon_gimli(gop), want, "c07/decode/operation", "bytes {:02x?} cfg {}", &code[pos..pos + len], cfg.describe());
                    }
                    None => {}
                }
                ensure_eq!(consumed, *len, "c07/decode/length", "bytes {:02x?}", &code[pos..pos + len]);
                match gi {
                    Ok(Some(ref op2)) => ensure_eq!(canon_gimli(op2), canon_gimli(gop), "c07/decode/iter-vs-parse"),
                    ref other => fail!("c07/decode/iter-vs-parse", "iterator gave {:?} where parse gave {:?}", other.as_ref().map(|o| o.as_ref().map(canon_gimli)), canon_gimli(gop)),
                }
                // zero-copy: sub-readers view the expression bytes at the right offset
                match gop {
                    Operation::ImplicitValue { data } | Operation::EntryValue { expression: data } | Operation::TypedLiteral { value: data, .. } => {
                        let off = data.slice().as_ptr() as usize - code.as_ptr() as usize;
                        ensure!(off >= pos && off + data.len() <= pos + len, "c07/decode/subreader-view", "sub-reader at {}+{} outside op at {}+{}", off, data.len(), pos, len);
                    }
                    _ => {}
                }
                pos += len;
            }
            (Err(DecErr::Unknown(_)), Err(gimli::Error::InvalidExpression(_))) => {
                cx.label("decode-unknown-opcode");
                ensure!(matches!(gi, Err(gimli::Error::InvalidExpression(_))), "c07/decode/iter-vs-parse", "iterator {:?}", gi.as_ref().map(|o| o.as_ref().map(canon_gimli)));
                break;
            }
            (Err(DecErr::Eof), Err(gimli::Error::UnexpectedEof(_))) => break,
            (Err(DecErr::Invalid), Err(_)) => break,
            (Ok((mop, _)), Err(e)) => {
                // piece size overflow is left open
                if canon_model(mop, cfg).is_none() {
                    break;
                }
                fail!("c07/decode/rejected", "at {}: model decodes {:?}, gimli returns {:?} (bytes {:02x?})", pos, mop, e, &code[pos..])
            }
            (Err(me), Ok(gop)) => fail!("c07/decode/accepted", "at {}: model says {:?}, gimli decodes {}", pos, me, canon_gimli(gop)),
            (Err(me), Err(ge)) => fail!("c07/decode/error-kind", "at {}: model says {:?}, gimli says {:?}", pos, me, ge),
        }
    }
    Ok(())
}

pub fn check_eval(case: &ExprCase, answers: &mut dyn FnMut(&Req) -> Answer, cx: &mut Ctx, deep: bool) -> R {
    let cfg = case.cfg;
    let addr = cfg.address_size;
    let endian = cfg.endian();
    let enc = cfg.encoding();
    let mut env = Env { cfg, object_address: case.object_address, initial_value: case.initial_value, answer: answers, fuel: 3000 };
    let out = run(&case.code, &mut env);
    fn mk_eval<'c>(code: &'c [u8], endian: RunTimeEndian, enc: gimli::Encoding, case: &ExprCase) -> Evaluation<Rdr<'c>> {
        let mut ev = Evaluation::new(EndianSlice::new(code, endian), enc);
        if let Some(v) = case.initial_value {
            ev.set_initial_value(v);
        }
        if let Some(v) = case.object_address {
            ev.set_object_address(v);
        }
        ev
    }
    let mk = |code| mk_eval(code, endian, enc, case);
    let exchanges = out.exchanges.clone();
    let m_max = out.ops_executed;
    let m_min = out.ops_executed - out.pairs;
    if out.ops_executed >= 3 {
        cx.label("ops>=3");
        if !exchanges.is_empty() || out.branches_taken > 0 || matches!(&out.end, Ok((p, _)) if p.len() >= 2) {
            cx.nt();
        }
    }
    if !exchanges.is_empty() {
        cx.label("suspends");
    }
    if out.branches_taken > 0 {
        cx.label("branch-taken");
    }
    if out.max_calls > 0 {
        cx.label("nested-call");
    }
    cx.say(|| format!("model: ops={} pairs={} exchanges={:?}\n  end={:?}", out.ops_executed, out.pairs, exchanges, out.end));

    match &out.end {
        Err(Stop::Fuel) => {
            cx.label("model-out-of-fuel(loop)");
            // the program loops: with a limit it must report the limit (or an error), never hang or complete
            let mut ev = mk(&case.code);
            ev.set_max_iterations(1000);
            let (g, _) = drive(ev, &cfg, &exchanges, endian, false)?;
            match g {
                GEnd::Err(e) if e == "TooManyIterations" => {}
                other => fail!("c07/limit/loop-not-stopped", "model needs > {} operations; gimli with max_iterations(1000) ended with {:?}", m_max, other),
            }
            return Ok(());
        }
        Err(Stop::Unspecified(why)) => {
            cx.label("unspecified-by-standard");
            let _ = why;
            // only "no panic, terminates"
            let mut ev = mk(&case.code);
            ev.set_max_iterations(4000);
            let _ = drive(ev, &cfg, &exchanges, endian, false)?;
            return Ok(());
        }
        _ => {}
    }

    // "unlimited" run must equal the model. A generous limit (far above what the model needed) keeps a
    // defective evaluator from looping forever inside the harness; hitting it is reported as a violation.
    let (g, used) = {
        let mut ev = mk(&case.code);
        ev.set_max_iterations(50_000);
        drive(ev, &cfg, &exchanges, endian, true)?
    };
    if matches!(&g, GEnd::Err(e) if e == "TooManyIterations") {
        fail!("c07/eval/does-not-terminate", "the DWARF machine finishes after {} operations; gimli is still running after 50000 iterations", m_max);
    }
    let judge = |g: &GEnd, what: &str| -> R {
        match (&out.end, g) {
            (Ok((mp, mv)), GEnd::Complete(gp, gv)) => {
                if !pieces_equal(gp, mp, addr) {
                    fail!(format!("c07/{}/pieces", what), "gimli {:?}\nmodel {:?}", gp, mp);
                }
                match (gv, mv) {
                    (Some(a), Some(b)) if a.same(*b) => {}
                    (None, None) => {}
                    _ => fail!(format!("c07/{}/value_result", what), "gimli {:?} model {:?}", gv, mv),
                }
                Ok(())
            }
            (Err(Stop::Err(kinds)), GEnd::Err(e)) => {
                if kinds.iter().any(|k| k == e) {
                    Ok(())
                } else {
                    fail!(format!("c07/{}/error-kind", what), "gimli {} model expects one of {:?}", e, kinds)
                }
            }
            (Ok(m), GEnd::Err(e)) => fail!(format!("c07/{}/unexpected-error", what), "gimli returns {} where the DWARF machine completes with {:?}", e, m),
            (Err(Stop::Err(kinds)), GEnd::Complete(p, v)) => fail!(format!("c07/{}/missed-error", what), "gimli completes with {:?} / {:?} where the DWARF machine reports {:?}", p, v, kinds),
            _ => Ok(()),
        }
    };
    judge(&g, "eval")?;
    if matches!(g, GEnd::Complete(..)) {
        ensure_eq!(used, exchanges.len(), "c07/eval/exchange-count", "gimli consumed fewer answers than the model");
    }
    if let Err(Stop::Err(k)) = &out.end {
        cx.label(match k[0] {
            "NotEnoughStackItems" => "err:NotEnoughStackItems",
            "DivisionByZero" => "err:DivisionByZero",
            "TypeMismatch" => "err:TypeMismatch",
            "IntegralTypeRequired" => "err:IntegralTypeRequired",
            "InvalidPiece" => "err:InvalidPiece",
            "InvalidExpressionTerminator" => "err:InvalidExpressionTerminator",
            "BadBranchTarget" => "err:BadBranchTarget",
            "InvalidDerefSize" => "err:InvalidDerefSize",
            "InvalidPushObjectAddress" => "err:InvalidPushObjectAddress",
            "InvalidExpression" => "err:InvalidExpression",
            _ => "err:other",
        });
    } else {
        cx.label("completes");
    }

    // iteration limits
    let limits: Vec<u64> = if deep {
        vec![0, 1, m_min.saturating_sub(1), m_min, m_max, m_max + 1, 100_000]
    } else {
        vec![m_min.saturating_sub(1), m_max]
    };
    for n in limits {
        if n > u32::MAX as u64 {
            continue;
        }
        let mut ev = mk(&case.code);
        ev.set_max_iterations(n as u32);
        let (gl, _) = drive(ev, &cfg, &exchanges, endian, false)?;
        let is_limit = matches!(&gl, GEnd::Err(e) if e == "TooManyIterations");
        if n >= m_max {
            if is_limit {
                fail!("c07/limit/premature", "max_iterations({}) >= {} operations executed, yet TooManyIterations", n, m_max);
            }
            judge(&gl, "limit-eval")?;
        } else if n < m_min {
            // fewer iterations than needed to reach the end (or the error)
            if !is_limit {
                fail!("c07/limit/exceeded", "max_iterations({}) but {} iterations are needed (ops {} pairs {}); ended with {:?}", n, m_min, m_max, out.pairs, gl);
            }
        } else if !is_limit {
            judge(&gl, "limit-eval")?;
        }
    }

    // fixed-capacity storage: same result, or StackFull only where a capacity is really exceeded
    if deep {
        let pieces_needed = match &out.end {
            Ok((p, _)) => p.len(),
            _ => usize::MAX,
        };
        {
            let mut ev: Evaluation<Rdr, Fixed4> = Evaluation::new_in(EndianSlice::new(&case.code[..], endian), enc);
            ev.set_max_iterations(50_000);
            if let Some(v) = case.initial_value {
                ev.set_initial_value(v);
            }
            if let Some(v) = case.object_address {
                ev.set_object_address(v);
            }
            let (gs, _) = drive(ev, &cfg, &exchanges, endian, false)?;
            if matches!(&gs, GEnd::Err(e) if e == "StackFull") {
                cx.label("fixed-storage-full");
                ensure!(out.max_stack > 4 || out.max_calls > 2 || pieces_needed > 2, "c07/storage/spurious-StackFull", "capacity (4 values, 2 calls, 2 pieces) not exceeded: max stack {} calls {} pieces {}", out.max_stack, out.max_calls, pieces_needed);
            } else {
                ensure!(out.max_stack <= 4 || !matches!(gs, GEnd::Complete(..)), "c07/storage/overflow-unreported", "model needs stack depth {} > 4 but evaluation completed", out.max_stack);
                judge(&gs, "storage4-eval")?;
            }
        }
        {
            let mut ev: Evaluation<Rdr, Fixed2> = Evaluation::new_in(EndianSlice::new(&case.code[..], endian), enc);
            ev.set_max_iterations(50_000);
            if let Some(v) = case.initial_value {
                ev.set_initial_value(v);
            }
            if let Some(v) = case.object_address {
                ev.set_object_address(v);
            }
            let (gs, _) = drive(ev, &cfg, &exchanges, endian, false)?;
            if matches!(&gs, GEnd::Err(e) if e == "StackFull") {
                ensure!(out.max_stack > 2 || out.max_calls > 1 || pieces_needed > 1, "c07/storage/spurious-StackFull", "capacity (2 values, 1 call, 1 piece) not exceeded: max stack {} calls {} pieces {}", out.max_stack, out.max_calls, pieces_needed);
            } else {
                ensure!(out.max_stack <= 2 || !matches!(gs, GEnd::Complete(..)), "c07/storage/overflow-unreported", "model needs stack depth {} > 2 but evaluation completed", out.max_stack);
                judge(&gs, "storage2-eval")?;
            }
        }
    }
    Ok(())
}

// ---------------------------------------------------------------------------
// exhaustive alphabet
// ---------------------------------------------------------------------------

fn alphabet(addr: u8) -> Vec<MOp> {
    let m = mask(addr);
    let mut v = vec![
        MOp::Dup, MOp::Drop, MOp::Over, MOp::Swap, MOp::Rot, MOp::Pick(2),
        MOp::Abs, MOp::And, MOp::Div, MOp::Minus, MOp::Mod, MOp::Mul, MOp::Neg, MOp::Not, MOp::Or, MOp::Plus,
        MOp::Shl, MOp::Shr, MOp::Shra, MOp::Xor, MOp::Eq, MOp::Ge, MOp::Gt, MOp::Le, MOp::Lt, MOp::Ne,
        MOp::Nop, MOp::StackValue, MOp::Piece(1), MOp::Reg(1),
        MOp::Skip(1), MOp::Skip(-4), MOp::Bra(1), MOp::Bra(-4), MOp::Bra(0), MOp::Skip(2),
        MOp::PlusUconst(m),
    ];
    let bits = 8 * addr as u32;
    let consts: Vec<u64> = vec![0, 1, 2, 7, 8, (bits - 1) as u64, bits as u64, bits as u64 + 1, m, m >> 1, (m >> 1) + 1, m - 1];
    for c in consts {
        v.push(if c < 32 { MOp::Lit(c as u8) } else { MOp::Const(6, c) });
    }
    v.push(MOp::Const(7, u64::MAX)); // const8s -1
    v.push(MOp::Const(6, 1u64 << 32 | 1)); // oversized for 4-byte targets
    v
}

impl Prop for C07 {
    fn id(&self) -> &'static str {
        "C07"
    }
    fn rule(&self) -> &'static str {
        "exhaustive: every program of length<=3 (thorough: <=4 in release) over a 51-symbol alphabet (all operand-free arithmetic/stack/compare ops, stack_value/piece/reg, skip/bra +-k, boundary constants for the address size) x address sizes 1/2/4/8; decode of every opcode byte 0x00..0xff with generated operands; random programs (<=24 ops, grammar with resolved and raw branch targets, pieces, calls with nested at_location programs, entry values, typed ops) with a scripted answer source for every Requires* kind. Oracle: independent decoder + DWARF stack machine (exprvm.rs); requests, pieces, value_result, error kinds compared; iteration limits {0,1,Mmin-1,Mmin,Mmax,Mmax+1,large}; fixed-capacity storages judged by refinement. Non-trivial = >=3 operations executed and (a suspension, a taken branch, or >=2 pieces); distinct by choice string / by program for enumerations. Later additions: typed programs ending in DW_OP_convert / DW_OP_reinterpret to any type with operands at the ends of the source type range; MIN / -1 wraps; the std Iterator view of the operation iterator."
    }
    fn assumptions(&self) -> Vec<&'static str> {
        vec![
            "results the standard leaves open are not compared (abs of MIN, MIN/-1, negative shift counts, shr of signed / shra,neg of unsigned typed values, float->int out of range, NaN comparisons, generic->float with top bit set, piece sizes whose bit count exceeds 64 bits, unterminated value after pieces following a suspending operation)",
            "every Requires* request is answered with the matching resume method (mismatch is a documented panic)",
            "generic values are compared modulo 2^(8*address_size)",
        ]
    }
    fn max_len(&self) -> usize {
        420
    }
    fn cases(&self, tier: Tier, dev: bool) -> u64 {
        match (tier, dev) {
            (Tier::Quick, false) => 150_000,
            (Tier::Quick, true) => 20_000,
            (Tier::Thorough, false) => 8_000_000,
            (Tier::Thorough, true) => 600_000,
        }
    }
    fn run_case(&self, ch: &mut Choices, cx: &mut Ctx) -> R {
        let mut cfg = Cfg::decode(ch);
        cfg.runtime_endian = true;
        let mode = ch.below(8);
        if mode == 0 {
            // decode-focused: one op of a chosen opcode byte with generated operands, then random tail
            cx.label("decode-mode");
            let opc = ch.u8();
            let mut code = vec![opc];
            let n = ch.below(14);
            code.extend(ch.bytes(n));
            if n >= 1 {
                cx.nt();
            }
            cx.sample_with(|| format!("decode {:02x?} under {}", code, cfg.describe()));
            return check_decode(&code, &cfg, cx);
        }
        if mode == 1 {
            // typed arithmetic, directed: two (or three) values of ONE type taken from registers - integers of every
            // width and signedness, floats incl. NaN, infinities, signed zeros - combined by every unary and binary
            // operation; now and then a value of another type (TypeMismatch) or a generic shift count
            cx.label("typed-arithmetic-mode");
            let a = cfg.address_size;
            let ty = ALL_TYS[ch.below(ALL_TYS.len())];
            let same = |ch: &mut Choices| -> MV {
                for _ in 0..64 {
                    let v = gen_value(ch, a);
                    if v.ty == ty {
                        return v;
                    }
                }
                match ty {
                    Ty::F32 => MV { ty, bits: ch.pick(&[f32::NAN.to_bits(), 0x8000_0000, 0x3f80_0000, f32::INFINITY.to_bits(), f32::NEG_INFINITY.to_bits(), 0x0000_0001]) as u64 },
                    Ty::F64 => MV { ty, bits: ch.pick(&[f64::NAN.to_bits(), 0x8000_0000_0000_0000, 0x3ff0_0000_0000_0000, f64::INFINITY.to_bits(), f64::NEG_INFINITY.to_bits(), 1]) },
                    Ty::Gen => MV::gen(ch.biased(8 * a as u32), a),
                    t => MV::int(t, ch.biased(t.bits(a)), a),
                }
            };
            let mut values: Vec<MV> = (0..4).map(|_| same(ch)).collect();
            if ch.chance(24) {
                let k = ch.below(4);
                values[k] = gen_value(ch, a);
            }
            const BIN: [MOp; 19] = [MOp::Plus, MOp::Minus, MOp::Mul, MOp::Div, MOp::Mod, MOp::And, MOp::Or, MOp::Xor, MOp::Shl, MOp::Shr, MOp::Shra, MOp::Eq, MOp::Ne, MOp::Ge, MOp::Gt, MOp::Le, MOp::Lt, MOp::Ge, MOp::Le];
            const UN: [MOp; 3] = [MOp::Abs, MOp::Neg, MOp::Not];
            let mut prog: Vec<MOp> = vec![MOp::RegvalType(1, 0x20, false), MOp::RegvalType(2, 0x20, false)];
            if ch.chance(60) {
                prog.push(UN[ch.below(3)].clone());
            }
            if ch.chance(40) {
                // shift by a generic count
                prog.pop();
                prog.push(MOp::Lit(ch.pick(&[0u8, 1, 7, 8, 15, 16, 31])));
            }
            prog.push(BIN[ch.below(BIN.len())].clone());
            if ch.chance(100) {
                prog.push(MOp::RegvalType(3, 0x20, false));
                prog.push(BIN[ch.below(BIN.len())].clone());
            }
            if ch.chance(60) {
                prog.push(UN[ch.below(3)].clone());
            }
            if ch.chance(70) {
                // an unsigned constant added to a value of whatever type is on top
                prog.push(MOp::PlusUconst(ch.pick(&[0u64, 1, 3, 127, 128, 255, 256, 0xffff_ffff, 1 << 32, u64::MAX])));
            }
            // values at the ends of the type's range (top bit set, all ones, largest positive)
            if ch.chance(100) && !ty.is_float() {
                let bits = ty.bits(a);
                let top = 1u64 << (bits - 1);
                let k = ch.below(2);
                values[k] = MV::int(ty, ch.pick(&[top, top | 1, u64::MAX, top - 1, top | (top >> 1)]), a);
            }
            // a conversion (or a bit-for-bit reinterpretation) to any other type at the end, now and then of an
            // operand as it came from the register
            let to_ty = ALL_TYS[ch.below(ALL_TYS.len())];
            let mut conv = false;
            if ch.chance(90) {
                conv = true;
                if ch.chance(100) {
                    prog.truncate(1);
                }
                prog.push(if ch.chance(200) { MOp::Convert(0x30, ch.chance(40)) } else { MOp::Reinterpret(0x30, ch.chance(40)) });
            }
            if ch.chance(128) {
                prog.push(MOp::StackValue);
            }
            let code = encode(&prog, &cfg);
            let case = ExprCase { cfg, code, object_address: None, initial_value: None };
            let mut src = AnswerSource { values: values.clone(), u64s: vec![1, 2, 3], codes: vec![Vec::new()], types: vec![ty], i: 0 };
            if conv {
                cx.label("typed-arithmetic-mode: conversion at the end");
                cx.sample_with(|| format!("{} typed program {:?} over register values {:?}, type at 0x30 = {:?}", cfg.describe(), prog, values, to_ty));
                check_decode(&case.code, &cfg, cx)?;
                let mut f = |r: &Req| match r {
                    Req::BaseType(0x30) => {
                        src.i += 1;
                        Answer::Type(to_ty)
                    }
                    _ => src.answer(r),
                };
                return check_eval(&case, &mut f, cx, true);
            }
            cx.sample_with(|| format!("{} typed program {:?} over register values {:?}", cfg.describe(), prog, values));
            check_decode(&case.code, &cfg, cx)?;
            let mut f = |r: &Req| src.answer(r);
            return check_eval(&case, &mut f, cx, true);
        }
        let prog = gen_program(ch, &cfg, 0, 24);
        let code = encode(&prog, &cfg);
        let case = ExprCase {
            cfg,
            code,
            object_address: if ch.chance(64) { Some(ch.biased(64)) } else { None },
            initial_value: if ch.chance(48) { Some(ch.biased(64)) } else { None },
        };
        let mut src = AnswerSource::gen(ch, &cfg);
        cx.sample_with(|| format!("{} program {:?} obj={:?} init={:?}", cfg.describe(), prog, case.object_address, case.initial_value));
        check_decode(&case.code, &cfg, cx)?;
        let mut f = |r: &Req| src.answer(r);
        check_eval(&case, &mut f, cx, true)
    }

    fn exhaustive(&self, tier: Tier, dev: bool, shard: usize, nshards: usize, ex: &mut Exhaust) {
        // all 256 opcode bytes x a few operand patterns x cfgs: decode
        let pats: [&[u8]; 5] = [&[], &[0x00, 0x00, 0x00, 0x00, 0x00, 0x00, 0x00, 0x00, 0x00], &[0x81, 0x01, 0x7f, 0x02, 0x03, 0x04, 0x05, 0x06, 0x07, 0x08, 0x09], &[0xff, 0xff, 0xff, 0xff, 0xff, 0xff, 0xff, 0xff, 0xff, 0x01, 0x00], &[0x02, 0xaa, 0xbb, 0xcc]];
        let mut n = 0u64;
        for opc in 0..=255u8 {
            if opc as usize % nshards != shard {
                continue;
            }
            for addr in [1u8, 2, 4, 8] {
                for (f64_, ver) in [(false, 2u16), (false, 4), (true, 5), (true, 2)] {
                    for big in [false, true] {
                        let cfg = Cfg { big, runtime_endian: true, address_size: addr, format64: f64_, version: ver };
                        for p in pats.iter() {
                            let mut code = vec![opc];
                            code.extend_from_slice(p);
                            let mut cx = Ctx::new(ex.known, false, ex.dev);
                            let r = catch("decode-byte", || check_decode(&code, &cfg, &mut cx)).and_then(|r| r);
                            n += 1;
                            if let Err(e) = r {
                                let mut data = vec![addr, f64_ as u8, ver as u8, big as u8];
                                data.extend_from_slice(&code);
                                ex.fail("decode-byte", &data, e);
                                return;
                            }
                        }
                    }
                }
            }
        }
        if shard == 0 {
            ex.case("value-types", &[], |cx| check_value_types(cx));
        }
        ex.tally(n, n, "exhaustive-decode-all-opcode-bytes");
        ex.complete("every opcode byte 0x00..0xff x 5 operand patterns x address sizes x formats/versions x byte orders: decode vs model");

        // all programs up to length L over the alphabet
        let maxlen = if tier == Tier::Thorough && !dev { 4 } else { 3 };
        let mut total = 0u64;
        let mut nt = 0u64;
        for addr in [1u8, 2, 4, 8] {
            let cfg = Cfg { big: false, runtime_endian: true, address_size: addr, format64: false, version: 4 };
            let alpha = alphabet(addr);
            let k = alpha.len();
            for len in 1..=maxlen {
                let count = (k as u64).pow(len as u32);
                // dev quick tier: sample every 7th program of length 3
                let stride = if dev && tier == Tier::Quick && len == 3 { 7 } else { 1 };
                let mut idx = shard as u64 * stride;
                while idx < count {
                    let mut prog = Vec::with_capacity(len);
                    let mut x = idx;
                    for _ in 0..len {
                        prog.push(alpha[(x % k as u64) as usize].clone());
                        x /= k as u64;
                    }
                    let code = encode(&prog, &cfg);
                    let case = ExprCase { cfg, code, object_address: None, initial_value: None };
                    let mut cx = Ctx::new(ex.known, false, ex.dev);
                    let mut f = |r: &Req| default_answer(r);
                    let r = catch("enum-program", || check_eval(&case, &mut f, &mut cx, false)).and_then(|r| r);
                    total += 1;
                    if cx.nontrivial {
                        nt += 1;
                    }
                    if let Err(e) = r {
                        let mut data = vec![addr];
                        data.extend_from_slice(&case.code);
                        let mut cx2 = Ctx::new(ex.known, false, ex.dev);
                        if cx2.report(e.clone()).is_err() {
                            ex.fail("enum-program", &data, e);
                            return;
                        } else {
                            ex.fail("enum-program", &data, e);
                        }
                    }
                    idx += nshards as u64 * stride;
                }
            }
        }
        ex.tally(total, nt, "exhaustive-programs");
        if !(dev && tier == Tier::Quick) {
            ex.complete(&format!("every program of length<={} over the {}-symbol alphabet, address sizes 1/2/4/8", maxlen, alphabet(8).len()));
        }
        ex.sample(format!("enumerated program e.g. {:?} (address size 4)", [alphabet(4)[43].clone(), alphabet(4)[37].clone(), MOp::Shl]));
    }

    fn replay_special(&self, mode: &str, data: &[u8], cx: &mut Ctx) -> R {
        match mode {
            "decode-byte" => {
                let cfg = Cfg { big: data[3] != 0, runtime_endian: true, address_size: data[0], format64: data[1] != 0, version: data[2] as u16 };
                check_decode(&data[4..], &cfg, cx)
            }
            "enum-program" => {
                let cfg = Cfg { big: false, runtime_endian: true, address_size: data[0], format64: false, version: 4 };
                let case = ExprCase { cfg, code: data[1..].to_vec(), object_address: None, initial_value: None };
                cx.say(|| format!("program bytes {:02x?} address size {}", &data[1..], data[0]));
                let mut f = |r: &Req| default_answer(r);
                check_eval(&case, &mut f, cx, true)
            }
            _ => fail!("replay/unknown-mode", "{}", mode),
        }
    }
}
