//! C01 — untrusted DWARF never panics, aborts, overflows the stack or hangs.
use crate::core::*;
use crate::{ensure, fail};
use gimli::{EndianSlice, Reader, RunTimeEndian, Section, UnwindSection};
use std::cell::Cell;
use std::collections::BTreeMap;
use std::rc::Rc;

pub struct C01;

type Map = BTreeMap<&'static str, Vec<u8>>;

// ---------------------------------------------------------------------------
// a reader that can be made to fail at any operation
// ---------------------------------------------------------------------------

#[derive(Clone, Debug)]
pub struct FaultReader<'a> {
    inner: EndianSlice<'a, RunTimeEndian>,
    ops: Rc<Cell<u64>>,
    fail_at: u64,
}

impl<'a> FaultReader<'a> {
    pub fn new(bytes: &'a [u8], endian: RunTimeEndian, ops: Rc<Cell<u64>>, fail_at: u64) -> Self {
        FaultReader { inner: EndianSlice::new(bytes, endian), ops, fail_at }
    }
    fn op(&self) -> gimli::Result<()> {
        let n = self.ops.get() + 1;
        self.ops.set(n);
        if n >= self.fail_at {
            Err(gimli::Error::UnexpectedEof(self.inner.offset_id()))
        } else {
            Ok(())
        }
    }
}

impl<'a> Reader for FaultReader<'a> {
    type Endian = RunTimeEndian;
    type Offset = usize;
    fn endian(&self) -> RunTimeEndian {
        self.inner.endian()
    }
    fn len(&self) -> usize {
        Reader::len(&self.inner)
    }
    fn empty(&mut self) {
        Reader::empty(&mut self.inner)
    }
    fn truncate(&mut self, len: usize) -> gimli::Result<()> {
        self.op()?;
        Reader::truncate(&mut self.inner, len)
    }
    fn offset_from(&self, base: &Self) -> usize {
        Reader::offset_from(&self.inner, &base.inner)
    }
    fn offset_id(&self) -> gimli::ReaderOffsetId {
        self.inner.offset_id()
    }
    fn lookup_offset_id(&self, id: gimli::ReaderOffsetId) -> Option<usize> {
        self.inner.lookup_offset_id(id)
    }
    fn find(&self, byte: u8) -> gimli::Result<usize> {
        self.op()?;
        Reader::find(&self.inner, byte)
    }
    fn skip(&mut self, len: usize) -> gimli::Result<()> {
        self.op()?;
        Reader::skip(&mut self.inner, len)
    }
    fn split(&mut self, len: usize) -> gimli::Result<Self> {
        self.op()?;
        let inner = Reader::split(&mut self.inner, len)?;
        Ok(FaultReader { inner, ops: self.ops.clone(), fail_at: self.fail_at })
    }
    fn to_slice(&self) -> gimli::Result<std::borrow::Cow<'_, [u8]>> {
        self.op()?;
        Reader::to_slice(&self.inner)
    }
    fn to_string(&self) -> gimli::Result<std::borrow::Cow<'_, str>> {
        self.op()?;
        Reader::to_string(&self.inner)
    }
    fn to_string_lossy(&self) -> gimli::Result<std::borrow::Cow<'_, str>> {
        self.op()?;
        Reader::to_string_lossy(&self.inner)
    }
    fn read_slice(&mut self, buf: &mut [u8]) -> gimli::Result<()> {
        self.op()?;
        Reader::read_slice(&mut self.inner, buf)
    }
}

// ---------------------------------------------------------------------------
// step budgets
// ---------------------------------------------------------------------------

pub struct Bud {
    /// bound on the steps of one lazy iterator (exceeding it is a violation)
    pub per_iter: u64,
    /// soft cap on the total work of one case (exploration stops quietly)
    pub total: u64,
    pub used: u64,
    pub errors: u64,
    /// the converted result was not written because its entries nest deeper than 1000 levels (recorded finding)
    pub skipped_deep_write: bool,
}

impl Bud {
    fn exhausted(&self) -> bool {
        self.used >= self.total
    }
}

/// Drain a fallible lazy iterator, ignoring errors. `fused`: after an error nothing further may be yielded.
fn drain<T, E: std::fmt::Debug>(b: &mut Bud, what: &'static str, fused: bool, mut next: impl FnMut() -> Result<Option<T>, E>, mut each: impl FnMut(T, &mut Bud) -> R) -> R {
    let mut steps = 0u64;
    let mut errored = false;
    loop {
        steps += 1;
        b.used += 1;
        if steps > b.per_iter {
            fail!(format!("c01/unbounded/{}", what), "no end after {} steps (bound: a small multiple of the input size); errors seen: {}", steps, errored);
        }
        match next() {
            Ok(Some(x)) => {
                if errored && fused {
                    fail!(format!("c01/yields-after-error/{}", what), "an item was returned after the iterator had reported an error");
                }
                each(x, b)?;
            }
            Ok(None) => return Ok(()),
            Err(_) => {
                b.errors += 1;
                if errored && fused {
                    fail!(format!("c01/error-after-error/{}", what), "a second error was returned after the iterator had reported an error (documented to stop)");
                }
                errored = true;
            }
        }
        if b.exhausted() {
            return Ok(());
        }
    }
}

fn nop<T>(_: T, _: &mut Bud) -> R {
    Ok(())
}

// ---------------------------------------------------------------------------
// everything the reading side offers
// ---------------------------------------------------------------------------

fn exercise_expression<Rd: Reader<Offset = usize>>(e: gimli::Expression<Rd>, encoding: gimli::Encoding, b: &mut Bud, depth: u32) -> R {
    let mut it = e.clone().operations(encoding);
    let mut nested = Vec::new();
    drain(b, "operations", false, || it.next(), |op, _| {
        if let gimli::Operation::EntryValue { expression } = op {
            nested.push(expression);
        }
        Ok(())
    })?;
    if depth < 3 {
        for n in nested.into_iter().take(4) {
            exercise_expression(gimli::Expression(n), encoding, b, depth + 1)?;
        }
    }
    // evaluation with canned answers
    let mut ev = e.clone().evaluation(encoding);
    ev.set_max_iterations(2000);
    ev.set_initial_value(7);
    ev.set_object_address(0x1000);
    let mut r = ev.evaluate();
    let mut rounds = 0;
    loop {
        rounds += 1;
        b.used += 1;
        if rounds > 4000 {
            fail!("c01/unbounded/evaluation", "evaluation still asks for input after {} answers with a 2000 iteration limit", rounds);
        }
        use gimli::EvaluationResult as E;
        r = match r {
            Ok(E::Complete) => {
                let _ = ev.result();
                break;
            }
            Err(_) => {
                b.errors += 1;
                break;
            }
            Ok(E::RequiresMemory { .. }) => ev.resume_with_memory(gimli::Value::Generic(rounds as u64 * 3)),
            Ok(E::RequiresRegister { .. }) => ev.resume_with_register(gimli::Value::Generic(0xfff0)),
            Ok(E::RequiresFrameBase) => ev.resume_with_frame_base(0x7000),
            Ok(E::RequiresTls(_)) => ev.resume_with_tls(0x10),
            Ok(E::RequiresCallFrameCfa) => ev.resume_with_call_frame_cfa(0x8000),
            Ok(E::RequiresAtLocation(_)) => ev.resume_with_at_location(e.0.clone()),
            Ok(E::RequiresEntryValue(_)) => ev.resume_with_entry_value(gimli::Value::Generic(u64::MAX)),
            Ok(E::RequiresParameterRef(_)) => ev.resume_with_parameter_ref(5),
            Ok(E::RequiresRelocatedAddress(a)) => ev.resume_with_relocated_address(a.wrapping_add(1)),
            Ok(E::RequiresIndexedAddress { .. }) => ev.resume_with_indexed_address(0x4000),
            Ok(E::RequiresBaseType(_)) => ev.resume_with_base_type(gimli::ValueType::U32),
            Ok(E::RequiresWasmLocal { .. }) | Ok(E::RequiresWasmGlobal { .. }) | Ok(E::RequiresWasmStack { .. }) => ev.resume_with_wasm_value(gimli::Value::Generic(9)),
        };
    }
    Ok(())
}

fn exercise_unit<Rd: Reader<Offset = usize>>(dwarf: &gimli::Dwarf<Rd>, header: gimli::UnitHeader<Rd>, b: &mut Bud) -> R {
    let _ = dwarf.abbreviations(&header);
    let unit = match dwarf.unit(header) {
        Ok(u) => u,
        Err(_) => {
            b.errors += 1;
            return Ok(());
        }
    };
    let encoding = unit.encoding();
    let uref = unit.unit_ref(dwarf);
    let _ = unit.dwo_name();
    // depth-first cursor with every attribute resolver
    let mut cur = unit.entries();
    let mut seen = 0;
    let mut exprs: Vec<gimli::Expression<Rd>> = Vec::new();
    let mut offsets = Vec::new();
    let mut cursor_next = || -> gimli::Result<Option<gimli::DebuggingInformationEntry<Rd>>> { cur.next_dfs().map(|o| o.cloned()) };
    drain(b, "next_dfs", false, &mut cursor_next, |e, b| {
        seen += 1;
        offsets.push(e.offset());
        let _ = (e.tag(), e.depth(), e.has_children());
        for a in e.attrs() {
            b.used += 1;
            let v = a.value();
            let _ = (a.raw_value(), a.u8_value(), a.u16_value(), a.udata_value(), a.sdata_value(), a.offset_value(), a.exprloc_value(), a.string_value(&dwarf.debug_str));
            let _ = dwarf.attr_string(&unit, v.clone());
            let _ = dwarf.attr_line_string(v.clone());
            let _ = dwarf.attr_address(&unit, v.clone());
            let _ = dwarf.attr_ranges_offset(&unit, v.clone());
            let _ = dwarf.attr_locations_offset(&unit, v.clone());
            if let Ok(Some(mut it)) = dwarf.attr_ranges(&unit, v.clone()) {
                drain(b, "attr_ranges", false, || it.next(), nop)?;
            }
            if let Ok(Some(mut it)) = dwarf.attr_locations(&unit, v.clone()) {
                let mut found = Vec::new();
                drain(b, "attr_locations", false, || it.next(), |l, _| {
                    found.push(l.data);
                    Ok(())
                })?;
                exprs.extend(found.into_iter().take(3));
            }
            match v {
                gimli::AttributeValue::Exprloc(x) => exprs.push(x),
                gimli::AttributeValue::RangeListsRef(o) => {
                    let off = dwarf.ranges_offset_from_raw(&unit, o);
                    if let Ok(mut it) = dwarf.raw_ranges(&unit, off) {
                        drain(b, "raw_ranges", false, || it.next(), nop)?;
                    }
                }
                gimli::AttributeValue::LocationListsRef(o) => {
                    if let Ok(mut it) = dwarf.raw_locations(&unit, o) {
                        drain(b, "raw_locations", false, || it.next(), nop)?;
                    }
                }
                gimli::AttributeValue::DebugMacinfoRef(o) => {
                    if let Ok(mut it) = dwarf.macinfo(o) {
                        drain(b, "macinfo", true, || it.next(), |m, _| {
                            let _ = format!("{:?}", m);
                            Ok(())
                        })?;
                    }
                }
                gimli::AttributeValue::DebugMacroRef(o) => {
                    if let Ok(mut it) = dwarf.macros(o) {
                        drain(b, "macros", true, || it.next(), |m, _| {
                            if let gimli::MacroEntry::Define { text: value, .. } | gimli::MacroEntry::Undef { name: value, .. } = &m {
                                let _ = value.string(uref);
                            }
                            Ok(())
                        })?;
                    }
                }
                gimli::AttributeValue::DebugStrOffsetsIndex(i) => {
                    let _ = dwarf.string_offset(&unit, i);
                }
                gimli::AttributeValue::DebugAddrIndex(i) => {
                    let _ = dwarf.address(&unit, i);
                }
                gimli::AttributeValue::DebugRngListsIndex(i) => {
                    let _ = dwarf.ranges_offset(&unit, i);
                }
                gimli::AttributeValue::DebugLocListsIndex(i) => {
                    let _ = dwarf.locations_offset(&unit, i);
                }
                _ => {}
            }
        }
        if seen <= 40 {
            if let Ok(mut it) = dwarf.die_ranges(&unit, &e) {
                drain(b, "die_ranges", false, || it.next(), nop)?;
            }
        }
        Ok(())
    })?;
    if let Ok(mut it) = dwarf.unit_ranges(&unit) {
        drain(b, "unit_ranges", false, || it.next(), nop)?;
    }
    // other traversals
    let mut c2 = unit.entries();
    drain(b, "next_entry", false, || c2.next_entry().map(|ok| if ok { Some(()) } else { None }), nop)?;
    let mut c3 = unit.entries();
    if let Ok(true) = c3.next_entry() {
        let mut sib = || -> gimli::Result<Option<()>> { c3.next_sibling().map(|o| o.map(|_| ())) };
        drain(b, "next_sibling", false, &mut sib, nop)?;
    }
    if let Ok(mut raw) = unit.entries_raw(None) {
        let mut entry = gimli::DebuggingInformationEntry::null();
        let mut steps = 0u64;
        while !raw.is_empty() {
            steps += 1;
            b.used += 1;
            if steps > b.per_iter {
                fail!("c01/unbounded/entries_raw", "EntriesRaw is not empty after {} reads", steps);
            }
            if raw.read_entry(&mut entry).is_err() {
                b.errors += 1;
                break;
            }
            let _ = raw.next_depth();
        }
    }
    if let Ok(mut raw) = unit.entries_raw(None) {
        let mut steps = 0u64;
        while !raw.is_empty() {
            steps += 1;
            if steps > b.per_iter {
                fail!("c01/unbounded/entries_raw-skip", "EntriesRaw is not empty after {} abbreviation reads", steps);
            }
            match raw.read_abbreviation() {
                Ok(Some(ab)) => {
                    if raw.skip_attributes(ab.attributes()).is_err() {
                        b.errors += 1;
                        break;
                    }
                }
                Ok(None) => {}
                Err(_) => {
                    b.errors += 1;
                    break;
                }
            }
        }
    }
    if let Ok(mut tree) = unit.entries_tree(None) {
        fn walk<Rd: Reader<Offset = usize>>(n: gimli::EntriesTreeNode<Rd>, b: &mut Bud, depth: usize, count: &mut u64) -> R {
            *count += 1;
            b.used += 1;
            if *count > b.per_iter {
                fail!("c01/unbounded/entries_tree", "more than {} tree nodes", count);
            }
            // deep trees are the caller's recursion, not gimli's
            if depth > 200 {
                return Ok(());
            }
            let mut ch = n.children();
            loop {
                match ch.next() {
                    Ok(Some(c)) => walk(c, b, depth + 1, count)?,
                    Ok(None) => return Ok(()),
                    Err(_) => {
                        b.errors += 1;
                        return Ok(());
                    }
                }
                if b.exhausted() {
                    return Ok(());
                }
            }
        }
        if let Ok(root) = tree.root() {
            let mut count = 0;
            walk(root, b, 0, &mut count)?;
        }
    }
    for off in offsets.iter().take(6) {
        let _ = unit.entry(*off);
        let _ = unit.entries_at_offset(*off).map(|mut c| c.next_dfs().map(|_| ()));
        let _ = unit.entries_tree(Some(*off)).map(|mut t| t.root().map(|_| ()));
    }
    for k in [0usize, 1, 3, 11, 12, 23, 24, 0xffff, usize::MAX] {
        let o = gimli::UnitOffset(k);
        let _ = unit.entry(o);
        let _ = unit.entries_at_offset(o);
        let _ = unit.entries_raw(Some(o));
        let _ = unit.entries_tree(Some(o)).map(|mut t| t.root().map(|_| ()));
    }
    // line program
    if let Some(program) = unit.line_program.clone() {
        let h = program.header().clone();
        for i in 0..(h.file_names().len() as u64 + 2).min(20) {
            if let Some(f) = h.file(i) {
                let _ = dwarf.attr_string(&unit, f.path_name());
                let _ = f.directory(&h).map(|d| dwarf.attr_string(&unit, d));
                let _ = (f.timestamp(), f.size(), f.md5(), f.source());
            }
            let _ = h.directory(i);
        }
        let mut ins = h.instructions();
        drain(b, "line-instructions", true, || ins.next_instruction(&h), nop)?;
        let mut rows = program.clone().rows();
        drain(b, "line-rows", false, || rows.next_row().map(|o| o.map(|_| ())), nop)?;
        if let Ok((complete, seqs)) = program.clone().sequences() {
            for s in seqs.iter().take(8) {
                let mut r = complete.resume_from(s);
                drain(b, "line-sequence-rows", false, || r.next_row().map(|o| o.map(|_| ())), nop)?;
            }
        }
    }
    for e in exprs.into_iter().take(12) {
        exercise_expression(e, encoding, b, 0)?;
        if b.exhausted() {
            break;
        }
    }
    Ok(())
}

pub fn exercise_dwarf<Rd: Reader<Offset = usize>>(dwarf: &gimli::Dwarf<Rd>, b: &mut Bud) -> R {
    let mut headers = Vec::new();
    let mut it = dwarf.units();
    drain(b, "unit-headers", false, || it.next(), |h, _| {
        headers.push(h);
        Ok(())
    })?;
    let mut it = dwarf.type_units();
    drain(b, "type-unit-headers", false, || it.next(), |h, _| {
        headers.push(h);
        Ok(())
    })?;
    for h in headers.into_iter().take(24) {
        let _ = (h.offset(), h.unit_length(), h.version(), h.type_(), h.header_size());
        exercise_unit(dwarf, h, b)?;
        if b.exhausted() {
            break;
        }
    }
    for k in [0usize, 1, 4, 11, 12, 0x100, usize::MAX] {
        let _ = dwarf.unit_header(gimli::DebugInfoOffset(k));
        let _ = dwarf.string(gimli::DebugStrOffset(k));
        let _ = dwarf.line_string(gimli::DebugLineStrOffset(k));
        let _ = dwarf.sup_string(gimli::DebugStrOffset(k));
        let _ = dwarf.debug_line.program(gimli::DebugLineOffset(k), 8, None, None).map(|p| {
            let mut rows = p.rows();
            let mut n = 0;
            while let Ok(Some(_)) = rows.next_row() {
                n += 1;
                if n > 100_000 {
                    break;
                }
            }
        });
        if let Ok(mut it) = dwarf.debug_macinfo.get_macinfo(gimli::DebugMacinfoOffset(k)) {
            drain(b, "macinfo-at-offset", true, || it.next(), nop)?;
        }
        if let Ok(mut it) = dwarf.debug_macro.get_macros(gimli::DebugMacroOffset(k)) {
            drain(b, "macro-at-offset", true, || it.next(), nop)?;
        }
        let _ = dwarf.debug_abbrev.abbreviations(gimli::DebugAbbrevOffset(k));
    }
    // address ranges
    let mut hs = dwarf.debug_aranges.headers();
    let mut found = Vec::new();
    drain(b, "aranges-headers", false, || hs.next(), |h, _| {
        found.push(h);
        Ok(())
    })?;
    for h in found.into_iter().take(16) {
        let _ = (h.offset(), h.length(), h.encoding(), h.debug_info_offset());
        let mut es = h.entries();
        drain(b, "aranges-entries", true, || es.next(), nop)?;
        let mut es = h.entries();
        drain(b, "aranges-raw-entries", false, || es.next_raw(), |e, _| {
            let _ = (e.address(), e.length(), e.range());
            Ok(())
        })?;
    }
    // .debug_addr / .debug_str_offsets
    let mut hs = dwarf.debug_addr.headers();
    let mut found = Vec::new();
    drain(b, "addr-headers", false, || hs.next(), |h, _| {
        found.push(h);
        Ok(())
    })?;
    for h in found.into_iter().take(8) {
        let mut es = h.entries();
        drain(b, "addr-entries", true, || es.next(), nop)?;
    }
    for a in [1u8, 2, 4, 8, 0, 3, 255] {
        for i in [0usize, 1, 7, usize::MAX / 8, usize::MAX] {
            let _ = dwarf.debug_addr.get_address(a, gimli::DebugAddrBase(8), gimli::DebugAddrIndex(i));
            let _ = dwarf.debug_addr.get_address(a, gimli::DebugAddrBase(usize::MAX - 3), gimli::DebugAddrIndex(i));
        }
    }
    for f in [gimli::Format::Dwarf32, gimli::Format::Dwarf64] {
        for i in [0usize, 1, 9, usize::MAX / 4, usize::MAX] {
            let _ = dwarf.debug_str_offsets.get_str_offset(f, gimli::DebugStrOffsetsBase(8), gimli::DebugStrOffsetsIndex(i));
            let _ = dwarf.debug_str_offsets.get_str_offset(f, gimli::DebugStrOffsetsBase(usize::MAX - 1), gimli::DebugStrOffsetsIndex(i));
        }
    }
    // the offset tables of the list sections: the section under test, and a table of boundary entries behind a header
    // of each format (an entry is relative to the base, so base + entry is computed from untrusted data)
    for f in [gimli::Format::Dwarf32, gimli::Format::Dwarf64] {
        let enc = gimli::Encoding { format: f, version: 5, address_size: 8 };
        for base in [0usize, 12, 20, 1, usize::MAX - 1] {
            for i in [0usize, 1, 5, usize::MAX / 8, usize::MAX] {
                let _ = dwarf.ranges.get_offset(enc, gimli::DebugRngListsBase(base), gimli::DebugRngListsIndex(i));
                let _ = dwarf.locations.get_offset(enc, gimli::DebugLocListsBase(base), gimli::DebugLocListsIndex(i));
            }
        }
    }
    Ok(())
}


fn frames<Rd: Reader<Offset = usize>, S: UnwindSection<Rd>>(s: &S, bases: &gimli::BaseAddresses, b: &mut Bud) -> R
where
    S::Offset: gimli::UnwindOffset<usize>,
{
    let mut it = s.entries(bases);
    let mut fdes = Vec::new();
    drain(b, "cfi-entries", false, || it.next(), |e, _| {
        match e {
            gimli::CieOrFde::Cie(c) => {
                let _ = (c.offset(), c.version(), c.augmentation(), c.personality(), c.lsda_encoding(), c.code_alignment_factor(), c.data_alignment_factor(), c.return_address_register(), c.entry_len());
            }
            gimli::CieOrFde::Fde(p) => {
                if let Ok(f) = p.parse(S::cie_from_offset) {
                    fdes.push(f);
                }
            }
        }
        Ok(())
    })?;
    let mut ctx = Box::new(gimli::UnwindContext::new());
    for f in fdes.iter().take(12) {
        let _ = (f.offset(), f.initial_address(), f.len(), f.end_address(), f.lsda(), f.personality(), f.is_signal_trampoline(), f.contains(f.initial_address()));
        let mut ins = f.cie().instructions(s, bases);
        drain(b, "cie-instructions", false, || ins.next(), |i, _| {
            if let gimli::CallFrameInstruction::DefCfaExpression { expression } | gimli::CallFrameInstruction::Expression { expression, .. } | gimli::CallFrameInstruction::ValExpression { expression, .. } = i {
                let _ = expression.get(s);
            }
            Ok(())
        })?;
        let mut ins = f.instructions(s, bases);
        drain(b, "fde-instructions", false, || ins.next(), nop)?;
        if let Ok(mut t) = f.rows(s, bases, &mut ctx) {
            drain(b, "unwind-rows", false, || t.next_row().map(|o| o.map(|_| ())), nop)?;
        }
        let _ = f.unwind_info_for_address(s, bases, &mut ctx, f.initial_address());
        let _ = s.unwind_info_for_address(bases, &mut ctx, f.initial_address().wrapping_add(1), S::cie_from_offset);
        let _ = s.fde_for_address(bases, f.initial_address(), S::cie_from_offset);
    }
    Ok(())
}

fn frames_dispatch(map: &Map, endian: RunTimeEndian, address_size: u8, bases: &gimli::BaseAddresses, b: &mut Bud) -> R {
    let empty: Vec<u8> = Vec::new();
    let mut df = gimli::DebugFrame::new(map.get(".debug_frame").unwrap_or(&empty), endian);
    df.set_address_size(address_size);
    frames(&df, bases, b)?;
    let mut ef = gimli::EhFrame::new(map.get(".eh_frame").unwrap_or(&empty), endian);
    ef.set_address_size(address_size);
    frames(&ef, bases, b)
}

/// Sections that are not part of `Dwarf`: names tables, package indexes, frame sections, eh_frame_hdr.
fn exercise_misc(map: &Map, endian: RunTimeEndian, address_size: u8, b: &mut Bud) -> R {
    let empty: Vec<u8> = Vec::new();
    let sec = |n: &str| -> &[u8] { map.get(n).unwrap_or(&empty) };
    // pubnames / pubtypes
    let pn = gimli::DebugPubNames::new(sec(".debug_pubnames"), endian);
    let mut it = pn.items();
    drain(b, "pubnames", true, || it.next(), |e, _| {
        let _ = (e.name().slice().len(), e.unit_header_offset(), e.die_offset());
        Ok(())
    })?;
    let pt = gimli::DebugPubTypes::new(sec(".debug_pubtypes"), endian);
    let mut it = pt.items();
    drain(b, "pubtypes", true, || it.next(), nop)?;
    // .debug_names
    let dn = gimli::DebugNames::new(sec(".debug_names"), endian);
    let debug_str = gimli::DebugStr::new(sec(".debug_str"), endian);
    let mut hs = dn.headers();
    let mut found = Vec::new();
    drain(b, "names-headers", false, || hs.next(), |h, _| {
        found.push(h);
        Ok(())
    })?;
    for h in found.into_iter().take(6) {
        let _ = (h.offset(), h.length(), h.format(), h.version(), h.compile_unit_count(), h.local_type_unit_count(), h.foreign_type_unit_count(), h.bucket_count(), h.name_count(), h.abbrev_table_size(), h.augmentation_string().map(|s| s.len()));
        let Ok(index) = h.index() else {
            b.errors += 1;
            continue;
        };
        for i in (0..index.compile_unit_count().min(8)).chain([u32::MAX]) {
            let _ = index.compile_unit(i);
        }
        let _ = index.default_compile_unit();
        for i in (0..index.type_unit_count().min(8)).chain([u32::MAX]) {
            let _ = index.type_unit(i);
            let _ = index.local_type_unit(i);
            let _ = index.foreign_type_unit(i);
        }
        for bk in (0..index.bucket_count().min(16)).chain([u32::MAX]) {
            if let Ok(Some(mut it)) = index.find_by_bucket(bk) {
                drain(b, "names-bucket", false, || it.next(), nop)?;
            }
        }
        for hash in [0u32, 5381, 0xffff_ffff, 193495088] {
            if let Ok(mut it) = index.find_by_hash(hash) {
                drain(b, "names-hash", false, || it.next(), nop)?;
            }
        }
        let mut names = index.names();
        let mut count = 0u64;
        while let Some(ni) = names.next() {
            count += 1;
            b.used += 1;
            if count > b.per_iter {
                fail!("c01/unbounded/names-table", "the name table yields more than {} names", count);
            }
            if count > 64 {
                continue;
            }
            let _ = index.name_string_offset(ni);
            let _ = index.name_string(ni, &debug_str);
            if let Ok(mut es) = index.name_entries(ni) {
                drain(b, "names-entries", false, || es.next(), |e, _| {
                    let _ = (e.compile_unit(&index), e.type_unit(&index), e.die_offset(), e.parent(), e.type_hash());
                    Ok(())
                })?;
            }
            if b.exhausted() {
                break;
            }
        }
        for k in [0usize, 1, 5, usize::MAX] {
            let _ = index.name_entry(gimli::NameEntryOffset(k));
        }
    }
    // package indexes
    for (name, tu) in [(".debug_cu_index", false), (".debug_tu_index", true)] {
        let idx = if tu { gimli::DebugTuIndex::new(sec(name), endian).index() } else { gimli::DebugCuIndex::new(sec(name), endian).index() };
        if let Ok(idx) = idx {
            let _ = (idx.version(), idx.section_count(), idx.unit_count(), idx.slot_count());
            for id in [0u64, 1, 0x1234_5678_9abc_def0, u64::MAX] {
                let _ = idx.find(id);
            }
            for row in (0..idx.unit_count().min(8) + 2).chain([u32::MAX]) {
                if let Ok(it) = idx.sections(row) {
                    let mut n = 0;
                    for s in it {
                        n += 1;
                        let _ = (s.section, s.offset, s.size);
                        if n > 64 {
                            fail!("c01/unbounded/index-sections", "more than 64 section columns");
                        }
                    }
                }
            }
        } else {
            b.errors += 1;
        }
    }
    // frames
    let bases = gimli::BaseAddresses::default().set_eh_frame(0x1000).set_text(0x2000).set_got(0x3000).set_eh_frame_hdr(0x4000);
    frames_dispatch(map, endian, address_size, &bases, b)?;
    let ef = {
        let mut ef = gimli::EhFrame::new(sec(".eh_frame"), endian);
        ef.set_address_size(address_size);
        ef
    };
    let mut df = gimli::DebugFrame::new(sec(".debug_frame"), endian);
    df.set_address_size(address_size);    for k in [0usize, 4, 8, 0x10, usize::MAX] {
        let _ = df.cie_from_offset(&bases, gimli::DebugFrameOffset(k));
        let _ = df.fde_from_offset(&bases, gimli::DebugFrameOffset(k), gimli::DebugFrame::cie_from_offset);
        let _ = ef.cie_from_offset(&bases, gimli::EhFrameOffset(k));
        let _ = ef.fde_from_offset(&bases, gimli::EhFrameOffset(k), gimli::EhFrame::cie_from_offset);
    }
    // .eh_frame_hdr
    let hdr = gimli::EhFrameHdr::new(sec(".eh_frame_hdr"), endian);
    if let Ok(parsed) = hdr.parse(&bases, address_size) {
        let _ = parsed.eh_frame_ptr();
        if let Some(table) = parsed.table() {
            let mut it = table.iter(&bases);
            drain(b, "eh-hdr-table", true, || it.next(), nop)?;
            for a in [0u64, 0x1000, 0x2000, 0x10_0000, u64::MAX] {
                let _ = table.lookup(a, &bases);
                let _ = table.fde_for_address(&ef, &bases, a, gimli::EhFrame::cie_from_offset);
                let _ = table.unwind_info_for_address(&ef, &bases, &mut Box::new(gimli::UnwindContext::new()), a, gimli::EhFrame::cie_from_offset);
            }
            let mut it = table.iter(&bases);
            let _ = it.nth(3);
            let _ = it.nth(usize::MAX);
        }
    } else {
        b.errors += 1;
    }
    Ok(())
}

fn exercise_convert(map: &Map, endian: RunTimeEndian, address_size: u8, b: &mut Bud) -> R {
    use gimli::write as w;
    let empty: Vec<u8> = Vec::new();
    let dwarf: gimli::Dwarf<EndianSlice<RunTimeEndian>> = gimli::Dwarf::load(|id| -> Result<_, gimli::Error> { Ok(EndianSlice::new(map.get(id.name()).unwrap_or(&empty), endian)) }).unwrap();
    let ca = |a: u64| Some(w::Address::Constant(a));
    match w::Dwarf::from(&dwarf, &ca) {
        Ok(mut d) => {
            // the writer used to recurse once per nesting level of entries (see known_findings.json, fixed)
            let mut max_depth = 0isize;
            let mut it = dwarf.units();
            while let Ok(Some(h)) = it.next() {
                if let Ok(u) = dwarf.unit(h) {
                    let mut c = u.entries();
                    let mut n = 0;
                    while let Ok(Some(e)) = c.next_dfs() {
                        max_depth = max_depth.max(e.depth());
                        n += 1;
                        if n > 2_000_000 {
                            break;
                        }
                    }
                }
            }
            // (fixed in gimli by the iterative writer; VERIF_C01_SKIP_DEEP_WRITE=1 restores the old exclusion)
            if max_depth > 1000 && std::env::var_os("VERIF_C01_SKIP_DEEP_WRITE").is_some() {
                b.skipped_deep_write = true;
            } else {
                let mut sections = w::Sections::new(w::EndianVec::new(endian));
                if d.write(&mut sections).is_err() {
                    b.errors += 1;
                }
            }
        }
        Err(_) => b.errors += 1,
    }
    // the filtered conversion (every third entry required) and its writing
    {
        let limit = 4 * map.values().map(|v| v.len() as u64).sum::<u64>() + 64;
        let run = || -> Result<(), ()> {
            let mut filter = w::FilterUnitSection::new(&dwarf).map_err(|_| ())?;
            let mut k = 0u64;
            while let Some(mut unit) = filter.read_unit().map_err(|_| ())? {
                let mut entry = unit.null_entry();
                while unit.read_entry(&mut entry).map_err(|_| ())? {
                    k += 1;
                    if k % 3 == 1 {
                        unit.require_entry(entry.offset());
                    }
                    if k > limit {
                        return Err(());
                    }
                }
            }
            let mut out = w::Dwarf::new();
            {
                let mut conv = out.convert_with_filter(filter).map_err(|_| ())?;
                while let Some((mut unit, root)) = conv.read_unit().map_err(|_| ())? {
                    unit.convert(root, &ca).map_err(|_| ())?;
                }
            }
            let mut sections = w::Sections::new(w::EndianVec::new(endian));
            out.write(&mut sections).map_err(|_| ())?;
            Ok(())
        };
        if run().is_err() {
            b.errors += 1;
        }
    }
    let mut df = gimli::DebugFrame::new(map.get(".debug_frame").unwrap_or(&empty), endian);
    df.set_address_size(address_size);
    if let Ok(t) = w::FrameTable::from(&df, &ca) {
        let mut out = w::DebugFrame::from(w::EndianVec::new(endian));
        let _ = t.write_debug_frame(&mut out);
    }
    let mut ef = gimli::EhFrame::new(map.get(".eh_frame").unwrap_or(&empty), endian);
    ef.set_address_size(address_size);
    if let Ok(t) = w::FrameTable::from(&ef, &ca) {
        let mut out = w::EhFrame::from(w::EndianVec::new(endian));
        let _ = t.write_eh_frame(&mut out);
    }
    Ok(())
}

pub fn exercise_all(map: &Map, big: bool, address_size: u8, convert: bool, total: u64) -> R<Bud> {
    let endian = if big { RunTimeEndian::Big } else { RunTimeEndian::Little };
    let size: u64 = map.values().map(|v| v.len() as u64).sum();
    let mut b = Bud { per_iter: 8 * size + 256, total, used: 0, errors: 0, skipped_deep_write: false };
    let empty: Vec<u8> = Vec::new();
    let dwarf: gimli::Dwarf<EndianSlice<RunTimeEndian>> = gimli::Dwarf::load(|id| -> Result<_, gimli::Error> { Ok(EndianSlice::new(map.get(id.name()).unwrap_or(&empty), endian)) }).unwrap();
    exercise_dwarf(&dwarf, &mut b)?;
    exercise_misc(map, endian, address_size, &mut b)?;
    if convert {
        exercise_convert(map, endian, address_size, &mut b)?;
    }
    Ok(b)
}

/// The same sections through a reader that fails at operation `fail_at`.
pub fn exercise_faulty(map: &Map, big: bool, address_size: u8, convert: bool, fail_at: u64, total: u64) -> R<u64> {
    let endian = if big { RunTimeEndian::Big } else { RunTimeEndian::Little };
    let size: u64 = map.values().map(|v| v.len() as u64).sum();
    let mut b = Bud { per_iter: 8 * size + 256, total, used: 0, errors: 0, skipped_deep_write: false };
    let ops = Rc::new(Cell::new(0u64));
    let empty: Vec<u8> = Vec::new();
    let dwarf: gimli::Dwarf<FaultReader> = gimli::Dwarf::load(|id| -> Result<_, gimli::Error> { Ok(FaultReader::new(map.get(id.name()).unwrap_or(&empty), endian, ops.clone(), fail_at)) }).unwrap();
    exercise_dwarf(&dwarf, &mut b)?;
    // frame sections and the converters through the failing reader as well
    let bases = gimli::BaseAddresses::default().set_eh_frame(0x1000).set_text(0x2000).set_got(0x3000);
    let mut df = gimli::DebugFrame::from(FaultReader::new(map.get(".debug_frame").unwrap_or(&empty), endian, ops.clone(), fail_at));
    df.set_address_size(address_size);
    frames(&df, &bases, &mut b)?;
    let mut ef = gimli::EhFrame::from(FaultReader::new(map.get(".eh_frame").unwrap_or(&empty), endian, ops.clone(), fail_at));
    ef.set_address_size(address_size);
    frames(&ef, &bases, &mut b)?;
    if convert {
        use gimli::write as w;
        let ca = |a: u64| Some(w::Address::Constant(a));
        let _ = w::Dwarf::from(&dwarf, &ca);
        let _ = w::FrameTable::from(&df, &ca);
        let _ = w::FrameTable::from(&ef, &ca);
    }
    Ok(ops.get())
}

// ---------------------------------------------------------------------------
// inputs
// ---------------------------------------------------------------------------

const SECTION_NAMES: [&str; 24] = [
    ".debug_info", ".debug_abbrev", ".debug_str", ".debug_line", ".debug_line_str", ".debug_ranges", ".debug_rnglists", ".debug_loc", ".debug_loclists", ".debug_addr", ".debug_str_offsets", ".debug_aranges", ".debug_types", ".debug_macinfo", ".debug_macro", ".debug_pubnames", ".debug_pubtypes", ".debug_names", ".debug_cu_index", ".debug_tu_index", ".debug_frame", ".eh_frame", ".eh_frame_hdr", ".debug_line",
];

/// Well-formed material to mutate.
pub fn seed_sections(ch: &mut Choices, big_out: &mut bool, addr_out: &mut u8) -> Map {
    let mut map: Map = match ch.below(4) {
        0 => {
            let d = crate::fullasm::gen_fdwarf(ch, &crate::fullasm::GenOpts { max_units: 3, max_dies: 10, lines: true, bad_refs: 0, split: false });
            *big_out = d.big;
            *addr_out = d.units[0].address_size;
            let asm = crate::fullasm::assemble(&d);
            let mut sections = asm.sections;
            // sibling pointers that lie: DW_AT_sibling (the first attribute, a 4-byte unit offset right after the
            // one-byte abbreviation code) of an entry with children overwritten with an offset inside that same entry,
            // at its start, just before it, or far away
            if ch.chance(70) {
                let cands: Vec<(usize, usize)> = d.units.iter().enumerate().flat_map(|(ui, u)| (0..u.dies.len()).filter(move |i| u.dies[*i].sibling && !u.children(*i).is_empty()).map(move |i| (ui, i))).collect();
                if !cands.is_empty() {
                    let t = cands[ch.below(cands.len())];
                    if let Some((uoff, soff)) = asm.positions.get(&t).copied() {
                        let v = (uoff as i64 + ch.pick(&[0i64, 1, 2, 3, 4, 5, 6, 8, -1, 0x1000])) as u32;
                        let bytes = if d.big { v.to_be_bytes() } else { v.to_le_bytes() };
                        if let Some(info) = sections.get_mut(".debug_info") {
                            if soff + 5 <= info.len() {
                                info[soff + 1..soff + 5].copy_from_slice(&bytes);
                            }
                        }
                    }
                }
            }
            // an eight-byte unit reference (DW_FORM_ref8) in a unit that does not start the section, overwritten with
            // a value next to 2^64: unit offset + reference must not be computed unchecked
            if ch.chance(50) && d.units.len() >= 2 {
                if let Some(info) = sections.get_mut(".debug_info") {
                    'outer: for ui in (1..d.units.len()).rev() {
                        let start = asm.unit_offsets[ui];
                        let end = asm.unit_offsets.get(ui + 1).copied().unwrap_or(info.len());
                        for ((tu, _), (uoff, _)) in asm.positions.iter() {
                            if *tu != ui || *uoff == 0 {
                                continue;
                            }
                            let pat = if d.big { (*uoff as u64).to_be_bytes() } else { (*uoff as u64).to_le_bytes() };
                            if let Some(at) = (start..end.saturating_sub(8)).find(|i| info[*i..*i + 8] == pat) {
                                let v: u64 = ch.pick(&[u64::MAX, u64::MAX - 1, u64::MAX - start as u64 + 1, 1 << 63]);
                                let bytes = if d.big { v.to_be_bytes() } else { v.to_le_bytes() };
                                info[at..at + 8].copy_from_slice(&bytes);
                                break 'outer;
                            }
                        }
                    }
                }
            }
            sections
        }
        1 => {
            let c = crate::c12::gen_line(ch);
            *big_out = c.big;
            *addr_out = c.h.address_size;
            let s = crate::c12::build_line_sections(&c);
            let mut m = Map::new();
            m.insert(".debug_info", s.info);
            m.insert(".debug_abbrev", s.abbrev);
            m.insert(".debug_line", s.line);
            m.insert(".debug_str", s.strs);
            m.insert(".debug_line_str", s.line_strs);
            m
        }
        2 => {
            let f = crate::c12::gen_frame(ch);
            *big_out = f.big;
            *addr_out = f.address_size;
            let built = crate::cfimodel::build_frame(f.eh, f.big, &f.cies, &f.fdes, &f.order, f.eh);
            let mut m = Map::new();
            m.insert(if f.eh { ".eh_frame" } else { ".debug_frame" }, built.bytes);
            m
        }
        _ => Map::new(),
    };
    // the remaining tables: small hand-made well-formed examples (both formats are produced by mutation of the length field)
    let big = *big_out;
    let w16 = |v: u16| if big { v.to_be_bytes().to_vec() } else { v.to_le_bytes().to_vec() };
    let w32 = |v: u32| if big { v.to_be_bytes().to_vec() } else { v.to_le_bytes().to_vec() };
    let w64 = |v: u64| if big { v.to_be_bytes().to_vec() } else { v.to_le_bytes().to_vec() };
    if !map.contains_key(".debug_aranges") {
        // two sets, address size 8 and 4
        let mut s = Vec::new();
        let body8: Vec<u8> = [w16(2), w32(0), vec![8, 0], vec![0; 4], w64(0x1000), w64(0x20), w64(0x3000), w64(0x8), w64(0), w64(0)].concat();
        s.extend(w32(body8.len() as u32));
        s.extend(body8);
        let body4: Vec<u8> = [w16(2), w32(0x40), vec![4, 0], vec![0; 4], w32(0x1000), w32(0x20), w32(0), w32(0)].concat();
        s.extend(w32(body4.len() as u32));
        s.extend(body4);
        map.insert(".debug_aranges", s);
    }
    for name in [".debug_pubnames", ".debug_pubtypes"] {
        let mut s = Vec::new();
        for k in 0..2u32 {
            let body: Vec<u8> = [w16(2), w32(k * 0x30), w32(0x30), w32(0x0b), b"main\0".to_vec(), w32(0x1d), b"x\0".to_vec(), w32(0)].concat();
            s.extend(w32(body.len() as u32));
            s.extend(body);
        }
        map.insert(name, s);
    }
    {
        // .debug_macinfo: define, start_file, end_file, undef, vendor ext, terminator
        let s: Vec<u8> = [vec![1, 5], b"A 1\0".to_vec(), vec![3, 1, 1], vec![4], vec![2, 7], b"A\0".to_vec(), vec![255, 3], b"v\0".to_vec(), vec![0]].concat();
        map.insert(".debug_macinfo", s);
        // .debug_macro v5: header (version 5, flags 0), define, define_strp, start_file, end_file, import, terminator
        let s: Vec<u8> = [w16(5), vec![0], vec![1, 3], b"B 2\0".to_vec(), vec![5, 4], w32(0), vec![3, 2, 1], vec![4], vec![7], w32(0), vec![0]].concat();
        map.insert(".debug_macro", s);
    }
    {
        // .debug_cu_index v2: 2 columns, 1 unit, 2 slots
        let mut s: Vec<u8> = [w32(2), w32(2), w32(1), w32(2)].concat();
        s.extend([w64(0x1122_3344_5566_7788), w64(0)].concat());
        s.extend([w32(1), w32(0)].concat());
        s.extend([w32(1), w32(3)].concat()); // section ids: info, abbrev
        s.extend([w32(0), w32(0)].concat()); // offsets
        s.extend([w32(0x40), w32(0x10)].concat()); // sizes
        map.insert(".debug_cu_index", s.clone());
        // v5 variant for the tu index
        let mut t: Vec<u8> = [w16(5), w16(0), w32(2), w32(1), w32(2)].concat();
        t.extend(s[16..].to_vec());
        map.insert(".debug_tu_index", t);
    }
    {
        // .debug_names: one CU, no type units, one bucket, one name, one abbreviation
        let body: Vec<u8> = [
            w16(5),
            w16(0),
            w32(1),
            w32(0),
            w32(0),
            w32(1),
            w32(1),
            w32(5),
            w32(4),
            b"LLVM".to_vec(),
            w32(0),                      // CU offsets
            w32(1),                      // bucket
            w32(0x7c9a_7f6a),            // hash
            w32(0),                      // string offset
            w32(0),                      // entry offset
            vec![1, 0x2e, 3, 0x13, 0, 0, 0], // abbreviation 1: subprogram, die_offset ref4; terminator
            vec![1],
            w32(0x2a),
            vec![0],
        ]
        .concat();
        let mut s = w32(body.len() as u32);
        s.extend(body);
        map.insert(".debug_names", s);
    }
    if !map.contains_key(".eh_frame_hdr") {
        // version 1, eh_frame_ptr pcrel sdata4, count udata4, table datarel sdata4, 2 entries
        let s: Vec<u8> = [vec![1, 0x1b, 0x03, 0x3b], w32(0x100), w32(2), w32(0x10), w32(0x40), w32(0x80), w32(0x60)].concat();
        map.insert(".eh_frame_hdr", s);
    }
    map
}

const EXTREMES: [&[u8]; 10] = [
    &[0xff, 0xff, 0xff, 0xff],
    &[0xff, 0xff, 0xff, 0xff, 0xff, 0xff, 0xff, 0xff, 0xff, 0xff, 0xff, 0xff],
    &[0xff, 0xff, 0xff, 0xff, 0xff, 0xff, 0xff, 0xff, 0xff, 0x01],
    &[0x80, 0x80, 0x80, 0x80, 0x80, 0x80, 0x80, 0x80, 0x80, 0x80, 0x80, 0x80, 0x00],
    &[0xf0, 0xff, 0xff, 0xff],
    &[0x00, 0x00, 0x00, 0x00, 0x00, 0x00, 0x00, 0x00],
    &[0xff, 0xff, 0xff, 0x7f],
    &[0xfe, 0xff, 0xff, 0xff, 0xff, 0xff, 0xff, 0xff],
    &[0x21],
    &[0xa3, 0x02, 0xa3, 0x00],
];

fn mutate(map: &mut Map, ch: &mut Choices) {
    let n = ch.below(6);
    let names: Vec<&'static str> = map.keys().copied().collect();
    if names.is_empty() {
        return;
    }
    for _ in 0..n {
        let name = names[ch.below(names.len())];
        let len = map[name].len();
        match ch.below(10) {
            0 | 1 => {
                // byte flips
                if len > 0 {
                    let at = ch.below(len);
                    let v = ch.u8();
                    map.get_mut(name).unwrap()[at] = v;
                }
            }
            2 => {
                // extreme value overwrite
                if len > 0 {
                    let at = ch.below(len);
                    let e = EXTREMES[ch.below(EXTREMES.len())];
                    let s = map.get_mut(name).unwrap();
                    for (i, b) in e.iter().enumerate() {
                        if at + i < s.len() {
                            s[at + i] = *b;
                        }
                    }
                }
            }
            3 => {
                // truncate
                let at = ch.below(len + 1);
                map.get_mut(name).unwrap().truncate(at);
            }
            4 => {
                // insert extreme bytes
                let at = ch.below(len + 1);
                let e = EXTREMES[ch.below(EXTREMES.len())];
                let s = map.get_mut(name).unwrap();
                let tail = s.split_off(at);
                s.extend_from_slice(e);
                s.extend(tail);
            }
            5 => {
                // splice a piece of another section
                let other = names[ch.below(names.len())];
                let o = map[other].clone();
                if !o.is_empty() {
                    let a = ch.below(o.len());
                    let l = 1 + ch.below((o.len() - a).min(24));
                    let at = ch.below(len + 1);
                    let s = map.get_mut(name).unwrap();
                    let tail = s.split_off(at);
                    s.extend_from_slice(&o[a..a + l]);
                    s.extend(tail);
                }
            }
            6 => {
                // duplicate a range in place (repeated structures, self-similar nesting)
                if len > 1 {
                    let a = ch.below(len);
                    let l = 1 + ch.below((len - a).min(16));
                    let s = map.get_mut(name).unwrap();
                    let piece = s[a..a + l].to_vec();
                    let times = 1 + ch.below(40);
                    let tail = s.split_off(a);
                    for _ in 0..times {
                        s.extend_from_slice(&piece);
                    }
                    s.extend(tail);
                }
            }
            7 => {
                // swap two sections' contents
                let other = names[ch.below(names.len())];
                let a = map[name].clone();
                let b = map[other].clone();
                map.insert(name, b);
                map.insert(other, a);
            }
            8 if ch.chance(128) => {
                // a long run of one byte value (zeros look like terminators / null entries; 0x80 like endless LEB128)
                if len > 0 || ch.bool() {
                    let at = ch.below(len + 1);
                    let n = ch.pick(&[300usize, 5_000, 70_000, 300_000]);
                    let v = ch.pick(&[0u8, 0, 0x80, 0xff, 0x01]);
                    let s = map.get_mut(name).unwrap();
                    let tail = s.split_off(at);
                    s.extend(std::iter::repeat(v).take(n));
                    s.extend(tail);
                }
            }
            _ => {
                // random bytes
                let k = ch.below(40);
                let bytes = ch.bytes(k);
                map.insert(name, bytes);
            }
        }
    }
}

fn describe(map: &Map) -> String {
    map.iter().filter(|(_, v)| !v.is_empty()).map(|(k, v)| format!("{}:{}", k, hex(v))).collect::<Vec<_>>().join(" ")
}

fn check(ch: &mut Choices, cx: &mut Ctx) -> R {
    let mut big = ch.bool();
    let mut address_size = ch.pick(&[8u8, 4, 2, 1, 8, 4]);
    let mode = ch.below(10);
    if mode == 8 && ch.chance(64) {
        // deeply nested structures: entry_value inside entry_value, and a deep chain of only children
        cx.label("input: deep nesting");
        let depth = ch.pick(&[100usize, 3_000, 40_000]);
        let chain_only = ch.bool();
        let mut inner: Vec<u8> = vec![0x30];
        for _ in 0..if chain_only { 1 } else { depth } {
            let mut w = crate::enc::W::new(false);
            w.u8(0xa3).uleb(inner.len() as u64).bytes(&inner);
            inner = w.buf;
        }
        let endian = if big { RunTimeEndian::Big } else { RunTimeEndian::Little };
        // a unit whose root carries the expression as DW_AT_location (exprloc), followed by a chain of nested children
        let mut a = crate::enc::W::new(big);
        a.uleb(1).uleb(0x11).u8(1).uleb(0x02).uleb(0x18).uleb(0x55).uleb(0x17).uleb(0).uleb(0);
        a.uleb(2).uleb(0x0b).u8(1).uleb(0).uleb(0);
        a.u8(0);
        let mut w = crate::enc::W::new(big);
        let tok = w.begin_length(false);
        w.u16(4).u32(0).u8(8);
        w.uleb(1).uleb(inner.len() as u64).bytes(&inner);
        // DW_AT_ranges of the root: the list at offset 0 of .debug_ranges (below)
        w.u32(0);
        for _ in 0..depth {
            w.uleb(2);
        }
        for _ in 0..depth + 1 {
            w.u8(0);
        }
        w.end_length(tok);
        let mut map = Map::new();
        map.insert(".debug_info", w.buf);
        map.insert(".debug_abbrev", a.buf);
        // the same expression in a location list and as a CFA expression
        let mut l = crate::enc::W::new(big);
        l.uint(0x10, 8).uint(0x20, 8).u16(inner.len().min(0xffff) as u16).bytes(&inner[..inner.len().min(0xffff)]).uint(0, 8).uint(0, 8);
        map.insert(".debug_loc", l.buf);
        {
            // a range list with a long unbroken run of entries that iteration skips (empty ranges, base selections)
            // before the one real range: skipping must not cost stack per entry
            let mut r = crate::enc::W::new(big);
            for k in 0..depth * 2 {
                if k % 64 == 63 {
                    r.uint(u64::MAX, 8).uint(0x1000, 8);
                } else {
                    r.uint(0x10, 8).uint(0x10, 8);
                }
            }
            r.uint(0x10, 8).uint(0x20, 8).uint(0, 8).uint(0, 8);
            map.insert(".debug_ranges", r.buf);
        }
        let mut f = crate::enc::W::new(big);
        let tok = f.begin_length(false);
        f.u32(0xffff_ffff).u8(1).u8(0).uleb(1).sleb(-8).u8(16).u8(0x0f).uleb(inner.len() as u64).bytes(&inner);
        f.end_length(tok);
        let tok = f.begin_length(false);
        f.u32(0).uint(0x1000, 8).uint(0x100, 8);
        f.end_length(tok);
        map.insert(".debug_frame", f.buf);
        {
            // an address range set whose tuples are mostly (0, 0) (unrelocated entries) before a real one
            let asz = ch.pick(&[1u8, 2, 4, 8]);
            let mut r = crate::enc::W::new(big);
            let tok = r.begin_length(false);
            r.u16(2).u32(0).u8(asz).u8(0);
            while (r.len() % (2 * asz as usize)) != 0 {
                r.u8(0);
            }
            for _ in 0..depth * 4 {
                r.uint(0, asz).uint(0, asz);
            }
            r.uint(0x10, asz).uint(0x20, asz).uint(0, asz).uint(0, asz);
            r.end_length(tok);
            map.insert(".debug_aranges", r.buf);
        }
        cx.sample_with(|| format!("nesting depth {} ({} bytes of expression)", depth, inner.len()));
        let _ = endian;
        // on a thread with the default stack size of spawned Rust threads (2 MiB): recursion proportional to the
        // input must not be what bounds the input size a caller can accept
        let b = std::thread::Builder::new().stack_size(2 << 20).spawn(move || exercise_all(&map, big, 8, true, 600_000)).unwrap().join().map_err(|_| Failure { sig: "c01/deep-nesting/thread-panicked".into(), detail: String::new() })??;
        if b.used > 50 {
            cx.nt();
        }
        if b.skipped_deep_write {
            cx.report(Failure { sig: "c01/known/writer-recursion-on-deep-entry-nesting".into(), detail: format!("entries nested {} deep: the converted result is not written (write::DebuggingInformationEntry::write recurses per level)", depth) })?;
            cx.label("deep entry chain: write skipped (recorded finding)");
        }
        return Ok(());
    }
    if mode == 9 {
        // expressions on their own: stack-aware generated programs (the C07 generator) and mutations of them
        cx.label("input: expression bytecode");
        let cfg = crate::enc::Cfg { big, runtime_endian: true, address_size, format64: ch.chance(64), version: ch.pick(&[5u16, 4, 3, 2]) };
        let ops = crate::c07::gen_program(ch, &cfg, 0, 12);
        let mut code = crate::exprvm::encode(&ops, &cfg);
        if ch.chance(100) && !code.is_empty() {
            for _ in 0..1 + ch.below(3) {
                let at = ch.below(code.len());
                code[at] = ch.u8();
            }
        }
        cx.sample_with(|| format!("expression {:?} addr{} bytes {}", cfg, address_size, hex(&code)));
        let endian = if big { RunTimeEndian::Big } else { RunTimeEndian::Little };
        let mut b = Bud { per_iter: 8 * code.len() as u64 + 256, total: 200_000, used: 0, errors: 0, skipped_deep_write: false };
        exercise_expression(gimli::Expression(EndianSlice::new(&code, endian)), cfg.encoding(), &mut b, 0)?;
        if b.used > 8 {
            cx.nt();
        }
        return Ok(());
    }
    let mut map = if mode == 0 {
        // purely random short sections
        cx.label("input: random bytes");
        let mut m = Map::new();
        let k = 1 + ch.below(5);
        for _ in 0..k {
            let n = ch.below(48);
            m.insert(SECTION_NAMES[ch.below(SECTION_NAMES.len())], ch.bytes(n));
        }
        m
    } else {
        let mut m = seed_sections(ch, &mut big, &mut address_size);
        if mode <= 2 {
            cx.label("input: well-formed");
        } else {
            cx.label("input: mutated well-formed sections");
            mutate(&mut m, ch);
        }
        m
    };
    if ch.chance(30) {
        address_size = ch.pick(&[1u8, 2, 4, 8]);
    }
    if ch.chance(30) {
        big = !big;
    }
    map.retain(|_, v| v.len() < 200_000);
    cx.sample_with(|| format!("{} addr{} {}", if big { "BE" } else { "LE" }, address_size, describe(&map)));
    let size: usize = map.values().map(|v| v.len()).sum();
    let b = exercise_all(&map, big, address_size, true, 300_000)?;
    if b.errors > 0 && b.used > 50 {
        cx.nt();
    }
    if b.skipped_deep_write {
        cx.report(Failure { sig: "c01/known/writer-recursion-on-deep-entry-nesting".into(), detail: "entries nested more than 1000 deep: the converted result is not written".into() })?;
    }
    // truncation at every byte (strided for larger inputs) of one section
    if ch.chance(60) && size > 0 {
        cx.label("truncation sweep");
        let names: Vec<&'static str> = map.keys().copied().collect();
        let name = names[ch.below(names.len())];
        let full = map[name].clone();
        let stride = (full.len() / 48).max(1);
        let mut cut = 0;
        while cut < full.len() {
            let mut m2 = map.clone();
            m2.insert(name, full[..cut].to_vec());
            exercise_all(&m2, big, address_size, cut % (4 * stride) == 0, 40_000)?;
            cut += stride;
        }
    }
    // reader failures at every operation (strided)
    if ch.chance(60) {
        cx.label("reader fault sweep");
        let total_ops = exercise_faulty(&map, big, address_size, true, u64::MAX, 60_000)?;
        let stride = (total_ops / 40).max(1);
        let mut k = 1;
        while k <= total_ops {
            exercise_faulty(&map, big, address_size, k % 3 == 0, k, 60_000)?;
            k += stride;
        }
    }
    ensure!(true, "c01/unused", "");
    Ok(())
}

impl Prop for C01 {
    fn id(&self) -> &'static str {
        "C01"
    }
    fn rule(&self) -> &'static str {
        "section sets that are (10%) random byte strings in 1-5 randomly named sections, (20%) well-formed, or (70%) well-formed and then mutated by 0-5 operations (byte overwrite, overwrite/insert of extreme LEB128/length/count patterns, truncation, splice from another section, in-place repetition of a range up to 40 times, section swap, replacement by random bytes). Well-formed material: assembler-built multi-unit .debug_info with all side tables (fullasm), line programs using every opcode, .debug_frame/.eh_frame with every instruction, plus small .debug_aranges/.debug_pubnames/.debug_pubtypes/.debug_macinfo/.debug_macro/.debug_cu_index/.debug_tu_index/.debug_names/.eh_frame_hdr tables; both byte orders, address sizes 1/2/4/8. Every case drives every public reading entry point (unit headers, units, three entry traversals, raw entries, trees, every attribute accessor and Dwarf-level resolver, range/location lists raw and cooked, line instructions/rows/sequences, macro iterators, string/address/offset tables, aranges, pubnames/pubtypes, .debug_names lookups, package indexes, CIE/FDE parsing, CFI instructions, unwind rows and address lookups, .eh_frame_hdr table), the expression decoder and evaluator with canned answers to every request kind, and Dwarf::from / FrameTable::from followed by writing. Oracle: no panic (incl. arithmetic overflow and debug assertions in the dev profile), no abort/stack overflow/hang (worker exit status and watchdog), every lazy iterator ends within 8 x total input size + 256 steps when errors are ignored, and nothing is yielded after an iterator has reported an error. 60% of cases additionally sweep truncation points of one section (every byte up to 48, strided beyond) and 60% sweep the operation at which a fault-injecting Reader fails. Non-trivial = at least one error was returned and more than 50 steps were taken; distinct by choice string. Later additions: the filtered conversion (FilterUnitSection, convert_with_filter, write) among the entry points; deep inputs with a range list made of a long run of skipped entries; eight-byte unit references of later units set next to 2^64; line programs with operation advances next to 2^64."
    }
    fn assumptions(&self) -> Vec<&'static str> {
        vec![
            "recursion depth of the harness's own tree walk is capped at 200 (EntriesTree borrows force caller recursion)",
            "the evaluator is given a 2000-iteration limit; without a limit termination is the caller's responsibility by documentation",
            "memory-safety is checked only through Rust's own checks in this tier (no sanitizer); gimli forbids unsafe code outside of stable_deref_trait usage",
        ]
    }
    fn max_len(&self) -> usize {
        900
    }
    fn cases(&self, tier: Tier, dev: bool) -> u64 {
        match (tier, dev) {
            (Tier::Quick, false) => 6_000,
            (Tier::Quick, true) => 1_500,
            (Tier::Thorough, false) => 400_000,
            (Tier::Thorough, true) => 60_000,
        }
    }
    fn run_case(&self, ch: &mut Choices, cx: &mut Ctx) -> R {
        check(ch, cx)
    }
}

/// Well-formed inputs in the encoding of the `sections` fuzz target ([config][selector][u16 length][bytes]...).
pub fn corpus_entry(seed: u64) -> Vec<u8> {
    const NAMES: [&str; 23] = [
        ".debug_info", ".debug_abbrev", ".debug_str", ".debug_line", ".debug_line_str", ".debug_ranges", ".debug_rnglists", ".debug_loc", ".debug_loclists", ".debug_addr", ".debug_str_offsets", ".debug_aranges", ".debug_types", ".debug_macinfo", ".debug_macro", ".debug_pubnames", ".debug_pubtypes", ".debug_names", ".debug_cu_index", ".debug_tu_index", ".debug_frame", ".eh_frame", ".eh_frame_hdr",
    ];
    // a deterministic pseudo-random choice string
    let mut x = seed.wrapping_mul(0x9e37_79b9_7f4a_7c15) | 1;
    let bytes: Vec<u8> = (0..600)
        .map(|_| {
            x ^= x << 13;
            x ^= x >> 7;
            x ^= x << 17;
            (x >> 24) as u8
        })
        .collect();
    let mut ch = Choices::new(&bytes);
    let mut big = false;
    let mut a = 8u8;
    let map = seed_sections(&mut ch, &mut big, &mut a);
    encode_sections(&map, big, a)
}

/// The `sections` fuzz target's input encoding.
pub fn encode_sections(map: &Map, big: bool, a: u8) -> Vec<u8> {
    const NAMES: [&str; 23] = [
        ".debug_info", ".debug_abbrev", ".debug_str", ".debug_line", ".debug_line_str", ".debug_ranges", ".debug_rnglists", ".debug_loc", ".debug_loclists", ".debug_addr", ".debug_str_offsets", ".debug_aranges", ".debug_types", ".debug_macinfo", ".debug_macro", ".debug_pubnames", ".debug_pubtypes", ".debug_names", ".debug_cu_index", ".debug_tu_index", ".debug_frame", ".eh_frame", ".eh_frame_hdr",
    ];
    let mut out = vec![(big as u8) | match a {
        8 => 0,
        4 => 2,
        2 => 4,
        _ => 6,
    }];
    for (name, data) in map {
        let plain = name.trim_end_matches(".dwo");
        let Some(idx) = NAMES.iter().position(|n| *n == plain) else { continue };
        for chunk in data.chunks(0xffff).take(1) {
            out.push(idx as u8);
            out.extend_from_slice(&(chunk.len() as u16).to_le_bytes());
            out.extend_from_slice(chunk);
        }
    }
    out
}
