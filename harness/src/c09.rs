//! C09 — primitive codecs: LEB128, sized integers and lengths are exact.
use crate::core::*;
use crate::enc::W;
use crate::{ensure, ensure_eq, fail};
use gimli::write::Writer;
use gimli::{EndianSlice, Reader};

pub struct C09;

// ---------------------------------------------------------------------------
// Reference model for LEB128 (arbitrary length input, bit-group reasoning)
// ---------------------------------------------------------------------------

#[derive(Debug, Clone, PartialEq, Eq)]
pub enum Leb {
    /// the encoding ends at `len` bytes, fits the width; value given (two's complement in u64 for signed)
    Fits { value: u64, len: usize },
    /// the encoding ends at `len` bytes but the mathematical value does not fit
    TooBig { len: usize },
    /// no byte without continuation bit
    Eof,
}

/// Decode the LEB128 number at the start of `bytes` for a target of `width` bits.
pub fn leb_model(bytes: &[u8], signed: bool, width: u32) -> Leb {
    let mut n = 0;
    loop {
        match bytes.get(n) {
            None => return Leb::Eof,
            Some(b) => {
                n += 1;
                if b & 0x80 == 0 {
                    break;
                }
            }
        }
    }
    let groups = &bytes[..n];
    let total_bits = 7 * n as u32;
    let bit = |i: u32| -> bool {
        // bit i of the infinitely sign/zero-extended number
        if i < total_bits {
            (groups[(i / 7) as usize] >> (i % 7)) & 1 == 1
        } else if signed {
            (groups[n - 1] >> 6) & 1 == 1
        } else {
            false
        }
    };
    let mut value: u64 = 0;
    for i in 0..64 {
        if bit(i) {
            value |= 1 << i;
        }
    }
    let top = total_bits.max(width + 1);
    let fits = if signed {
        let sign = bit(width - 1);
        (width..top).all(|i| bit(i) == sign)
    } else {
        (width..top).all(|i| !bit(i))
    };
    if fits {
        Leb::Fits { value, len: n }
    } else {
        Leb::TooBig { len: n }
    }
}

/// Maximal number of bytes a reader for `width` bits must accept: ceil(width/7).
fn max_len(width: u32) -> usize {
    width.div_ceil(7) as usize
}

#[derive(Clone, Copy, Debug, PartialEq, Eq)]
pub enum LebKind {
    U64,
    S64,
    U32,
    U16,
    Skip,
}

fn judge_leb(kind: LebKind, bytes: &[u8], res: Result<u64, gimli::Error>, consumed: usize) -> R {
    let (signed, width) = match kind {
        LebKind::U64 | LebKind::Skip => (false, 64),
        LebKind::S64 => (true, 64),
        LebKind::U32 => (false, 32),
        LebKind::U16 => (false, 16),
    };
    let sig = match kind {
        LebKind::U64 => "c09/uleb64",
        LebKind::S64 => "c09/sleb64",
        LebKind::U32 => "c09/uleb32",
        LebKind::U16 => "c09/uleb16",
        LebKind::Skip => "c09/skip_leb",
    };
    let m = leb_model(bytes, signed, width);
    if kind == LebKind::Skip {
        match (&m, &res) {
            (Leb::Eof, Err(gimli::Error::UnexpectedEof(_))) => return Ok(()),
            (Leb::Eof, _) => fail!(format!("{sig}/eof"), "bytes={:02x?} expected UnexpectedEof got {:?}", bytes, res),
            (Leb::Fits { len, .. }, Ok(_)) | (Leb::TooBig { len }, Ok(_)) => {
                ensure_eq!(consumed, *len, format!("{sig}/consumed"), "bytes={:02x?}", bytes);
                return Ok(());
            }
            (_, Err(e)) => fail!(format!("{sig}/err"), "bytes={:02x?} skip must succeed, got {:?}", bytes, e),
        }
    }
    match (m, res) {
        (Leb::Eof, Err(gimli::Error::UnexpectedEof(_))) => Ok(()),
        // a reader may give up on an over-long encoding before reaching the end of input
        (Leb::Eof, Err(_)) if bytes.len() >= max_len(width) => Ok(()),
        (Leb::Eof, r) => fail!(format!("{sig}/eof"), "bytes={:02x?} expected UnexpectedEof got {:?}", bytes, r),
        (Leb::TooBig { .. }, Err(gimli::Error::UnexpectedEof(_))) => {
            fail!(format!("{sig}/toobig-eof"), "bytes={:02x?}: value does not fit, got UnexpectedEof", bytes)
        }
        (Leb::TooBig { .. }, Err(_)) => Ok(()),
        (Leb::TooBig { len }, Ok(v)) => {
            fail!(format!("{sig}/accepted-overflow"), "bytes={:02x?}: value does not fit in {} bits but reader returned {:#x} (len {})", &bytes[..len], width, v, len)
        }
        (Leb::Fits { value, len }, Ok(v)) => {
            ensure_eq!(v, value, format!("{sig}/value"), "bytes={:02x?}", &bytes[..len]);
            ensure_eq!(consumed, len, format!("{sig}/consumed"), "bytes={:02x?}", &bytes[..len]);
            Ok(())
        }
        (Leb::Fits { value, len }, Err(e)) => {
            // Only over-long (padded) encodings may be refused.
            if len > max_len(width) {
                Ok(())
            } else {
                fail!(format!("{sig}/rejected-valid"), "bytes={:02x?}: value {:#x} fits but reader returned {:?}", &bytes[..len], value, e)
            }
        }
    }
}

fn run_leb<E: gimli::Endianity>(endian: E, kind: LebKind, bytes: &[u8]) -> R {
    let mut r = EndianSlice::new(bytes, endian);
    let res: Result<u64, gimli::Error> = match kind {
        LebKind::U64 => r.read_uleb128(),
        LebKind::S64 => r.read_sleb128().map(|v| v as u64),
        LebKind::U32 => r.read_uleb128_u32().map(u64::from),
        LebKind::U16 => r.read_uleb128_u16().map(u64::from),
        LebKind::Skip => r.skip_leb128().map(|_| 0),
    };
    let consumed = bytes.len() - r.len();
    judge_leb(kind, bytes, res, consumed)
}

const ALL_KINDS: [LebKind; 5] = [LebKind::U64, LebKind::S64, LebKind::U32, LebKind::U16, LebKind::Skip];

fn all_leb(bytes: &[u8]) -> R {
    for k in ALL_KINDS {
        run_leb(gimli::LittleEndian, k, bytes)?;
    }
    // the free functions in gimli::leb128::read as well
    let mut r = EndianSlice::new(bytes, gimli::BigEndian);
    let res = gimli::leb128::read::unsigned(&mut r);
    judge_leb(LebKind::U64, bytes, res, bytes.len() - r.len())?;
    let mut r = EndianSlice::new(bytes, gimli::BigEndian);
    let res = gimli::leb128::read::signed(&mut r).map(|v| v as u64);
    judge_leb(LebKind::S64, bytes, res, bytes.len() - r.len())?;
    let mut r = EndianSlice::new(bytes, gimli::BigEndian);
    let res = gimli::leb128::read::u16(&mut r).map(u64::from);
    judge_leb(LebKind::U16, bytes, res, bytes.len() - r.len())?;
    let mut r = EndianSlice::new(bytes, gimli::BigEndian);
    let res = gimli::leb128::read::skip(&mut r).map(|_| 0);
    judge_leb(LebKind::Skip, bytes, res, bytes.len() - r.len())?;
    Ok(())
}

// ---------------------------------------------------------------------------
// write → read
// ---------------------------------------------------------------------------

fn ev<E: gimli::Endianity>(e: E) -> gimli::write::EndianVec<E> {
    gimli::write::EndianVec::new(e)
}

fn write_read_u64<E: gimli::Endianity>(endian: E, big: bool, v: u64) -> R {
    // ULEB
    let mut w = ev(endian);
    w.write_uleb128(v).map_err(|e| Failure { sig: "c09/write_uleb/err".into(), detail: format!("{e:?}") })?;
    let mut mine = W::new(big);
    mine.uleb(v);
    ensure_eq!(w.slice(), &mine.buf[..], "c09/write_uleb/bytes", "v={:#x}", v);
    ensure_eq!(gimli::leb128::write::uleb128_size(v), mine.len(), "c09/uleb128_size", "v={:#x}", v);
    let l = gimli::leb128::write::Leb128::unsigned(v);
    ensure_eq!(l.len(), mine.len(), "c09/Leb128::len", "v={:#x}", v);
    ensure_eq!(l.bytes(), &mine.buf[..], "c09/Leb128::bytes", "v={:#x}", v);
    let mut out = Vec::new();
    let n = gimli::leb128::write::unsigned(&mut out, v).unwrap();
    ensure_eq!(n, out.len(), "c09/leb128::write::unsigned/len", "v={:#x}", v);
    ensure_eq!(&out[..], &mine.buf[..], "c09/leb128::write::unsigned/bytes", "v={:#x}", v);
    let mut r = EndianSlice::new(w.slice(), endian);
    ensure_eq!(r.read_uleb128().ok(), Some(v), "c09/uleb-roundtrip", "v={:#x}", v);
    ensure!(r.is_empty(), "c09/uleb-roundtrip/len", "v={:#x} left {}", v, r.len());
    // 32/16-bit readers on written value
    let mut r = EndianSlice::new(w.slice(), endian);
    let got = r.read_uleb128_u32();
    if v <= u32::MAX as u64 {
        ensure_eq!(got.ok(), Some(v as u32), "c09/uleb32-roundtrip", "v={:#x}", v);
    } else {
        ensure!(got.is_err(), "c09/uleb32/accepted-overflow", "v={:#x} got {:?}", v, got);
    }
    let mut r = EndianSlice::new(w.slice(), endian);
    let got = r.read_uleb128_u16();
    if v <= u16::MAX as u64 {
        ensure_eq!(got.ok(), Some(v as u16), "c09/uleb16-roundtrip", "v={:#x}", v);
    } else {
        ensure!(got.is_err(), "c09/uleb16/accepted-overflow", "v={:#x} got {:?}", v, got);
    }

    // SLEB
    let sv = v as i64;
    let mut w = ev(endian);
    w.write_sleb128(sv).map_err(|e| Failure { sig: "c09/write_sleb/err".into(), detail: format!("{e:?}") })?;
    let mut mine = W::new(big);
    mine.sleb(sv);
    ensure_eq!(w.slice(), &mine.buf[..], "c09/write_sleb/bytes", "v={}", sv);
    ensure_eq!(gimli::leb128::write::sleb128_size(sv), mine.len(), "c09/sleb128_size", "v={}", sv);
    let l = gimli::leb128::write::Leb128::signed(sv);
    ensure_eq!(l.len(), mine.len(), "c09/Leb128::signed/len", "v={}", sv);
    ensure_eq!(l.bytes(), &mine.buf[..], "c09/Leb128::signed/bytes", "v={}", sv);
    let mut out = Vec::new();
    let n = gimli::leb128::write::signed(&mut out, sv).unwrap();
    ensure_eq!(n, out.len(), "c09/leb128::write::signed/len", "v={}", sv);
    let mut r = EndianSlice::new(w.slice(), endian);
    ensure_eq!(r.read_sleb128().ok(), Some(sv), "c09/sleb-roundtrip", "v={}", sv);
    ensure!(r.is_empty(), "c09/sleb-roundtrip/len", "v={} left {}", sv, r.len());

    // udata / sdata with each size, including unsupported sizes
    for size in [0u8, 1, 2, 3, 4, 5, 7, 8, 9, 16, 255] {
        let mut w = ev(endian);
        let res = w.write_udata(v, size);
        let valid = matches!(size, 1 | 2 | 4 | 8);
        let fits = valid && (size == 8 || v < (1u64 << (8 * size as u32)));
        if fits {
            ensure!(res.is_ok(), "c09/write_udata/rejected", "v={:#x} size={} -> {:?}", v, size, res);
            ensure_eq!(w.len(), size as usize, "c09/write_udata/len", "v={:#x} size={}", v, size);
            let mut mine = W::new(big);
            mine.uint(v, size);
            ensure_eq!(w.slice(), &mine.buf[..], "c09/write_udata/bytes", "v={:#x} size={}", v, size);
            let mut r = EndianSlice::new(w.slice(), endian);
            ensure_eq!(r.read_uint(size as usize).ok(), Some(v), "c09/udata-roundtrip/read_uint", "size={}", size);
            let mut r = EndianSlice::new(w.slice(), endian);
            ensure_eq!(r.read_address(size).ok(), Some(v), "c09/udata-roundtrip/read_address", "size={}", size);
            let mut r = EndianSlice::new(w.slice(), endian);
            ensure_eq!(r.read_sized_offset(size).ok(), Some(v as usize), "c09/udata-roundtrip/read_sized_offset", "size={}", size);
            // write_udata_at over a zeroed buffer of the same size
            let mut w2 = ev(endian);
            w2.write(&[0xaa]).unwrap();
            w2.write(&vec![0u8; size as usize]).unwrap();
            w2.write(&[0xbb]).unwrap();
            let res2 = w2.write_udata_at(1, v, size);
            ensure!(res2.is_ok(), "c09/write_udata_at/rejected", "v={:#x} size={}", v, size);
            ensure_eq!(&w2.slice()[1..1 + size as usize], &mine.buf[..], "c09/write_udata_at/bytes", "v={:#x} size={}", v, size);
            ensure!(w2.slice()[0] == 0xaa && w2.slice()[1 + size as usize] == 0xbb, "c09/write_udata_at/neighbours", "size={}", size);
        } else {
            ensure!(res.is_err(), "c09/write_udata/accepted-unfit", "v={:#x} size={} wrote {:02x?}", v, size, w.slice());
            ensure_eq!(w.len(), 0, "c09/write_udata/partial-output", "v={:#x} size={}", v, size);
        }
        let mut w = ev(endian);
        let res = w.write_sdata(sv, size);
        let fits = valid && (size == 8 || (sv >= -(1i64 << (8 * size as u32 - 1)) && sv < (1i64 << (8 * size as u32 - 1))));
        if fits {
            ensure!(res.is_ok(), "c09/write_sdata/rejected", "v={} size={} -> {:?}", sv, size, res);
            let mut mine = W::new(big);
            mine.uint(sv as u64, size);
            ensure_eq!(w.slice(), &mine.buf[..], "c09/write_sdata/bytes", "v={} size={}", sv, size);
            let mut r = EndianSlice::new(w.slice(), endian);
            let back = match size {
                1 => r.read_i8().map(i64::from),
                2 => r.read_i16().map(i64::from),
                4 => r.read_i32().map(i64::from),
                _ => r.read_i64(),
            };
            ensure_eq!(back.ok(), Some(sv), "c09/sdata-roundtrip", "size={}", size);
        } else {
            ensure!(res.is_err(), "c09/write_sdata/accepted-unfit", "v={} size={} wrote {:02x?}", sv, size, w.slice());
        }
    }

    // fixed-width writes
    let mut w = ev(endian);
    w.write_u8(v as u8).unwrap();
    w.write_u16(v as u16).unwrap();
    w.write_u32(v as u32).unwrap();
    w.write_u64(v).unwrap();
    let v128 = ((v as u128) << 64) | (!v as u128);
    w.write_u128(v128).unwrap();
    let mut mine = W::new(big);
    mine.u8(v as u8).u16(v as u16).u32(v as u32).u64(v).u128(v128);
    ensure_eq!(w.slice(), &mine.buf[..], "c09/write_uN/bytes", "v={:#x}", v);
    let mut r = EndianSlice::new(w.slice(), endian);
    ensure_eq!(r.read_u8().ok(), Some(v as u8), "c09/u8-roundtrip");
    ensure_eq!(r.read_u16().ok(), Some(v as u16), "c09/u16-roundtrip");
    ensure_eq!(r.read_u32().ok(), Some(v as u32), "c09/u32-roundtrip");
    ensure_eq!(r.read_u64().ok(), Some(v), "c09/u64-roundtrip");
    ensure_eq!(r.read_u128().ok(), Some(v128), "c09/u128-roundtrip");
    ensure!(r.is_empty(), "c09/uN-roundtrip/len", "left {}", r.len());

    // initial length
    for format in [gimli::Format::Dwarf32, gimli::Format::Dwarf64] {
        let mut w = ev(endian);
        w.write(&[0x11]).unwrap();
        let off = w.write_initial_length(format).map_err(|e| Failure { sig: "c09/write_initial_length/err".into(), detail: format!("{e:?}") })?;
        ensure_eq!(w.len(), 1 + format.initial_length_size() as usize, "c09/write_initial_length/len");
        w.write(&[0x22]).unwrap();
        let res = w.write_initial_length_at(off, v, format);
        // 0xffff_fff0.. are reserved escape codes in the 32-bit format: not representable
        let fits32 = v < 0xffff_fff0;
        match (format, res) {
            (gimli::Format::Dwarf32, Err(_)) if !fits32 => {}
            (gimli::Format::Dwarf32, Ok(())) if !fits32 => {
                fail!("c09/write_initial_length_at/accepted-unfit", "length {:#x} accepted for 32-bit format", v)
            }
            (_, Err(e)) => fail!("c09/write_initial_length_at/rejected", "length {:#x} format {:?}: {:?}", v, format, e),
            (_, Ok(())) => {
                let mut r = EndianSlice::new(&w.slice()[1..], endian);
                match r.read_initial_length() {
                    Ok((len, f)) => {
                        ensure_eq!((len as u64, f), (v, format), "c09/initial-length-roundtrip");
                        ensure_eq!(r.len(), 1, "c09/initial-length-roundtrip/consumed");
                    }
                    Err(e) => fail!(
                        "c09/initial-length-roundtrip/unreadable",
                        "write_initial_length_at accepted length {:#x} for {:?} but it reads back as {:?}",
                        v,
                        format,
                        e
                    ),
                }
            }
        }
    }
    Ok(())
}

// ---------------------------------------------------------------------------
// fixed-width reads against from_{le,be}_bytes
// ---------------------------------------------------------------------------

fn fixed_reads<E: gimli::Endianity>(endian: E, big: bool, bytes: &[u8; 16]) -> R {
    macro_rules! rd {
        ($meth:ident, $t:ty, $n:expr, $sig:expr) => {{
            let mut r = EndianSlice::new(&bytes[..], endian);
            let mut a = [0u8; $n];
            a.copy_from_slice(&bytes[..$n]);
            let want = if big { <$t>::from_be_bytes(a) } else { <$t>::from_le_bytes(a) };
            let got = r.$meth();
            match got {
                Ok(g) => {
                    if g.to_ne_bytes() != want.to_ne_bytes() {
                        fail!($sig, "bytes={:02x?} big={} got={:?} want={:?}", &bytes[..$n], big, g, want);
                    }
                }
                Err(e) => fail!($sig, "bytes={:02x?} err={:?}", &bytes[..$n], e),
            }
            ensure_eq!(r.len(), 16 - $n, concat!($sig, "/consumed"));
            // truncated by one byte must be UnexpectedEof and must not consume
            let mut r = EndianSlice::new(&bytes[..$n - 1], endian);
            ensure!(matches!(r.$meth(), Err(gimli::Error::UnexpectedEof(_))), concat!($sig, "/short"), "short read not Eof");
        }};
    }
    rd!(read_u8, u8, 1, "c09/read_u8");
    rd!(read_i8, i8, 1, "c09/read_i8");
    rd!(read_u16, u16, 2, "c09/read_u16");
    rd!(read_i16, i16, 2, "c09/read_i16");
    rd!(read_u32, u32, 4, "c09/read_u32");
    rd!(read_i32, i32, 4, "c09/read_i32");
    rd!(read_u64, u64, 8, "c09/read_u64");
    rd!(read_i64, i64, 8, "c09/read_i64");
    rd!(read_u128, u128, 16, "c09/read_u128");
    rd!(read_f32, f32, 4, "c09/read_f32");
    rd!(read_f64, f64, 8, "c09/read_f64");
    // read_uint(n)
    for n in 1..=8usize {
        let mut r = EndianSlice::new(&bytes[..], endian);
        let mut want: u64 = 0;
        for i in 0..n {
            let b = bytes[i] as u64;
            if big {
                want = (want << 8) | b;
            } else {
                want |= b << (8 * i);
            }
        }
        ensure_eq!(r.read_uint(n).ok(), Some(want), "c09/read_uint", "n={} big={} bytes={:02x?}", n, big, &bytes[..n]);
        ensure_eq!(r.len(), 16 - n, "c09/read_uint/consumed");
        let mut r = EndianSlice::new(&bytes[..n - 1], endian);
        ensure!(matches!(r.read_uint(n), Err(gimli::Error::UnexpectedEof(_))), "c09/read_uint/short", "n={}", n);
    }
    // read_word / read_offset / read_length
    for (format, n) in [(gimli::Format::Dwarf32, 4usize), (gimli::Format::Dwarf64, 8usize)] {
        let mut want: u64 = 0;
        for i in 0..n {
            let b = bytes[i] as u64;
            if big {
                want = (want << 8) | b;
            } else {
                want |= b << (8 * i);
            }
        }
        let mut r = EndianSlice::new(&bytes[..], endian);
        ensure_eq!(r.read_word(format).ok(), Some(want as usize), "c09/read_word");
        ensure_eq!(r.len(), 16 - n, "c09/read_word/consumed");
        let mut r = EndianSlice::new(&bytes[..], endian);
        ensure_eq!(r.read_offset(format).ok(), Some(want as usize), "c09/read_offset");
        let mut r = EndianSlice::new(&bytes[..], endian);
        ensure_eq!(r.read_length(format).ok(), Some(want as usize), "c09/read_length");
    }
    Ok(())
}

fn sized_reads<E: gimli::Endianity>(endian: E, big: bool, size: u8, bytes: &[u8; 16]) -> R {
    let want = |n: usize| -> u64 {
        let mut want: u64 = 0;
        for i in 0..n {
            let b = bytes[i] as u64;
            if big {
                want = (want << 8) | b;
            } else {
                want |= b << (8 * i);
            }
        }
        want
    };
    let valid = matches!(size, 1 | 2 | 4 | 8);
    let mut r = EndianSlice::new(&bytes[..], endian);
    let got = r.read_address(size);
    if valid {
        ensure_eq!(got.ok(), Some(want(size as usize)), "c09/read_address", "size={}", size);
        ensure_eq!(r.len(), 16 - size as usize, "c09/read_address/consumed");
    } else {
        ensure!(matches!(got, Err(gimli::Error::UnsupportedAddressSize(s)) if s == size), "c09/read_address/invalid-size", "size={} got {:?}", size, got);
        ensure_eq!(r.len(), 16, "c09/read_address/invalid-size-consumed");
    }
    let mut r = EndianSlice::new(&bytes[..], endian);
    let got = r.read_sized_offset(size);
    if valid {
        ensure_eq!(got.ok(), Some(want(size as usize) as usize), "c09/read_sized_offset", "size={}", size);
        ensure_eq!(r.len(), 16 - size as usize, "c09/read_sized_offset/consumed");
    } else {
        ensure!(matches!(got, Err(gimli::Error::UnsupportedOffsetSize(s)) if s == size), "c09/read_sized_offset/invalid-size", "size={} got {:?}", size, got);
    }
    let two = [size, 0x55];
    let mut r = EndianSlice::new(&two[..], endian);
    let got = r.read_address_size();
    if valid {
        ensure_eq!(got.ok(), Some(size), "c09/read_address_size");
    } else {
        ensure!(got.is_err(), "c09/read_address_size/accepted", "size={}", size);
    }
    Ok(())
}

/// The integer types a Reader may use for offsets: conversion from the 64-bit values found in DWARF data must be exact or
/// refused, never truncated.
fn offset_conversions(v: u64) -> R {
    use gimli::ReaderOffset as RO;
    match <u32 as RO>::from_u64(v) {
        Ok(x) => {
            ensure!(v <= u32::MAX as u64, "c09/offset/u32-from_u64-truncates", "{:#x} -> {:#x}", v, x);
            ensure_eq!(x as u64, v, "c09/offset/u32-from_u64");
            ensure_eq!(RO::into_u64(x), v, "c09/offset/u32-into_u64");
        }
        Err(e) => {
            ensure!(v > u32::MAX as u64, "c09/offset/u32-from_u64-refuses", "{:#x}: {:?}", v, e);
            ensure!(matches!(e, gimli::Error::UnsupportedOffset), "c09/offset/u32-from_u64-error", "{:?}", e);
        }
    }
    match <u64 as RO>::from_u64(v) {
        Ok(x) => {
            ensure_eq!(x, v, "c09/offset/u64-from_u64");
            ensure_eq!(RO::into_u64(x), v, "c09/offset/u64-into_u64");
        }
        Err(e) => fail!("c09/offset/u64-from_u64-refuses", "{:#x}: {:?}", v, e),
    }
    match <usize as RO>::from_u64(v) {
        Ok(x) => {
            ensure_eq!(x as u64, v, "c09/offset/usize-from_u64");
            ensure_eq!(RO::into_u64(x), v, "c09/offset/usize-into_u64");
        }
        Err(e) => ensure!(v > usize::MAX as u64, "c09/offset/usize-from_u64-refuses", "{:#x}: {:?}", v, e),
    }
    let (b8, b16, b32) = (v as u8, v as u16, v as u32);
    ensure_eq!(RO::into_u64(<u32 as RO>::from_u8(b8)), b8 as u64, "c09/offset/u32-from_u8");
    ensure_eq!(RO::into_u64(<u32 as RO>::from_u16(b16)), b16 as u64, "c09/offset/u32-from_u16");
    ensure_eq!(RO::into_u64(<u32 as RO>::from_u32(b32)), b32 as u64, "c09/offset/u32-from_u32");
    ensure_eq!(RO::into_u64(<u64 as RO>::from_u8(b8)), b8 as u64, "c09/offset/u64-from_u8");
    ensure_eq!(RO::into_u64(<u64 as RO>::from_u16(b16)), b16 as u64, "c09/offset/u64-from_u16");
    ensure_eq!(RO::into_u64(<u64 as RO>::from_u32(b32)), b32 as u64, "c09/offset/u64-from_u32");
    ensure_eq!(RO::into_u64(<usize as RO>::from_u8(b8)), b8 as u64, "c09/offset/usize-from_u8");
    ensure_eq!(RO::into_u64(<usize as RO>::from_u16(b16)), b16 as u64, "c09/offset/usize-from_u16");
    ensure_eq!(RO::into_u64(<usize as RO>::from_u32(b32)), b32 as u64, "c09/offset/usize-from_u32");
    // a signed 16-bit displacement (DW_OP_skip/bra) is two's complement in the offset type
    let d = b16 as i16;
    ensure_eq!(<u32 as RO>::from_i16(d), d as i32 as u32, "c09/offset/u32-from_i16");
    ensure_eq!(<u64 as RO>::from_i16(d), d as i64 as u64, "c09/offset/u64-from_i16");
    ensure_eq!(<usize as RO>::from_i16(d), d as isize as usize, "c09/offset/usize-from_i16");
    let w = v.rotate_left(17);
    ensure_eq!(RO::wrapping_add(b32, w as u32), b32.wrapping_add(w as u32), "c09/offset/u32-wrapping_add");
    ensure_eq!(RO::wrapping_add(v, w), v.wrapping_add(w), "c09/offset/u64-wrapping_add");
    ensure_eq!(RO::wrapping_add(v as usize, w as usize), (v as usize).wrapping_add(w as usize), "c09/offset/usize-wrapping_add");
    ensure_eq!(RO::checked_sub(b32, w as u32), b32.checked_sub(w as u32), "c09/offset/u32-checked_sub");
    ensure_eq!(RO::checked_sub(v, w), v.checked_sub(w), "c09/offset/u64-checked_sub");
    ensure_eq!(RO::checked_sub(v as usize, w as usize), (v as usize).checked_sub(w as usize), "c09/offset/usize-checked_sub");
    Ok(())
}

fn initial_length_read<E: gimli::Endianity>(endian: E, big: bool, first: u32, next: u64) -> R {
    let mut w = W::new(big);
    w.u32(first).u64(next).u8(0x77);
    let mut r = EndianSlice::new(&w.buf[..], endian);
    let got = r.read_initial_length();
    if first < 0xffff_fff0 {
        ensure_eq!(got.ok(), Some((first as usize, gimli::Format::Dwarf32)), "c09/read_initial_length/32", "first={:#x}", first);
        ensure_eq!(r.len(), 9, "c09/read_initial_length/32/consumed");
    } else if first == 0xffff_ffff {
        ensure_eq!(got.ok(), Some((next as usize, gimli::Format::Dwarf64)), "c09/read_initial_length/64", "next={:#x}", next);
        ensure_eq!(r.len(), 1, "c09/read_initial_length/64/consumed");
    } else {
        ensure!(matches!(got, Err(gimli::Error::UnknownReservedLength(v)) if v == first), "c09/read_initial_length/reserved", "first={:#x} got {:?}", first, got);
    }
    Ok(())
}

impl Prop for C09 {
    fn id(&self) -> &'static str {
        "C09"
    }
    fn rule(&self) -> &'static str {
        "exhaustive: every byte string of length<=3 through all five LEB128 readers (+ the leb128::read free functions); 24 continuation prefixes of 8/9 bytes x all 2^16 tails (accept/reject frontier at byte 10); all 2^16 values through 16-bit write->read; all sizes 0..=255 for sized reads; reserved initial lengths. random: boundary-biased 64-bit values through every writer and back, random byte strings <=24 bytes through every LEB reader, fixed-width reads vs from_{le,be}_bytes. Oracle: bit-group LEB128 model, independent encoder. Non-trivial = LEB input of >=2 bytes or a write->read case with a value >= 128; distinct by input bytes. Later additions: the ReaderOffset conversions of u32/u64/usize at every power of two and its neighbours."
    }
    fn assumptions(&self) -> Vec<&'static str> {
        vec![
            "over-long LEB128 encodings (more bytes than ceil(width/7)) may be refused even when the padded value fits; they may never yield a wrong value",
            "read_uint is called only with n in 1..=8 (documented panic otherwise)",
            "usize is 64 bits in this image",
        ]
    }
    fn max_len(&self) -> usize {
        64
    }
    fn cases(&self, tier: Tier, dev: bool) -> u64 {
        match (tier, dev) {
            (Tier::Quick, false) => 400_000,
            (Tier::Quick, true) => 40_000,
            (Tier::Thorough, false) => 20_000_000,
            (Tier::Thorough, true) => 1_000_000,
        }
    }
    fn run_case(&self, ch: &mut Choices, cx: &mut Ctx) -> R {
        let big = ch.bool();
        let rt = ch.bool();
        let mode = ch.below(4);
        match mode {
            0 => {
                cx.label("random-leb-bytes");
                let n = 1 + ch.below(24);
                let style = ch.below(4);
                let mut bytes = Vec::with_capacity(n);
                for i in 0..n {
                    let b = match style {
                        0 => ch.u8(),
                        1 => ch.u8() | 0x80,
                        2 => *[0x80u8, 0xff, 0x81, 0x00, 0x7f, 0x01, 0x02, 0x40].get(ch.below(8)).unwrap(),
                        _ => {
                            if i + 1 == n {
                                ch.u8() & 0x7f
                            } else {
                                ch.u8() | 0x80
                            }
                        }
                    };
                    bytes.push(b);
                }
                if n >= 2 && bytes[0] & 0x80 != 0 {
                    cx.nt();
                }
                cx.sample_with(|| format!("leb bytes {:02x?}", bytes));
                all_leb(&bytes)
            }
            1 => {
                cx.label("write-read-value");
                let v = ch.biased(64);
                if v >= 128 {
                    cx.nt();
                }
                cx.sample_with(|| format!("write->read value {:#x} big={} runtime_endian={}", v, big, rt));
                if rt {
                    write_read_u64(if big { gimli::RunTimeEndian::Big } else { gimli::RunTimeEndian::Little }, big, v)
                } else if big {
                    write_read_u64(gimli::BigEndian, true, v)
                } else {
                    write_read_u64(gimli::LittleEndian, false, v)
                }
            }
            2 => {
                cx.label("fixed-width-reads");
                let mut b = [0u8; 16];
                for x in b.iter_mut() {
                    *x = ch.u8();
                }
                cx.nt();
                cx.sample_with(|| format!("fixed reads over {:02x?} big={}", b, big));
                if rt {
                    fixed_reads(if big { gimli::RunTimeEndian::Big } else { gimli::RunTimeEndian::Little }, big, &b)
                } else if big {
                    fixed_reads(gimli::BigEndian, true, &b)
                } else {
                    fixed_reads(gimli::LittleEndian, false, &b)
                }
            }
            _ => {
                cx.label("padded-leb");
                // value-preserving padded encodings up to 10 bytes must be accepted
                let v = ch.biased(64);
                let pad = ch.below(10);
                let mut w = W::new(big);
                w.uleb_padded(v, pad);
                w.u8(0x99);
                if w.len() > 2 {
                    cx.nt();
                }
                cx.sample_with(|| format!("padded uleb {:02x?}", w.buf));
                all_leb(&w.buf)
            }
        }
    }

    fn exhaustive(&self, tier: Tier, dev: bool, shard: usize, nshards: usize, ex: &mut Exhaust) {
        // E1: all byte strings of length <= 3
        let full = !dev || tier == Tier::Thorough;
        let mut n = 0u64;
        let mut nt = 0u64;
        'outer: for b0 in 0..=255u8 {
            if b0 as usize % nshards != shard {
                continue;
            }
            if let Err(e) = all_leb(&[b0]) {
                ex.fail("leb-bytes", &[b0], e);
                break 'outer;
            }
            n += 1;
            for b1 in 0..=255u8 {
                if let Err(e) = all_leb(&[b0, b1]) {
                    ex.fail("leb-bytes", &[b0, b1], e);
                    break 'outer;
                }
                n += 1;
                nt += 1;
                // in the dev quick tier only every 5th second byte gets the full third-byte sweep
                if !full && b1 % 5 != 0 {
                    continue;
                }
                for b2 in 0..=255u8 {
                    let s = [b0, b1, b2];
                    // the u16 reader is the one with a 3-byte frontier: run it always,
                    // the others when the first two bytes are continuations
                    let r = if b0 & 0x80 != 0 && b1 & 0x80 != 0 { all_leb(&s) } else { run_leb(gimli::LittleEndian, LebKind::U16, &s) };
                    if let Err(e) = r {
                        ex.fail("leb-bytes", &s, e);
                        break 'outer;
                    }
                    n += 1;
                    nt += 1;
                }
            }
        }
        ex.tally(n, nt, "exhaustive-leb-le3");
        if full {
            ex.complete("all byte strings of length<=3 through read_uleb128_u16 (and the 64/32-bit readers where the third byte is reached)");
        }
        if ex.stop {
            return;
        }

        // E2: frontier at byte 10
        let pre_bytes = [0x80u8, 0xff, 0x81];
        let mut prefixes: Vec<Vec<u8>> = Vec::new();
        for len in [7usize, 8, 9] {
            for p in pre_bytes {
                prefixes.push(vec![p; len]);
            }
            for k in 0..5usize {
                prefixes.push((0..len).map(|i| pre_bytes[(i * (k + 1) + k) % 3]).collect());
            }
        }
        let mut n = 0u64;
        'e2: for (pi, p) in prefixes.iter().enumerate() {
            if pi % nshards != shard {
                continue;
            }
            let step = if full { 1 } else { 7 };
            let mut t = 0u32;
            while t < 65536 {
                let mut s = p.clone();
                s.push((t >> 8) as u8);
                s.push(t as u8);
                s.push(0x00);
                if let Err(e) = all_leb(&s) {
                    ex.fail("leb-bytes", &s, e);
                    break 'e2;
                }
                n += 1;
                t += step;
            }
        }
        ex.tally(n, n, "exhaustive-leb-frontier");
        if full {
            ex.complete("24 continuation prefixes (7/8/9 bytes over {80,ff,81}) x all 2^16 two-byte tails");
        }
        if ex.stop {
            return;
        }

        // E3: all 16-bit values write->read (both endians on alternating shards)
        let mut n = 0u64;
        for v in 0..=65535u32 {
            if v as usize % nshards != shard {
                continue;
            }
            for sv in [v as u64, (v as u16 as i16) as i64 as u64] {
                let r = write_read_u64(gimli::LittleEndian, false, sv).and_then(|_| write_read_u64(gimli::BigEndian, true, sv));
                if let Err(e) = r {
                    ex.fail("write-read", &sv.to_le_bytes(), e);
                    return;
                }
                n += 2;
            }
        }
        ex.tally(n, n, "exhaustive-16bit-write-read");
        ex.complete("all 2^16 unsigned and all 2^16 sign-extended 16-bit values through every writer and back, both byte orders");

        // E4: sized reads for every size argument, initial-length frontier
        let mut n = 0u64;
        let pat: [u8; 16] = [0x01, 0x82, 0x03, 0x84, 0x05, 0x86, 0x07, 0x88, 0x09, 0x8a, 0x0b, 0x8c, 0x0d, 0x8e, 0x0f, 0x90];
        for size in 0..=255u8 {
            if size as usize % nshards != shard {
                continue;
            }
            let r = sized_reads(gimli::LittleEndian, false, size, &pat)
                .and_then(|_| sized_reads(gimli::BigEndian, true, size, &pat))
                .and_then(|_| sized_reads(gimli::RunTimeEndian::Big, true, size, &pat))
                .and_then(|_| sized_reads(gimli::RunTimeEndian::Little, false, size, &pat));
            if let Err(e) = r {
                ex.fail("sized-read", &[size], e);
                return;
            }
            n += 4;
        }
        ex.tally(n, n, "exhaustive-size-arguments");
        ex.complete("every size argument 0..=255 for read_address/read_sized_offset/read_address_size");
        let mut n = 0u64;
        let mut first: u64 = 0xffff_ff00;
        while first <= 0xffff_ffff {
            if first as usize % nshards == shard {
                for next in [0u64, 1, 0xffff_ffff, 0x1_0000_0000, u64::MAX >> 1] {
                    let r = initial_length_read(gimli::LittleEndian, false, first as u32, next).and_then(|_| initial_length_read(gimli::BigEndian, true, first as u32, next));
                    if let Err(e) = r {
                        ex.fail("initial-length", &(first as u32).to_le_bytes(), e);
                        return;
                    }
                    n += 2;
                }
            }
            first += 1;
        }
        let mut first: u64 = shard as u64 * 4099;
        while first < 0xffff_ff00 {
            let r = initial_length_read(gimli::LittleEndian, false, first as u32, 5).and_then(|_| initial_length_read(gimli::BigEndian, true, first as u32, 5));
            if let Err(e) = r {
                ex.fail("initial-length", &(first as u32).to_le_bytes(), e);
                return;
            }
            n += 2;
            first += 4099 * nshards as u64 * if full { 1 } else { 16 };
        }
        ex.tally(n, n, "exhaustive-initial-length");
        ex.complete("every u32 in 0xffffff00..=0xffffffff as initial length plus a stride over the rest");
        // E7: the offset-type conversions behind every Reader (a 32-bit offset type must refuse what it cannot hold)
        if shard == 0 {
            let mut n = 0u64;
            let mut vals: Vec<u64> = vec![0, 1, 0x7f, 0x80, 0xff, 0x100, 0x7fff, 0x8000, 0xffff, 0x1_0000, 0x7fff_ffff, 0x8000_0000, 0xffff_fffe, 0xffff_ffff];
            for k in 0..64u32 {
                let p = 1u64 << k;
                vals.extend([p, p.wrapping_sub(1), p.wrapping_add(1), p | 1 << 32, p.wrapping_mul(3)]);
            }
            vals.extend([u64::MAX, u64::MAX - 1, 1 << 63, (1 << 63) - 1, 0x1_0000_0000, 0x1_0000_0001, 0x2_0000_0000, 0xffff_ffff_0000_0000]);
            for &v in &vals {
                if let Err(e) = offset_conversions(v) {
                    ex.fail("offset-conversions", &v.to_le_bytes(), e);
                    return;
                }
                n += 1;
            }
            ex.tally(n, n, "exhaustive-offset-conversions");
            ex.complete("ReaderOffset conversions of u32/u64/usize at every power of two and its neighbours");
        }
        ex.sample("exhaustive: [0x80,0x80,0x04] through read_uleb128_u16 must be rejected (value 2^16); [0xff x9, 0x01] through read_uleb128 = u64::MAX".to_string());
    }

    fn replay_special(&self, mode: &str, data: &[u8], _cx: &mut Ctx) -> R {
        match mode {
            "leb-bytes" => all_leb(data),
            "write-read" => {
                let mut a = [0u8; 8];
                a.copy_from_slice(&data[..8]);
                let v = u64::from_le_bytes(a);
                write_read_u64(gimli::LittleEndian, false, v)?;
                write_read_u64(gimli::BigEndian, true, v)
            }
            "sized-read" => {
                let pat: [u8; 16] = [0x01, 0x82, 0x03, 0x84, 0x05, 0x86, 0x07, 0x88, 0x09, 0x8a, 0x0b, 0x8c, 0x0d, 0x8e, 0x0f, 0x90];
                sized_reads(gimli::LittleEndian, false, data[0], &pat)?;
                sized_reads(gimli::BigEndian, true, data[0], &pat)
            }
            "offset-conversions" => {
                let mut a = [0u8; 8];
                a.copy_from_slice(&data[..8]);
                offset_conversions(u64::from_le_bytes(a))
            }
            "initial-length" => {
                let first = u32::from_le_bytes([data[0], data[1], data[2], data[3]]);
                initial_length_read(gimli::LittleEndian, false, first, 5)?;
                initial_length_read(gimli::BigEndian, true, first, 5)
            }
            _ => fail!("replay/unknown-mode", "{}", mode),
        }
    }
}
