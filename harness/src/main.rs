//! vpcheck — property-based / fuzzing checks for gimli (see /verif/DESIGN.md).
use std::path::Path;
use vpcheck::core::Tier;
use vpcheck::{driver, find};

fn usage() -> ! {
    eprintln!("usage: vpcheck <ID> <quick|thorough> | vpcheck <ID> --replay <file> | vpcheck <ID> --replay-raw <file>");
    std::process::exit(2)
}

fn main() {
    let args: Vec<String> = std::env::args().collect();
    if args.len() < 3 {
        usage();
    }
    if args[1] == "--corpus-check" {
        // --corpus-check <ID> <corpus root or one configuration directory>
        std::process::exit(vpcheck::corpus::corpus_main(&args[2], Path::new(&args[3])));
    }
    if args[1] == "--corpus" {
        // --corpus <dir> <count>: well-formed inputs for the `sections` fuzz target
        let dir = Path::new(&args[2]);
        std::fs::create_dir_all(dir).unwrap();
        let n: u64 = args.get(3).and_then(|s| s.parse().ok()).unwrap_or(64);
        for i in 0..n {
            std::fs::write(dir.join(format!("seed-{:03}", i)), vpcheck::c01::corpus_entry(i)).unwrap();
        }
        // compiler-built section sets, when the compiler corpus exists
        if let Some(root) = args.get(4) {
            if let Ok(rd) = std::fs::read_dir(root) {
                for (k, e) in rd.flatten().enumerate() {
                    if e.path().is_dir() {
                        let map = vpcheck::corpus::load_dir(&e.path());
                        if !map.is_empty() {
                            std::fs::write(dir.join(format!("real-{:03}", k)), vpcheck::c01::encode_sections(&map, false, 8)).unwrap();
                        }
                    }
                }
            }
        }
        return;
    }
    if args[1] == "--worker" {
        // --worker ID tier seed threads out
        let prop = find(&args[2]).unwrap_or_else(|| usage());
        let tier = if args[3] == "thorough" { Tier::Thorough } else { Tier::Quick };
        let seed: u64 = args[4].parse().unwrap_or(0);
        let threads: usize = args[5].parse().unwrap_or(4);
        std::process::exit(driver::worker_main(prop, tier, seed, threads, Path::new(&args[6])));
    }
    let prop = match find(&args[1]) {
        Some(p) => p,
        None => {
            eprintln!("unknown property {}", args[1]);
            std::process::exit(2)
        }
    };
    match args[2].as_str() {
        "--replay" | "--replay-raw" => {
            if args.len() < 4 {
                usage();
            }
            std::process::exit(driver::replay_main(prop, Path::new(&args[3]), args[2] == "--replay-raw"));
        }
        t => {
            let tier = match t {
                "quick" => Tier::Quick,
                "thorough" => Tier::Thorough,
                _ => usage(),
            };
            let seed: u64 = std::env::var("VERIF_SEED").ok().and_then(|s| s.trim().parse::<i64>().ok()).map(|v| v as u64).unwrap_or(0);
            std::process::exit(driver::parent_main(prop, tier, seed));
        }
    }
}
