//! vpcheck — property-based / fuzzing checks for gimli (see /verif/DESIGN.md).
mod core;
mod driver;
mod enc;
mod c09;
mod c10;
mod c11;
mod c12;
mod wmodel;
mod c13;
mod c14;
mod c15;
mod c16;
mod c17;
mod c18;
mod c19;
mod c20;
mod c01;
mod c02;
mod c03;
mod c04;
mod c05;
mod dieasm;
mod c06;
mod linemodel;
mod sem;
mod c07;
mod c08;
mod cfimodel;
mod exprvm;
mod fullasm;

use crate::core::{Prop, Tier};
use std::path::Path;

pub fn props() -> Vec<&'static dyn Prop> {
    vec![&c01::C01, &c02::C02, &c03::C03, &c04::C04, &c05::C05, &c06::C06, &c07::C07, &c08::C08, &c09::C09, &c10::C10, &c11::C11, &c12::C12, &c13::C13, &c14::C14, &c15::C15, &c16::C16, &c17::C17, &c18::C18, &c19::C19, &c20::C20]
}

pub fn find(id: &str) -> Option<&'static dyn Prop> {
    props().into_iter().find(|p| p.id().eq_ignore_ascii_case(id))
}

fn usage() -> ! {
    eprintln!("usage: vpcheck <ID> <quick|thorough> | vpcheck <ID> --replay <file> | vpcheck <ID> --replay-raw <file>");
    std::process::exit(2)
}

fn main() {
    let args: Vec<String> = std::env::args().collect();
    if args.len() < 3 {
        usage();
    }
    if args[1] == "--worker" {
        // --worker ID tier seed threads out
        let prop = find(&args[2]).unwrap_or_else(|| usage());
        let tier = if args[3] == "thorough" { Tier::Thorough } else { Tier::Quick };
        let seed: u64 = args[4].parse().unwrap_or(0);
        let threads: usize = args[5].parse().unwrap_or(4);
        std::process::exit(driver::worker_main(prop, tier, seed, threads, Path::new(&args[6])));
    }
    let prop = match find(&args[1]) {
        Some(p) => p,
        None => {
            eprintln!("unknown property {}", args[1]);
            std::process::exit(2)
        }
    };
    match args[2].as_str() {
        "--replay" | "--replay-raw" => {
            if args.len() < 4 {
                usage();
            }
            std::process::exit(driver::replay_main(prop, Path::new(&args[3]), args[2] == "--replay-raw"));
        }
        t => {
            let tier = match t {
                "quick" => Tier::Quick,
                "thorough" => Tier::Thorough,
                _ => usage(),
            };
            let tier = match std::env::var("VERIF_TIER").ok().as_deref() {
                Some("thorough") => Tier::Thorough,
                Some("quick") => Tier::Quick,
                _ => tier,
            };
            let seed: u64 = std::env::var("VERIF_SEED").ok().and_then(|s| s.trim().parse::<i64>().ok()).map(|v| v as u64).unwrap_or(0);
            std::process::exit(driver::parent_main(prop, tier, seed));
        }
    }
}
