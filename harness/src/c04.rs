//! C04 — line-number rows equal the DWARF state machine; sequences are consistent.
use crate::core::*;
use crate::enc::{mask, W};
use crate::linemodel::*;
use crate::{ensure, ensure_eq, fail};
use gimli::{AttributeValue, ColumnType, DebugLine, DebugLineOffset, EndianSlice, RunTimeEndian};

pub struct C04;

type Rdr<'a> = EndianSlice<'a, RunTimeEndian>;

pub fn gen_path(ch: &mut Choices, v5: bool, i: usize) -> PathVal {
    let name = |ch: &mut Choices| -> Vec<u8> {
        let n = 1 + ch.below(6);
        (0..n).map(|k| b'a' + ((ch.u8() as usize + k + i) % 26) as u8).collect()
    };
    if !v5 {
        return PathVal::Inline(name(ch));
    }
    match ch.below(8) {
        0..=2 => PathVal::Inline(name(ch)),
        3 => PathVal::LineStrp(ch.biased(32)),
        4 => PathVal::Strp(ch.biased(32)),
        _ => PathVal::Strx(ch.pick(&[0x1au16, 0x25, 0x26, 0x27, 0x28, 0x1f02]), 0),
    }
}

pub fn gen_header(ch: &mut Choices) -> LineHeader {
    let version = ch.pick(&[4u16, 5, 3, 2, 5, 4]);
    let v5 = version >= 5;
    let address_size = ch.pick(&[8u8, 8, 4, 4, 2, 1]);
    let opcode_base = match ch.below(8) {
        0 => 1,
        1 => 10,
        2 => 14 + ch.below(6) as u8,
        3 => 1 + ch.below(255) as u8,
        4 => 255,
        _ => 13,
    };
    let mut std_lengths: Vec<u8> = Vec::new();
    for i in 0..(opcode_base as usize).saturating_sub(1) {
        std_lengths.push(if i < 12 { STD_LENGTHS[i] } else { ch.pick(&[0u8, 1, 2, 3, 0, 1]) });
    }
    let line_range = match ch.below(6) {
        0 => 1,
        1 => 255,
        2 => 1 + ch.below(255) as u8,
        3 => 128 + ch.below(20) as u8,
        _ => 14,
    };
    let max_ops = if version >= 4 {
        match ch.below(6) {
            0 => 2,
            1 => 4,
            2 => 255,
            3 => 1 + ch.below(255) as u8,
            _ => 1,
        }
    } else {
        1
    };
    let ndirs = ch.count(4);
    let nfiles = ch.count(5);
    let mut h = LineHeader {
        version,
        format64: ch.chance(64),
        address_size,
        min_inst_len: match ch.below(5) {
            0 => 4,
            1 => 255,
            2 => 1 + ch.below(255) as u8,
            _ => 1,
        },
        max_ops,
        default_is_stmt: ch.bool(),
        line_base: match ch.below(5) {
            0 => -128,
            1 => 127,
            2 => 0,
            3 => ch.u8() as i8,
            _ => -5,
        },
        line_range,
        opcode_base,
        std_lengths,
        dirs: Vec::new(),
        files: Vec::new(),
        dir_format: Vec::new(),
        file_format: Vec::new(),
        header_pad: if v5 || ch.chance(200) { Vec::new() } else { ch.bytes(2) },
    };
    // strx forms need one common form per table; choose formats first for v5
    if v5 {
        let path_form = ch.pick(&[FORM_STRING, FORM_STRING, FORM_LINE_STRP, FORM_STRP, 0x1a, 0x25, 0x26, 0x27, 0x28, 0x1d, 0x1f21]);
        let mut df = vec![(1u64, path_form)];
        if ch.chance(80) {
            // extra (ignored) content types before/after the path
            let extra = (ch.pick(&[3u64, 4, 0x2001, 0x7fff, 0x1_0000]), ch.pick(&[FORM_UDATA, FORM_DATA1, FORM_DATA2, FORM_BLOCK1, FORM_DATA16, FORM_SDATA, FORM_FLAG, FORM_SEC_OFFSET]));
            if ch.bool() {
                df.insert(0, extra);
            } else {
                df.push(extra);
            }
        }
        h.dir_format = df;
        let fpath_form = ch.pick(&[FORM_STRING, FORM_STRING, FORM_LINE_STRP, FORM_STRP, 0x1a, 0x25, 0x26, 0x27, 0x28, 0x1f02, 0x1d, 0x1f21]);
        let mut ff: Vec<(u64, u16)> = vec![(1, fpath_form)];
        if ch.chance(200) {
            ff.push((2, ch.pick(&[FORM_UDATA, FORM_DATA1, FORM_DATA2, FORM_DATA4, FORM_DATA8])));
        }
        if ch.chance(90) {
            ff.push((3, ch.pick(&[FORM_UDATA, FORM_DATA4, FORM_DATA8, FORM_BLOCK])));
        }
        if ch.chance(90) {
            ff.push((4, ch.pick(&[FORM_UDATA, FORM_DATA1, FORM_DATA2, FORM_DATA4, FORM_DATA8])));
        }
        if ch.chance(90) {
            ff.push((5, ch.pick(&[FORM_DATA16, FORM_DATA16, FORM_BLOCK1])));
        }
        if ch.chance(60) {
            ff.push((0x2001, ch.pick(&[FORM_STRING, FORM_LINE_STRP, FORM_STRP, 0x1d, 0x1f21])));
        }
        if ch.chance(60) {
            ff.push((ch.pick(&[6u64, 0x2000, 0xffff, 0x12345]), ch.pick(&[FORM_UDATA, FORM_DATA2, FORM_BLOCK, FORM_DATA16, FORM_FLAG, FORM_SDATA])));
        }
        // permute: rotate by a chosen amount so the path is not always first
        let rot = ch.below(ff.len());
        ff.rotate_left(rot);
        h.file_format = ff;
        let mk = |form: u16, ch: &mut Choices, i: usize| -> PathVal {
            match form {
                FORM_STRING => {
                    let n = 1 + ch.below(5);
                    PathVal::Inline((0..n).map(|k| b'a' + ((ch.u8() as usize + k + i) % 26) as u8).collect())
                }
                FORM_LINE_STRP => PathVal::LineStrp(ch.biased(if h.format64 { 40 } else { 32 })),
                FORM_STRP => PathVal::Strp(ch.biased(if h.format64 { 40 } else { 32 })),
                0x1d | 0x1f21 => PathVal::StrpSup(form, ch.biased(if h.format64 { 40 } else { 32 })),
                f => {
                    let bits = match f {
                        0x25 => 8,
                        0x26 => 16,
                        0x27 => 24,
                        0x28 => 32,
                        _ => 40,
                    };
                    PathVal::Strx(f, ch.biased(bits))
                }
            }
        };
        for i in 0..ndirs.max(1) {
            let p = mk(path_form, ch, i);
            h.dirs.push(p);
        }
        let src_form = h.file_format.iter().find(|(c, _)| *c == 0x2001).map(|x| x.1);
        for i in 0..nfiles.max(1) {
            let path = mk(fpath_form, ch, i);
            let mut md5 = [0u8; 16];
            for b in md5.iter_mut() {
                *b = ch.u8();
            }
            let source = src_form.map(|f| mk(f, ch, i + 7));
            h.files.push(FileSpec { path, dir: ch.biased(16), mtime: ch.biased(64), size: ch.biased(64), md5, source });
        }
    } else {
        for i in 0..ndirs {
            h.dirs.push(gen_path(ch, false, i));
        }
        for i in 0..nfiles {
            h.files.push(FileSpec { path: gen_path(ch, false, i + 3), dir: ch.biased(16), mtime: ch.biased(64), size: ch.biased(64), md5: [0; 16], source: None });
        }
    }
    h
}

/// Well-formed program: addresses non-decreasing within a sequence, below the tombstone range.
pub fn gen_program(ch: &mut Choices, h: &LineHeader) -> Vec<LOp> {
    let m = mask(h.address_size);
    let nseq = 1 + ch.count(5);
    let mut ops = Vec::new();
    let big_adv = ch.chance(30);
    for _ in 0..nseq {
        let n = ch.count(14);
        let mut addr_est: u64 = 0;
        for _ in 0..n {
            let extra = if ch.chance(30) { 1 + ch.below(3) } else { 0 };
            let op = match ch.below(34) {
                0..=7 => {
                    if h.opcode_base == 255 || !ch.chance(230) {
                        LOp::Special(255)
                    } else {
                        LOp::Special(h.opcode_base + ch.below(256 - h.opcode_base as usize) as u8)
                    }
                }
                8 | 9 => LOp::Copy,
                // (with big advances also operands next to 2^64: added to a non-zero op_index they pass it)
                10 | 11 => LOp::AdvancePc(if big_adv { if ch.chance(64) { u64::MAX - ch.below(4) as u64 } else { ch.biased(64) } } else { ch.biased(10) }),
                12 | 13 => LOp::AdvanceLine(match ch.below(4) {
                    0 => ch.biased_signed(64),
                    _ => ch.range(-20, 40),
                }),
                14 => LOp::SetFile(ch.biased(8)),
                15 => LOp::SetColumn(ch.biased(64)),
                16 => LOp::NegateStmt,
                17 => LOp::SetBasicBlock,
                18 => LOp::ConstAddPc,
                19 => LOp::FixedAdvancePc(ch.pick(&[0u16, 1, 4, 0x100, 0xffff])),
                20 => LOp::SetPrologueEnd,
                21 => LOp::SetEpilogueBegin,
                22 => LOp::SetIsa(ch.biased(64)),
                23 | 24 => {
                    // set_address: forward of the estimate (the model is the judge of well-formedness)
                    let a = match ch.below(4) {
                        0 => addr_est,
                        1 => addr_est.saturating_add(ch.biased(12)),
                        2 => addr_est.saturating_add(ch.biased(8 * h.address_size as u32) / 4),
                        _ => addr_est.saturating_add(0x1000),
                    };
                    let a = a.min(m.saturating_sub(2));
                    addr_est = addr_est.max(a);
                    LOp::SetAddress(a, extra)
                }
                25 => LOp::SetDiscriminator(ch.biased(64), extra),
                26 => {
                    if h.version <= 4 {
                        let n = 1 + ch.below(4);
                        LOp::DefineFile((0..n).map(|_| b'd' + ch.u8() % 20).collect(), ch.biased(8), ch.biased(32), ch.biased(32), extra)
                    } else {
                        LOp::UnknownExt(3, ch.bytes(3))
                    }
                }
                27 => {
                    let n = ch.below(5);
                    LOp::UnknownExt(ch.pick(&[0x05u8, 0x80, 0xff, 0x00, 0x7f]), ch.bytes(n))
                }
                28 | 29 => {
                    if h.opcode_base > 13 {
                        let o = 13 + ch.below(h.opcode_base as usize - 13) as u8;
                        let n = h.std_lengths[o as usize - 1];
                        LOp::UnknownStd(o, (0..n).map(|_| ch.biased(64)).collect())
                    } else {
                        LOp::Copy
                    }
                }
                _ => LOp::Special(h.opcode_base.max(1) + ch.below(256 - h.opcode_base.max(1) as usize) as u8),
            };
            // standard opcodes that the header turns into special opcodes: re-encode as such by value
            let op = match &op {
                LOp::Copy | LOp::AdvancePc(_) | LOp::AdvanceLine(_) | LOp::SetFile(_) | LOp::SetColumn(_) | LOp::NegateStmt | LOp::SetBasicBlock | LOp::ConstAddPc | LOp::FixedAdvancePc(_) | LOp::SetPrologueEnd | LOp::SetEpilogueBegin | LOp::SetIsa(_) => {
                    let num = match &op {
                        LOp::Copy => 1,
                        LOp::AdvancePc(_) => 2,
                        LOp::AdvanceLine(_) => 3,
                        LOp::SetFile(_) => 4,
                        LOp::SetColumn(_) => 5,
                        LOp::NegateStmt => 6,
                        LOp::SetBasicBlock => 7,
                        LOp::ConstAddPc => 8,
                        LOp::FixedAdvancePc(_) => 9,
                        LOp::SetPrologueEnd => 10,
                        LOp::SetEpilogueBegin => 11,
                        _ => 12,
                    };
                    if num >= h.opcode_base {
                        LOp::Special(num)
                    } else {
                        op
                    }
                }
                _ => op,
            };
            ops.push(op);
        }
        ops.push(LOp::EndSequence(if ch.chance(20) { 2 } else { 0 }));
    }
    ops
}

pub fn encode_program(ops: &[LOp], h: &LineHeader, big: bool) -> Vec<u8> {
    let mut w = W::new(big);
    for op in ops {
        encode_lop(op, h, &mut w);
    }
    w.buf
}

fn canon_attr(v: &AttributeValue<Rdr>) -> String {
    match v {
        AttributeValue::String(s) => format!("inline:{:02x?}", s.slice()),
        AttributeValue::DebugLineStrRef(o) => format!("line_strp:{}", o.0),
        AttributeValue::DebugStrRef(o) => format!("strp:{}", o.0),
        AttributeValue::DebugStrRefSup(o) => format!("strp_sup:{}", o.0),
        AttributeValue::DebugStrOffsetsIndex(i) => format!("strx:{}", i.0),
        other => format!("other:{:?}", other),
    }
}

fn canon_path(p: &PathVal) -> String {
    match p {
        PathVal::Inline(b) => format!("inline:{:02x?}", &b[..]),
        PathVal::LineStrp(o) => format!("line_strp:{}", o),
        PathVal::Strp(o) => format!("strp:{}", o),
        PathVal::StrpSup(_, o) => format!("strp_sup:{}", o),
        PathVal::Strx(_, i) => format!("strx:{}", i),
    }
}

fn errname(e: &gimli::Error) -> String {
    let s = format!("{:?}", e);
    match s.find('(') {
        Some(i) => s[..i].to_string(),
        None => s,
    }
}

fn mrow(r: &gimli::LineRow) -> MLineRow {
    MLineRow {
        address: r.address(),
        op_index: r.op_index(),
        file: r.file_index(),
        line: r.line().map(|l| l.get()).unwrap_or(0),
        column: match r.column() {
            ColumnType::LeftEdge => 0,
            ColumnType::Column(c) => c.get(),
        },
        is_stmt: r.is_stmt(),
        basic_block: r.basic_block(),
        end_sequence: r.end_sequence(),
        prologue_end: r.prologue_end(),
        epilogue_begin: r.epilogue_begin(),
        isa: r.isa(),
        discriminator: r.discriminator(),
    }
}

pub struct LineCase {
    pub h: LineHeader,
    pub big: bool,
    pub prog: Vec<u8>,
    pub comp_name: bool,
    pub lead_pad: usize,
}

/// Collect rows from gimli until end or first error.
fn collect_rows<'a>(program: gimli::IncompleteLineProgram<Rdr<'a>>, limit: usize) -> R<(Vec<MLineRow>, Result<(), String>, gimli::LineProgramHeader<Rdr<'a>>)> {
    let mut rows = program.rows();
    let mut out = Vec::new();
    let end;
    loop {
        match rows.next_row() {
            Ok(Some((hdr, r))) => {
                // the row's own way to its file entry = the header's lookup of the row's file register
                let via_row = r.file(hdr).map(|f| (f.directory_index(), f.timestamp(), f.size()));
                let via_hdr = hdr.file(r.file_index()).map(|f| (f.directory_index(), f.timestamp(), f.size()));
                ensure_eq!(via_row, via_hdr, "c04/rows/file-entry", "row {:?}", mrow(r));
                out.push(mrow(r))
            }
            Ok(None) => {
                end = Ok(());
                break;
            }
            Err(e) => {
                end = Err(errname(&e));
                break;
            }
        }
        if out.len() > limit {
            fail!("c04/rows/unbounded", "more than {} rows", limit);
        }
    }
    let hdr = rows.header().clone();
    Ok((out, end, hdr))
}

pub fn check_case(c: &LineCase, cx: &mut Ctx) -> R {
    let h = &c.h;
    let (mut bytes, prog_at) = build_line(h, c.big, &c.prog);
    // optional junk before the program, so that the section offset is not 0
    let mut section = vec![0xeeu8; c.lead_pad];
    section.append(&mut bytes);
    let endian = if c.big { RunTimeEndian::Big } else { RunTimeEndian::Little };
    let dl = DebugLine::new(&section, endian);
    let comp_dir = EndianSlice::new(&b"/comp/dir"[..], endian);
    let comp_name = EndianSlice::new(&b"comp.c"[..], endian);
    // a DWARF 5 header carries its own address size: whatever the caller passes (the size of the unit it came from,
    // or a default) must not matter - half of the v5 cases pass a different one
    let caller_address_size = if h.version >= 5 && c.prog.len() % 2 == 1 { if h.address_size == 8 { 4 } else { 8 } } else { h.address_size };
    let parse = || dl.program(DebugLineOffset(c.lead_pad), caller_address_size, Some(comp_dir), if c.comp_name { Some(comp_name) } else { None });
    let program = match parse() {
        Ok(p) => p,
        Err(e) => fail!("c04/header/rejected", "well-formed header rejected: {:?} (header {:?})", e, h),
    };
    // ---- header fields
    {
        let gh = program.header();
        ensure_eq!(gh.offset().0, c.lead_pad, "c04/header/offset");
        ensure_eq!(gh.version(), h.version, "c04/header/version");
        ensure_eq!(gh.format(), if h.format64 { gimli::Format::Dwarf64 } else { gimli::Format::Dwarf32 }, "c04/header/format");
        ensure_eq!(gh.address_size(), h.address_size, "c04/header/address_size");
        ensure_eq!(gh.unit_length(), section.len() - c.lead_pad - if h.format64 { 12 } else { 4 }, "c04/header/unit_length");
        ensure_eq!(gh.minimum_instruction_length(), h.min_inst_len, "c04/header/min_inst_len");
        ensure_eq!(gh.maximum_operations_per_instruction(), h.max_ops, "c04/header/max_ops");
        ensure_eq!(gh.default_is_stmt(), h.default_is_stmt, "c04/header/default_is_stmt");
        ensure_eq!(gh.line_base(), h.line_base, "c04/header/line_base");
        ensure_eq!(gh.line_range(), h.line_range, "c04/header/line_range");
        ensure_eq!(gh.opcode_base(), h.opcode_base, "c04/header/opcode_base");
        ensure_eq!(gh.standard_opcode_lengths().slice(), &h.std_lengths[..], "c04/header/standard_opcode_lengths");
        ensure_eq!(gh.raw_program_buf().slice(), &c.prog[..], "c04/header/program_buf");
        let off = gh.raw_program_buf().slice().as_ptr() as usize - section.as_ptr() as usize;
        ensure_eq!(off, c.lead_pad + prog_at, "c04/header/program_offset");
        let hl_field_end = c.lead_pad + if h.format64 { 12 } else { 4 } + 2 + if h.version >= 5 { 2 } else { 0 } + if h.format64 { 8 } else { 4 };
        ensure_eq!(gh.header_length(), c.lead_pad + prog_at - hl_field_end, "c04/header/header_length");
    }
    // ---- directory and file tables
    let check_tables = |gh: &gimli::LineProgramHeader<Rdr>, defined: &[(Vec<u8>, u64, u64, u64)]| -> R {
        let dirs: Vec<String> = gh.include_directories().iter().map(canon_attr).collect();
        let want_dirs: Vec<String> = h.dirs.iter().map(canon_path).collect();
        ensure_eq!(dirs, want_dirs, "c04/tables/include_directories");
        // directory(i)
        for i in 0..(h.dirs.len() as u64 + 2) {
            let got = gh.directory(i).as_ref().map(canon_attr);
            let want = if h.version <= 4 {
                if i == 0 {
                    Some(format!("inline:{:02x?}", &b"/comp/dir"[..]))
                } else {
                    h.dirs.get(i as usize - 1).map(canon_path)
                }
            } else {
                h.dirs.get(i as usize).map(canon_path)
            };
            ensure_eq!(got, want, "c04/tables/directory(i)", "i={} version={}", i, h.version);
        }
        let mut want_files: Vec<(String, u64, u64, u64, [u8; 16], Option<String>)> = Vec::new();
        for f in &h.files {
            if h.version <= 4 {
                want_files.push((canon_path(&f.path), f.dir, f.mtime, f.size, [0; 16], None));
            } else {
                let get = |ct: u64, v: u64| -> u64 { h.file_format.iter().find(|(c, _)| *c == ct).and_then(|(_, form)| num_readback(v, *form)).unwrap_or(0) };
                let md5 = match h.file_format.iter().find(|(c, _)| *c == 5) {
                    Some((_, FORM_DATA16)) => f.md5,
                    _ => [0; 16],
                };
                let src = h.file_format.iter().find(|(c, _)| *c == 0x2001).map(|_| match &f.source {
                    Some(p) => canon_path(p),
                    None => "inline:[]".to_string(),
                });
                want_files.push((canon_path(&f.path), get(2, f.dir), get(3, f.mtime), get(4, f.size), md5, src));
            }
        }
        for (n, d, t, s) in defined {
            want_files.push((format!("inline:{:02x?}", &n[..]), *d, *t, *s, [0; 16], None));
        }
        let got_files: Vec<_> = gh.file_names().iter().map(|f| (canon_attr(&f.path_name()), f.directory_index(), f.timestamp(), f.size(), *f.md5(), f.source().as_ref().map(canon_attr))).collect();
        ensure_eq!(got_files, want_files, "c04/tables/file_names", "version={} format={:?}", h.version, h.file_format);
        for i in 0..(want_files.len() as u64 + 2) {
            let got = gh.file(i).map(|f| canon_attr(&f.path_name()));
            let want = if h.version <= 4 {
                if i == 0 {
                    if c.comp_name {
                        Some(format!("inline:{:02x?}", &b"comp.c"[..]))
                    } else {
                        None
                    }
                } else {
                    want_files.get(i as usize - 1).map(|f| f.0.clone())
                }
            } else {
                want_files.get(i as usize).map(|f| f.0.clone())
            };
            ensure_eq!(got, want, "c04/tables/file(i)", "i={} version={}", i, h.version);
        }
        if h.version >= 5 {
            let ff: Vec<(u64, u16)> = gh.file_name_entry_format().iter().map(|f| (f.content_type.0 as u64, f.form.0)).collect();
            let want: Vec<(u64, u16)> = h.file_format.iter().map(|(c, f)| ((*c).min(0xffff), *f)).collect();
            ensure_eq!(ff, want, "c04/tables/file_name_entry_format");
            let df: Vec<(u64, u16)> = gh.directory_entry_format().iter().map(|f| (f.content_type.0 as u64, f.form.0)).collect();
            let want: Vec<(u64, u16)> = h.dir_format.iter().map(|(c, f)| ((*c).min(0xffff), *f)).collect();
            ensure_eq!(df, want, "c04/tables/directory_entry_format");
            ensure_eq!(gh.file_has_md5(), h.file_format.iter().any(|(c, _)| *c == 5), "c04/tables/file_has_md5");
            ensure_eq!(gh.file_has_size(), h.file_format.iter().any(|(c, _)| *c == 4), "c04/tables/file_has_size");
            ensure_eq!(gh.file_has_timestamp(), h.file_format.iter().any(|(c, _)| *c == 3), "c04/tables/file_has_timestamp");
            ensure_eq!(gh.file_has_source(), h.file_format.iter().any(|(c, _)| *c == 0x2001), "c04/tables/file_has_source");
        }
        Ok(())
    };
    check_tables(program.header(), &[])?;

    // ---- rows vs the state machine
    let m = run_line(h, c.big, &c.prog);
    cx.say(|| format!("model ops: {:?}\nmodel rows: {:#?}\nend: {:?}", m.ops, m.rows, m.end));
    let (grows, gend, ghdr) = collect_rows(program, 100_000)?;
    for (i, gr) in grows.iter().enumerate() {
        match m.rows.get(i) {
            Some(mr) => {
                if gr != mr {
                    fail!("c04/rows/row", "row #{} differs\n gimli {:?}\n model {:?}", i, gr, mr);
                }
            }
            None => {
                if matches!(m.end, LineEnd::Open(_)) {
                    break;
                }
                fail!("c04/rows/extra-row", "gimli yields row #{} {:?}; the state machine has {} rows (end {:?})", i, gr, m.rows.len(), m.end)
            }
        }
    }
    match (&gend, &m.end) {
        (Ok(()), LineEnd::Done) => ensure_eq!(grows.len(), m.rows.len(), "c04/rows/count"),
        (Err(e), LineEnd::Err(k)) => {
            ensure_eq!(grows.len(), m.rows.len(), "c04/rows/rows-before-error", "error {}", e);
            ensure!(k.iter().any(|x| x == e), "c04/rows/error-kind", "gimli {} model {:?}", e, k);
        }
        (_, LineEnd::Open(_)) => {
            ensure!(grows.len() >= m.rows.len() || gend.is_err(), "c04/rows/missing-rows-before-open-point", "gimli {} rows, model {} before the open point", grows.len(), m.rows.len());
        }
        (Ok(()), LineEnd::Err(k)) => fail!("c04/rows/missed-error", "gimli finished with {} rows; model expects {:?} after {} rows", grows.len(), k, m.rows.len()),
        (Err(e), LineEnd::Done) => fail!("c04/rows/unexpected-error", "gimli returns {} after {} rows; the state machine finishes with {} rows", e, grows.len(), m.rows.len()),
    }
    // any-input clause on what gimli produced
    monotone(&grows, h.address_size)?;

    if matches!(m.end, LineEnd::Done) {
        check_tables(&ghdr, &m.defined_files)?;
        // ---- sequences and resumption
        let program = parse().map_err(|e| Failure { sig: "c04/header/reparse".into(), detail: format!("{e:?}") })?;
        let (complete, seqs) = match program.sequences() {
            Ok(x) => x,
            Err(e) => fail!("c04/sequences/error", "sequences() fails with {:?} on a program whose rows() succeed", e),
        };
        // model sequences
        let mut mseqs: Vec<Vec<MLineRow>> = vec![Vec::new()];
        for r in &m.rows {
            mseqs.last_mut().unwrap().push(r.clone());
            if r.end_sequence {
                mseqs.push(Vec::new());
            }
        }
        let trailing = mseqs.pop().unwrap();
        ensure_eq!(seqs.len(), mseqs.len(), "c04/sequences/count", "trailing rows without end_sequence: {}", trailing.len());
        // resume in reverse order, then again in forward order
        let order: Vec<usize> = (0..seqs.len()).rev().chain(0..seqs.len()).collect();
        for i in order {
            let s = &seqs[i];
            let ms = &mseqs[i];
            ensure_eq!(s.end, ms.last().unwrap().address, "c04/sequences/end", "sequence {}", i);
            if ms.len() >= 2 {
                ensure_eq!(s.start, ms[0].address, "c04/sequences/start", "sequence {}", i);
            }
            let mut rr = complete.resume_from(s);
            let mut got = Vec::new();
            loop {
                match rr.next_row() {
                    Ok(Some((_, r))) => got.push(mrow(r)),
                    Ok(None) => break,
                    Err(e) => fail!("c04/resume/error", "sequence {}: {:?}", i, e),
                }
                if got.len() > 100_000 {
                    fail!("c04/resume/unbounded", "sequence {}", i);
                }
            }
            if got != *ms {
                fail!("c04/resume/rows", "sequence {} resumed rows differ from the straight run\n resumed {:?}\n straight {:?}", i, got, ms);
            }
        }
    }

    // ---- classes
    if h.max_ops > 1 {
        cx.label("max_ops>1");
    }
    if h.opcode_base != 13 {
        cx.label("opcode_base!=13");
    }
    if h.line_range >= 128 {
        cx.label("line_range>=128");
    }
    let unknown = m.ops.iter().any(|o| matches!(o, LOp::UnknownStd(..) | LOp::UnknownExt(..)));
    if unknown {
        cx.label("unknown-opcode");
    }
    if h.version >= 5 && h.file_format.len() >= 3 {
        cx.label("v5-formats>=3");
    }
    match h.version {
        2 => cx.label("v2"),
        3 => cx.label("v3"),
        4 => cx.label("v4"),
        _ => cx.label("v5"),
    }
    match &m.end {
        LineEnd::Done => cx.label("completes"),
        LineEnd::Err(_) => cx.label("model-error(AddressOverflow etc)"),
        LineEnd::Open(_) => cx.label("open"),
    }
    let nseq = m.rows.iter().filter(|r| r.end_sequence).count();
    if (nseq >= 2 || m.rows.len() >= 10) && (h.max_ops > 1 || h.opcode_base != 13 || unknown || (h.version >= 5 && h.file_format.len() >= 3)) {
        cx.nt();
    }
    Ok(())
}

/// For any input: within a sequence addresses never decrease and never exceed the address size.
fn monotone(rows: &[MLineRow], address_size: u8) -> R {
    let m = mask(address_size);
    let mut prev: Option<u64> = None;
    for (i, r) in rows.iter().enumerate() {
        ensure!(r.address <= m, "c04/any-input/address-exceeds-size", "row #{} address {:#x} > {:#x}", i, r.address, m);
        if let Some(p) = prev {
            ensure!(r.address >= p, "c04/any-input/address-decreases", "row #{} address {:#x} < previous {:#x} in the same sequence", i, r.address, p);
        }
        prev = if r.end_sequence { None } else { Some(r.address) };
    }
    Ok(())
}

/// A generated program with tombstoned regions: set_address into the tombstone range (or backwards), register-setting
/// and row-emitting operations inside the region, then (mostly) a new valid address.
pub fn gen_tombstone_program(ch: &mut Choices, h: &LineHeader) -> Vec<LOp> {
    let mut ops = gen_program(ch, h);
    let m = mask(h.address_size);
    let emitters: Vec<LOp> = ops.iter().filter(|o| matches!(o, LOp::Special(_) | LOp::Copy)).cloned().collect();
    let setters: Vec<LOp> = ops.iter().filter(|o| matches!(o, LOp::SetPrologueEnd | LOp::SetEpilogueBegin | LOp::SetBasicBlock | LOp::SetIsa(_) | LOp::AdvanceLine(_) | LOp::SetFile(_) | LOp::SetColumn(_) | LOp::NegateStmt | LOp::AdvancePc(_) | LOp::ConstAddPc | LOp::FixedAdvancePc(_))).cloned().collect();
    let k = 1 + ch.below(3);
    for j in 0..k {
        let at = ch.below(ops.len() + 1);
        let mut ins = vec![LOp::SetAddress(ch.pick(&[m, m - 1, m, 0, 1]), 0)];
        for _ in 0..ch.below(5) {
            ins.push(match ch.below(if h.version <= 4 { 5 } else { 4 }) {
                // (the file table grows wherever DW_LNE_define_file stands: it is not a row register)
                4 => LOp::DefineFile(vec![b't', b'0' + j as u8, b'a' + ch.below(20) as u8], ch.biased(4), ch.biased(16), ch.biased(16), 0),
                0 => LOp::SetDiscriminator(1 + ch.below(9) as u64, 0),
                1 if !emitters.is_empty() => emitters[ch.below(emitters.len())].clone(),
                _ if !setters.is_empty() => setters[ch.below(setters.len())].clone(),
                _ => LOp::SetDiscriminator(3, 0),
            });
        }
        if !emitters.is_empty() {
            ins.push(emitters[ch.below(emitters.len())].clone());
        }
        if ch.chance(200) {
            ins.push(LOp::SetAddress((0x10_0000u64 * (j as u64 + 1) + ch.below(64) as u64) & (m >> 1), 0));
            if !emitters.is_empty() {
                ins.push(emitters[ch.below(emitters.len())].clone());
            }
        }
        let tail = ops.split_off(at);
        ops.extend(ins);
        ops.extend(tail);
    }
    ops
}

/// Arbitrary program bytes behind a valid header: only the validity clauses.
fn check_any_input(h: &LineHeader, big: bool, prog: &[u8], cx: &mut Ctx) -> R {
    let (bytes, _) = build_line(h, big, prog);
    let endian = if big { RunTimeEndian::Big } else { RunTimeEndian::Little };
    let dl = DebugLine::new(&bytes, endian);
    let program = match dl.program(DebugLineOffset(0), h.address_size, None, None) {
        Ok(p) => p,
        Err(e) => fail!("c04/header/rejected", "{:?}", e),
    };
    let mut rows = program.rows();
    let mut out = Vec::new();
    let mut errors = 0;
    loop {
        match rows.next_row() {
            Ok(Some((_, r))) => out.push(mrow(r)),
            Ok(None) => break,
            Err(_) => {
                // keep going: callers that ignore errors must still see monotone rows and termination
                errors += 1;
                if errors > prog.len() + 8 {
                    fail!("c04/any-input/unbounded-errors", "{} errors for a {}-byte program", errors, prog.len());
                }
            }
        }
        if out.len() > prog.len() + 8 {
            fail!("c04/any-input/unbounded-rows", "{} rows for a {}-byte program", out.len(), prog.len());
        }
    }
    if errors > 0 {
        cx.label("any-input:errors-ignored");
        // after an error the state is whatever it is; only per-row bound is checked
        let m = mask(h.address_size);
        for (i, r) in out.iter().enumerate() {
            ensure!(r.address <= m, "c04/any-input/address-exceeds-size", "row #{} address {:#x}", i, r.address);
        }
        return Ok(());
    }
    monotone(&out, h.address_size)?;
    // the model agrees as far as it is defined
    // (tombstone addresses: gimli's documented suppression policy is part of the model here, so that the registers
    // that keep evolving under it - flags, discriminator, line, file - are still compared)
    let m = crate::linemodel::run_line_opts(h, big, prog, true);
    for (i, mr) in m.rows.iter().enumerate() {
        match out.get(i) {
            Some(gr) if gr == mr => {}
            Some(gr) => fail!("c04/any-input/row", "row #{} gimli {:?} model {:?}", i, gr, mr),
            None => {
                if matches!(m.end, LineEnd::Done) || i < m.rows.len() {
                    fail!("c04/any-input/missing-row", "gimli stops after {} rows; the state machine has at least {}", out.len(), m.rows.len())
                }
            }
        }
    }
    if matches!(m.end, LineEnd::Done) {
        ensure!(out.len() <= m.rows.len(), "c04/any-input/extra-row", "gimli yields {} rows, the state machine {} (first extra: {:?})", out.len(), m.rows.len(), out.get(m.rows.len()));
    }
    if m.used_tombstone {
        cx.label("any-input:tombstone-policy");
    }
    // files defined by the program: appended to the header's table in program order, wherever they stand
    if matches!(m.end, LineEnd::Done) && h.version <= 4 {
        let hdr = rows.header();
        let got: Vec<(Vec<u8>, u64, u64, u64)> = hdr
            .file_names()
            .iter()
            .skip(h.files.len())
            .map(|f| {
                let name = match f.path_name() {
                    gimli::AttributeValue::String(s) => s.slice().to_vec(),
                    _ => b"?".to_vec(),
                };
                (name, f.directory_index(), f.timestamp(), f.size())
            })
            .collect();
        ensure_eq!(got, m.defined_files, "c04/any-input/defined-files", "files added by DW_LNE_define_file");
        if !m.defined_files.is_empty() && m.used_tombstone {
            cx.label("any-input:define_file in a program with tombstones");
        }
    }
    // every sequence resumed on its own gives a run of the rows of the straight pass (also when sequences around it
    // were withheld entirely)
    if matches!(m.end, LineEnd::Done) {
        if let Ok((complete, seqs)) = dl.program(DebugLineOffset(0), h.address_size, None, None).and_then(|p| p.sequences()) {
            let mut groups: Vec<Vec<MLineRow>> = vec![Vec::new()];
            for r in &out {
                groups.last_mut().unwrap().push(r.clone());
                if r.end_sequence {
                    groups.push(Vec::new());
                }
            }
            groups.retain(|g| !g.is_empty());
            for s in seqs.iter().rev() {
                let mut rr = complete.resume_from(s);
                let mut got = Vec::new();
                loop {
                    match rr.next_row() {
                        Ok(Some((_, r))) => got.push(mrow(r)),
                        Ok(None) => break,
                        Err(e) => fail!("c04/any-input/resume-error", "{:?}", e),
                    }
                    if got.len() > prog.len() + 8 {
                        fail!("c04/any-input/resume-unbounded", "");
                    }
                }
                ensure!(groups.iter().any(|g| *g == got), "c04/any-input/resume-differs", "the sequence [{:#x},{:#x}) resumed on its own gives {:?}, which is not a sequence of the straight run {:?}", s.start, s.end, got, groups);
            }
        }
    }
    Ok(())
}

impl Prop for C04 {
    fn id(&self) -> &'static str {
        "C04"
    }
    fn rule(&self) -> &'static str {
        "generated headers (versions 2-5, min_inst_len 1-255, max_ops 1-255, line_base -128..127, line_range 1-255, opcode_base 1-255 with arbitrary lengths for non-standard opcodes, v5 directory/file entry formats with 1-7 content types in any order and every supported path/number form, v2-4 tables, header padding, non-zero section offset) x generated multi-sequence programs over the full opcode set (special opcodes incl. all values, every standard opcode, unknown standard/extended opcodes, define_file, padded extended ops, boundary operands) kept well-formed (set_address non-decreasing, below the tombstone range); second mode: all 256 opcode byte values after a generated prefix per header; third mode: arbitrary bytes behind a valid header (validity clauses + model agreement where defined); fourth mode: generated programs with tombstoned regions (set_address to -1/-2 or backwards, register-setting and row-emitting operations inside the region, a new valid address afterwards): rows equal the state machine under gimli's documented suppression policy (address and op_index frozen, rows withheld, every other register - flags, discriminator, line, file, isa - evolving and reset as the state machine says). Oracle: line-number state machine (linemodel.rs): rows on every accessor, header fields, directory/file tables with version-dependent index bases, sequences() bounds, resume_from in reverse and forward order. Non-trivial = (>=2 sequences or >=10 rows) and one of {max_ops>1, opcode_base!=13, unknown opcode, v5 format with >=3 content types}; distinct by choice string. Later additions: strp_sup forms in version 5 entry formats; LineRow::file(header) on every row; directory_entry_format; DW_LNE_define_file inside tombstoned stretches and the file table after runs on arbitrary input; operation advances next to 2^64."
    }
    fn assumptions(&self) -> Vec<&'static str> {
        vec![
            "opcodes 1..12 below opcode_base carry their standard operand counts (gimli decodes known opcodes with fixed operands)",
            "an operation advance whose product with min_inst_len exceeds 2^64 is left open (wrapped row or AddressOverflow)",
            "set_address going backwards or into the tombstone range is gimli's documented suppression policy, not DWARF semantics: comparison stops there; only the monotonicity clause applies",
            "the line register saturates at 0 going down and wraps at 2^64 going up (documented)",
        ]
    }
    fn max_len(&self) -> usize {
        420
    }
    fn cases(&self, tier: Tier, dev: bool) -> u64 {
        match (tier, dev) {
            (Tier::Quick, false) => 200_000,
            (Tier::Quick, true) => 20_000,
            (Tier::Thorough, false) => 8_000_000,
            (Tier::Thorough, true) => 600_000,
        }
    }
    fn run_case(&self, ch: &mut Choices, cx: &mut Ctx) -> R {
        let big = ch.bool();
        let mode = ch.below(10);
        let h = gen_header(ch);
        match mode {
            0 => {
                cx.label("mode:all-256-opcodes");
                let prefix_ops = gen_program(ch, &h);
                let keep = ch.below(prefix_ops.len().min(4) + 1);
                let prefix = encode_program(&prefix_ops[..keep], &h, big);
                cx.sample_with(|| format!("all 256 opcode bytes after prefix {:?} header v{} opcode_base={} line_range={} max_ops={}", &prefix_ops[..keep], h.version, h.opcode_base, h.line_range, h.max_ops));
                cx.nt();
                for x in 0..=255u8 {
                    let mut prog = prefix.clone();
                    prog.push(x);
                    prog.extend_from_slice(&[0x02, 0x05, 0x00, 0x01, 0x01, 0x00, 0x01, 0x01]);
                    check_any_input(&h, big, &prog, cx).map_err(|mut e| {
                        e.detail = format!("opcode byte {:#04x}: {}", x, e.detail);
                        e
                    })?;
                }
                Ok(())
            }
            2 => {
                // a generated program with tombstoned regions: set_address into the tombstone range (or backwards),
                // register-setting and row-emitting operations inside the region, then (mostly) a new valid address
                cx.label("mode:tombstones");
                let ops = gen_tombstone_program(ch, &h);
                let prog = encode_program(&ops, &h, big);
                cx.sample_with(|| format!("program with tombstoned regions {:?} header v{} addr{} opcode_base={}", ops, h.version, h.address_size, h.opcode_base));
                check_any_input(&h, big, &prog, cx)
            }
            1 => {
                cx.label("mode:any-input");
                let n = ch.below(48);
                let prog = ch.bytes(n);
                cx.sample_with(|| format!("arbitrary program bytes {:02x?} header v{} addr{}", prog, h.version, h.address_size));
                check_any_input(&h, big, &prog, cx)
            }
            _ => {
                cx.label("mode:well-formed");
                let ops = gen_program(ch, &h);
                let prog = encode_program(&ops, &h, big);
                let c = LineCase { h, big, prog, comp_name: ch.bool(), lead_pad: if ch.chance(64) { 1 + ch.below(9) } else { 0 } };
                cx.sample_with(|| {
                    format!(
                        "v{} {} addr{} min_inst={} max_ops={} line_base={} line_range={} opcode_base={} dirs={:?} files={} file_format={:?} program={:?}",
                        c.h.version,
                        if c.h.format64 { "dwarf64" } else { "dwarf32" },
                        c.h.address_size,
                        c.h.min_inst_len,
                        c.h.max_ops,
                        c.h.line_base,
                        c.h.line_range,
                        c.h.opcode_base,
                        c.h.dirs,
                        c.h.files.len(),
                        c.h.file_format,
                        ops
                    )
                });
                check_case(&c, cx)
            }
        }
    }
}
