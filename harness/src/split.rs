//! Split DWARF (a skeleton unit in the main file + the full unit in a .dwo file): conversion through
//! `ConvertUnit::convert_split` / `convert_split_with_filter` (used by C12 and C19).
use crate::c12::{describe_fdwarf, load_map};
use crate::core::*;
use crate::fullasm::*;
use crate::sem;
use crate::{ensure, ensure_eq, fail};
use gimli::write as w;
use gimli::RunTimeEndian;
use std::collections::{BTreeMap, BTreeSet};

type Map = BTreeMap<&'static str, Vec<u8>>;

pub struct SplitCase {
    pub d: FDwarf,
    pub main: Map,
    pub dwo: Map,
    pub ranges_pad: usize,
}

pub fn gen_split(ch: &mut Choices, max_dies: usize) -> SplitCase {
    gen_split_with(ch, max_dies, &mut |_, _| {})
}

/// `tweak` may reshape the forest before it is assembled.
pub fn gen_split_with(ch: &mut Choices, max_dies: usize, tweak: &mut dyn FnMut(&mut FDwarf, &mut Choices)) -> SplitCase {
    let mut d = gen_fdwarf(ch, &GenOpts { max_units: 1, max_dies, lines: false, bad_refs: 0, split: true });
    tweak(&mut d, ch);
    let ranges_pad = ch.pick(&[0usize, 16, 48, 7]);
    let (main, dwo, _) = assemble_split(&d, ranges_pad);
    SplitCase { d, main, dwo, ranges_pad }
}

/// The full unit as gimli reads it when it is told about the skeleton: the one oracle-side use of
/// `make_dwo` + `copy_relocated_attributes`, the documented way to read a split unit.
pub fn dump_split_input(c: &SplitCase) -> Result<sem::DwarfDump, String> {
    let main = load_map(&c.main, c.d.big);
    let mut dwo = load_map(&c.dwo, c.d.big);
    dwo.make_dwo(&main);
    let sh = main.units().next().map_err(|e| format!("skeleton:{}", sem::errname(&e)))?.ok_or("skeleton:none")?;
    let skeleton = main.unit(sh).map_err(|e| format!("skeleton:{}", sem::errname(&e)))?;
    sem::dwarf_dump_with(&dwo, &|u| u.copy_relocated_attributes(&skeleton))
}

/// Convert the split unit into the unit reserved for its skeleton, as the documentation of `convert_split` shows,
/// then carry over the skeleton root's own attributes (the unit's DW_AT_low_pc lives there) and write.
/// `required`: Some(markers) = use the filter API and require exactly these entries.
pub fn convert_split(c: &SplitCase, required: Option<&BTreeSet<u64>>) -> Result<Map, String> {
    let big = c.d.big;
    let endian = if big { RunTimeEndian::Big } else { RunTimeEndian::Little };
    let main = load_map(&c.main, big);
    let mut dwo = load_map(&c.dwo, big);
    dwo.make_dwo(&main);
    let ca = |a: u64| Some(w::Address::Constant(a));
    let mut out = w::Dwarf::new();
    {
        let mut conv = out.convert(&main).map_err(|e| format!("convert:{:?}", e))?;
        while let Some((mut unit, root)) = conv.read_unit().map_err(|e| format!("convert:{:?}", e))? {
            if unit.read_unit.dwo_id.is_none() {
                return Err("harness:skeleton-without-dwo-id".into());
            }
            let skeleton_ref = unit.read_unit;
            let mut split = match required {
                None => unit.convert_split(&dwo).map_err(|e| format!("convert:{:?}", e))?,
                Some(req) => {
                    let mut filter = w::FilterUnitSection::new_split(&dwo, skeleton_ref).map_err(|e| format!("filter:{:?}", e))?;
                    while let Some(mut fu) = filter.read_unit().map_err(|e| format!("filter:{:?}", e))? {
                        let mut entry = fu.null_entry();
                        while fu.read_entry(&mut entry).map_err(|e| format!("filter:{:?}", e))? {
                            let m = entry.attr_value(gimli::DwAt(AT_MARKER)).and_then(|v| v.udata_value());
                            if m.is_some_and(|m| req.contains(&m)) {
                                fu.require_entry(entry.offset());
                            }
                        }
                    }
                    unit.convert_split_with_filter(filter).map_err(|e| format!("convert:{:?}", e))?
                }
            };
            let (mut su, sroot) = split.read_unit().map_err(|e| format!("convert:{:?}", e))?;
            su.convert(sroot, &ca).map_err(|e| format!("convert:{:?}", e))?;
            // the skeleton root's attributes (metadata attributes are already filtered out of `root.attrs`)
            let root_id = su.unit.root();
            for attr in &root.attrs {
                let v = su.convert_attribute_value(root.read_unit, attr, &ca).map_err(|e| format!("convert:{:?}", e))?;
                su.unit.get_mut(root_id).set(attr.name(), v);
            }
        }
    }
    let mut sections = w::Sections::new(w::EndianVec::new(endian));
    out.write(&mut sections).map_err(|e| format!("write:{:?}", e))?;
    let mut m = Map::new();
    sections
        .for_each(|id, data| -> Result<(), w::Error> {
            m.insert(id.name(), data.slice().to_vec());
            Ok(())
        })
        .unwrap();
    Ok(m)
}

/// What the converted unit must look like: the full unit, whose root additionally carries the skeleton's DW_AT_low_pc.
pub fn expected_dump(c: &SplitCase, d0: &sem::DwarfDump) -> sem::DwarfDump {
    let mut want = d0.clone();
    if let (Some(u), Some(lp)) = (want.units.first_mut(), c.d.units[0].low_pc) {
        if let Some(root) = u.entries.first_mut() {
            root.attrs.push((0x11, format!("addr:{}", lp)));
        }
    }
    want
}

/// C12: the unit converted from a split compilation means what the split unit means (or conversion fails).
pub fn check_split_conversion(ch: &mut Choices, cx: &mut Ctx) -> R {
    let c = gen_split(ch, 9);
    cx.label("split unit: convert_split");
    cx.sample_with(|| format!("split compilation (DW_AT_GNU_ranges_base {}): {}", c.ranges_pad, describe_fdwarf(&c.d)));
    let d0 = match dump_split_input(&c) {
        Ok(x) => x,
        Err(e) => fail!("c12/harness/split-input-unreadable", "{}", e),
    };
    ensure_eq!(d0.units.len(), 1, "c12/harness/split-unit-count");
    ensure_eq!(d0.units[0].entries.len(), c.d.units[0].dies.len(), "c12/harness/split-entry-count");
    for e in &d0.units[0].entries {
        for (n, m) in &e.attrs {
            ensure!(!m.contains("dangling") && !m.contains("unresolvable") && !m.contains("undecodable") && !m.contains("error("), "c12/harness/split-input-meaning", "attribute {:#x} reads as {}", n, m);
        }
    }
    let out = match convert_split(&c, None) {
        Ok(o) => o,
        Err(e) => {
            ensure!(!e.starts_with("harness"), "c12/harness/split-driver", "{}", e);
            cx.label("split unit: conversion refused");
            cx.label(crate::c12::intern(&format!("split refused: {}", e)));
            return Ok(());
        }
    };
    let d1 = {
        let dwarf = load_map(&out, c.d.big);
        match sem::dwarf_dump(&dwarf) {
            Ok(x) => x,
            Err(e) => fail!("c12/split/output-unreadable", "{}", e),
        }
    };
    let want = expected_dump(&c, &d0);
    cx.say(|| format!("split unit read with its skeleton: {:?}\nconverted: {:?}", want, d1));
    if let Some(diff) = sem::diff_dumps(&want, &d1) {
        fail!(format!("c12/split/{}", diff.0), "{}", diff.1);
    }
    cx.label("split unit: converted and compared");
    let u = &c.d.units[0];
    if u.dies.len() >= 3 && (!u.ranges.is_empty() || !u.locs.is_empty()) {
        cx.nt();
    }
    Ok(())
}
