//! vpcheck — property-based / fuzzing checks for gimli (see /verif/DESIGN.md).
#![allow(dead_code)]
pub mod core;
pub mod corpus;
pub mod driver;
pub mod enc;
pub mod c09;
pub mod c10;
pub mod c11;
pub mod c12;
pub mod wmodel;
pub mod c13;
pub mod c14;
pub mod c15;
pub mod c16;
pub mod c17;
pub mod c18;
pub mod c19;
pub mod c20;
pub mod c01;
pub mod c02;
pub mod c03;
pub mod c04;
pub mod c05;
pub mod dieasm;
pub mod c06;
pub mod linemodel;
pub mod sem;
pub mod c07;
pub mod c08;
pub mod cfimodel;
pub mod exprvm;
pub mod fullasm;
pub mod split;

use crate::core::Prop;

pub fn props() -> Vec<&'static dyn Prop> {
    vec![&c01::C01, &c02::C02, &c03::C03, &c04::C04, &c05::C05, &c06::C06, &c07::C07, &c08::C08, &c09::C09, &c10::C10, &c11::C11, &c12::C12, &c13::C13, &c14::C14, &c15::C15, &c16::C16, &c17::C17, &c18::C18, &c19::C19, &c20::C20]
}

pub fn find(id: &str) -> Option<&'static dyn Prop> {
    props().into_iter().find(|p| p.id().eq_ignore_ascii_case(id))
}
