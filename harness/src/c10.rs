//! C10 — readers are faithful zero-copy views; all reader kinds behave identically.
//!
//! Histories of Reader operations over a pool of live readers, run in lock-step
//! against a cursor model, for EndianSlice, EndianRcSlice, EndianArcSlice,
//! EndianReader over a custom buffer type and RelocateReader with the identity
//! relocation. Every returned reader/slice is checked to be a view (by pointer
//! arithmetic) of the original buffer at the model's (offset, length).
use crate::c09::{leb_model, Leb};
use crate::core::*;
use crate::{ensure, ensure_eq, fail};
use gimli::{EndianReader, EndianSlice, Reader, ReaderOffsetId, Relocate, RelocateReader, RunTimeEndian};
use std::rc::Rc;
use std::sync::Arc;

pub struct C10;

// ---- reader kinds ----------------------------------------------------------

/// A custom stable-deref buffer type (a boxed slice behind an Arc).
#[derive(Debug, Clone)]
pub struct BoxedBuf(Arc<Box<[u8]>>);
impl std::ops::Deref for BoxedBuf {
    type Target = [u8];
    fn deref(&self) -> &[u8] {
        &self.0
    }
}
unsafe impl gimli::StableDeref for BoxedBuf {}
unsafe impl gimli::CloneStableDeref for BoxedBuf {}

#[derive(Debug, Clone, Copy)]
pub struct Identity;
impl Relocate<usize> for Identity {
    fn relocate_address(&self, _offset: usize, value: u64) -> gimli::Result<u64> {
        Ok(value)
    }
    fn relocate_offset(&self, _offset: usize, value: usize) -> gimli::Result<usize> {
        Ok(value)
    }
}

pub trait Kind: Reader<Offset = usize> {
    const NAME: &'static str;
    /// inherent range methods (None where the kind has none)
    fn k_range(&self, a: usize, b: usize) -> Option<Self>;
    fn k_range_from(&self, a: usize) -> Option<Self>;
    fn k_range_to(&self, b: usize) -> Option<Self>;
    /// pointer + length of the bytes currently viewed
    fn view(&self) -> (*const u8, usize);
    /// the same through `Deref<Target = [u8]>` (None where the kind does not dereference to bytes)
    fn deref_view(&self) -> Option<(*const u8, usize)> {
        None
    }
}

impl<'a> Kind for EndianSlice<'a, RunTimeEndian> {
    const NAME: &'static str = "EndianSlice";
    fn k_range(&self, a: usize, b: usize) -> Option<Self> {
        Some(self.range(a..b))
    }
    fn k_range_from(&self, a: usize) -> Option<Self> {
        Some(self.range_from(a..))
    }
    fn k_range_to(&self, b: usize) -> Option<Self> {
        Some(self.range_to(..b))
    }
    fn view(&self) -> (*const u8, usize) {
        (self.slice().as_ptr(), self.slice().len())
    }
    fn deref_view(&self) -> Option<(*const u8, usize)> {
        let s: &[u8] = self;
        Some((s.as_ptr(), s.len()))
    }
}

macro_rules! endian_reader_kind {
    ($t:ty, $name:expr) => {
        impl Kind for EndianReader<RunTimeEndian, $t> {
            const NAME: &'static str = $name;
            fn k_range(&self, a: usize, b: usize) -> Option<Self> {
                Some(self.range(a..b))
            }
            fn k_range_from(&self, a: usize) -> Option<Self> {
                Some(self.range_from(a..))
            }
            fn k_range_to(&self, b: usize) -> Option<Self> {
                Some(self.range_to(..b))
            }
            fn view(&self) -> (*const u8, usize) {
                (self.bytes().as_ptr(), self.bytes().len())
            }
            fn deref_view(&self) -> Option<(*const u8, usize)> {
                let s: &[u8] = self;
                Some((s.as_ptr(), s.len()))
            }
        }
    };
}
endian_reader_kind!(Rc<[u8]>, "EndianRcSlice");
endian_reader_kind!(Arc<[u8]>, "EndianArcSlice");
endian_reader_kind!(BoxedBuf, "EndianReader<BoxedBuf>");

impl<'a> Kind for RelocateReader<EndianSlice<'a, RunTimeEndian>, Identity> {
    const NAME: &'static str = "RelocateReader<EndianSlice,Identity>";
    fn k_range(&self, _a: usize, _b: usize) -> Option<Self> {
        None
    }
    fn k_range_from(&self, _a: usize) -> Option<Self> {
        None
    }
    fn k_range_to(&self, _b: usize) -> Option<Self> {
        None
    }
    fn view(&self) -> (*const u8, usize) {
        (self.inner().slice().as_ptr(), self.inner().slice().len())
    }
}

impl Kind for RelocateReader<EndianReader<RunTimeEndian, Rc<[u8]>>, Identity> {
    const NAME: &'static str = "RelocateReader<EndianRcSlice,Identity>";
    fn k_range(&self, _a: usize, _b: usize) -> Option<Self> {
        None
    }
    fn k_range_from(&self, _a: usize) -> Option<Self> {
        None
    }
    fn k_range_to(&self, _b: usize) -> Option<Self> {
        None
    }
    fn view(&self) -> (*const u8, usize) {
        (self.inner().bytes().as_ptr(), self.inner().bytes().len())
    }
}

// ---- history ---------------------------------------------------------------

#[derive(Debug, Clone)]
pub enum Op {
    ReadFixed(usize, u8),       // pool idx, which (0..=11)
    ReadUint(usize, usize),     // n in 1..=8
    ReadLeb(usize, u8),         // 0 uleb 1 sleb 2 u32 3 u16 4 skip
    ReadAddress(usize, u8),     // size
    ReadSizedOffset(usize, u8), // size
    ReadWord(usize, bool, u8),  // format64, which of word/offset/length
    ReadInitialLength(usize),
    ReadAddressSize(usize),
    ReadCStr(usize),
    ReadSlice(usize, usize),
    ReadArray4(usize),
    Skip(usize, usize),
    Split(usize, usize),
    Truncate(usize, usize),
    Empty(usize),
    Find(usize, u8),
    Clone(usize),
    Drop(usize),
    OffsetFrom(usize, usize),
    OffsetId(usize),
    ToSlice(usize),
    ToString(usize),
    ToStringLossy(usize),
    Range(usize, usize, usize),
    RangeFrom(usize, usize),
    RangeTo(usize, usize),
    Len(usize),
}

#[derive(Clone, Copy, Debug)]
struct Cur {
    off: usize,
    len: usize,
    /// after `empty()` an EndianSlice no longer points into the buffer: pointer-based
    /// observations are outside the documented contract from then on
    emptied: bool,
}

pub struct History {
    pub data: Vec<u8>,
    pub big: bool,
    pub ops: Vec<Op>,
}

fn gen_len(ch: &mut Choices, cur_len_hint: usize) -> usize {
    match ch.below(8) {
        0 => 0,
        1 => 1,
        2 => cur_len_hint,
        3 => cur_len_hint + 1,
        4 => cur_len_hint.saturating_sub(1),
        5 => usize::MAX,
        _ => ch.below(cur_len_hint + 2),
    }
}

pub fn gen_history(ch: &mut Choices) -> History {
    let big = ch.bool();
    let n = 1 + ch.below(64);
    let style = ch.below(4);
    let mut data = Vec::with_capacity(n);
    for _ in 0..n {
        data.push(match style {
            0 => ch.u8(),
            1 => {
                // text-ish with NULs
                let b = ch.u8();
                if b < 40 {
                    0
                } else if b < 220 {
                    b'a' + (b % 26)
                } else {
                    b
                }
            }
            2 => ch.pick(&[0x80u8, 0xff, 0x00, 0x01, 0x7f, 0x81, 0xf0, 0xc3, 0xa9]),
            _ => {
                if ch.bool() {
                    ch.u8() | 0x80
                } else {
                    ch.u8() & 0x7f
                }
            }
        });
    }
    let nops = 1 + ch.below(40);
    let mut ops = Vec::with_capacity(nops);
    // track only the pool size during generation; indices are taken modulo live size at run time
    for _ in 0..nops {
        let i = ch.below(8);
        let hint = n;
        let op = match ch.below(40) {
            0..=4 => Op::ReadFixed(i, ch.below(12) as u8),
            5 => Op::ReadUint(i, 1 + ch.below(8)),
            6..=8 => Op::ReadLeb(i, ch.below(5) as u8),
            9 => Op::ReadAddress(i, ch.pick(&[1u8, 2, 4, 8, 0, 3, 16])),
            10 => Op::ReadSizedOffset(i, ch.pick(&[1u8, 2, 4, 8, 0, 5, 9])),
            11 => Op::ReadWord(i, ch.bool(), ch.below(3) as u8),
            12 => Op::ReadInitialLength(i),
            13 => Op::ReadAddressSize(i),
            14 | 15 => Op::ReadCStr(i),
            16 => Op::ReadSlice(i, gen_len(ch, hint / 2).min(4096)),
            17 => Op::ReadArray4(i),
            18 | 19 => Op::Skip(i, gen_len(ch, hint / 3)),
            20..=23 => Op::Split(i, gen_len(ch, hint / 3)),
            24 | 25 => Op::Truncate(i, gen_len(ch, hint / 2)),
            26 => Op::Empty(i),
            27 => Op::Find(i, ch.pick(&[0u8, 0xff, b'a', 0x80, 1])),
            28..=30 => Op::Clone(i),
            31 | 32 => Op::Drop(i),
            33 => Op::OffsetFrom(i, ch.below(8)),
            34 => Op::OffsetId(i),
            35 => Op::ToSlice(i),
            36 => {
                if ch.bool() {
                    Op::ToString(i)
                } else {
                    Op::ToStringLossy(i)
                }
            }
            37 => Op::Range(i, ch.below(hint + 1), ch.below(hint + 1)),
            38 => {
                if ch.bool() {
                    Op::RangeFrom(i, ch.below(hint + 1))
                } else {
                    Op::RangeTo(i, ch.below(hint + 1))
                }
            }
            _ => Op::Len(i),
        };
        ops.push(op);
    }
    History { data, big, ops }
}

fn errname(e: &gimli::Error) -> String {
    let s = format!("{:?}", e);
    match s.find('(') {
        Some(i) => {
            // keep non-pointer payloads (sizes etc.), drop ReaderOffsetId payloads
            if s.contains("ReaderOffsetId") {
                s[..i].to_string()
            } else {
                s
            }
        }
        None => s,
    }
}

fn be_le(bytes: &[u8], big: bool) -> u128 {
    let mut v: u128 = 0;
    if big {
        for b in bytes {
            v = (v << 8) | *b as u128;
        }
    } else {
        for (i, b) in bytes.iter().enumerate() {
            v |= (*b as u128) << (8 * i);
        }
    }
    v
}

/// A range request beyond the reader's bounds is documented to panic (`EndianReader`) or panics through slice indexing
/// (`EndianSlice`). Whatever it does, it must not hand back a reader that views bytes outside the reader it was taken from.
fn out_of_bounds_range<K: Kind>(r: R<Option<K>>, parent: Cur, base: *const u8, what: &str) -> R {
    if let Ok(Some(r)) = r {
        if parent.emptied {
            return Ok(());
        }
        let (p, l) = r.view();
        let off = (p as usize).wrapping_sub(base as usize);
        let reported = r.len();
        ensure!(
            off >= parent.off && off.checked_add(l.max(reported)).is_some_and(|e| e <= parent.off + parent.len),
            "c10/range/out-of-bounds-view",
            "kind={} {} on a reader of {} bytes at buffer offset {} returned a reader viewing offset {} length {} (len() = {})",
            K::NAME,
            what,
            parent.len,
            parent.off,
            off as isize,
            l,
            reported
        );
    }
    Ok(())
}

/// Run the history on one reader kind; returns the observation trace.
fn interpret<K: Kind>(h: &History, root: K, base: *const u8, other: &K, cx: &mut Ctx) -> R<Vec<String>> {
    let data = &h.data;
    let big = h.big;
    let mut pool: Vec<(K, Cur)> = vec![(root, Cur { off: 0, len: data.len(), emptied: false })];
    let mut trace: Vec<String> = Vec::new();
    let k = K::NAME;
    let mut saw_split_then_reads = 0u32;
    let mut clone_outlived = false;
    let mut cloned_from_root = false;

    // every reader in the pool must at all times view exactly the model's range
    macro_rules! check_view {
        ($r:expr, $c:expr, $what:expr) => {{
            let (p, l) = $r.view();
            ensure_eq!(l, $c.len, format!("c10/{}/len", $what), "kind={} op#{}", k, trace.len());
            ensure_eq!($r.len(), $c.len, format!("c10/{}/Reader::len", $what), "kind={}", k);
            if let Some((dp, dl)) = $r.deref_view() {
                ensure!(dl == l && (l == 0 || dp == p), format!("c10/{}/deref", $what), "kind={} op#{} dereferences to {} bytes at {:?}, views {} bytes at {:?}", k, trace.len(), dl, dp, l, p);
            }
            if !$c.emptied {
                let off = (p as usize).wrapping_sub(base as usize);
                ensure!(
                    off == $c.off && off + l <= data.len(),
                    format!("c10/{}/view-offset", $what),
                    "kind={} op#{} view starts at buffer offset {} len {} but the model says offset {} len {} (buffer len {})",
                    k,
                    trace.len(),
                    off as isize,
                    l,
                    $c.off,
                    $c.len,
                    data.len()
                );
            }
        }};
    }

    for (opi, op) in h.ops.iter().enumerate() {
        if pool.is_empty() {
            break;
        }
        let n = pool.len();
        macro_rules! idx {
            ($i:expr) => {
                $i % n
            };
        }
        // model bytes visible to reader i
        macro_rules! vis {
            ($c:expr) => {
                &data[$c.off..$c.off + $c.len]
            };
        }
        // Simple read helper: $call on the reader, $model returns Option<(String value, consumed)>
        macro_rules! simple_read {
            ($i:expr, $name:expr, $call:expr, $model:expr) => {{
                let i = idx!($i);
                let before = pool[i].1;
                let pre = pool[i].0.clone();
                let got = { let r = &mut pool[i].0; $call(r) };
                let bytes = vis!(before);
                let want: Option<(String, usize)> = $model(bytes);
                match (got, want) {
                    (Ok(g), Some((w, used))) => {
                        ensure_eq!(g, w, format!("c10/{}/value", $name), "kind={} op#{} at offset {}", k, opi, before.off);
                        pool[i].1.off += used;
                        pool[i].1.len -= used;
                        trace.push(format!("{}={}", $name, g));
                    }
                    (Err(e), None) => {
                        // position after an error is unspecified: resynchronise, but it may not grow
                        let l = pool[i].0.len();
                        ensure!(l <= before.len, format!("c10/{}/err-grew", $name), "kind={} op#{}", k, opi);
                        if let gimli::Error::UnexpectedEof(id) = e {
                            let back = pre.lookup_offset_id(id);
                            ensure!(
                                before.emptied || matches!(back, Some(x) if x <= before.len),
                                format!("c10/{}/eof-id", $name),
                                "kind={} op#{}: UnexpectedEof id does not map back into the reader it came from ({:?})",
                                k,
                                opi,
                                back
                            );
                        }
                        pool[i].1.off += before.len - l;
                        pool[i].1.len = l;
                        trace.push(format!("{}=Err({}) len={}", $name, errname(&e), l));
                    }
                    (Ok(g), None) => fail!(format!("c10/{}/accepted", $name), "kind={} op#{}: model expects an error, reader returned {}", k, opi, g),
                    (Err(e), Some((w, _))) => fail!(format!("c10/{}/rejected", $name), "kind={} op#{}: model expects {}, reader returned {:?}", k, opi, w, e),
                }
                let c = pool[i].1;
                check_view!(pool[i].0, c, $name);
            }};
        }
        match op {
            Op::ReadFixed(i, which) => {
                let (name, size): (&str, usize) = match which {
                    0 => ("read_u8", 1),
                    1 => ("read_i8", 1),
                    2 => ("read_u16", 2),
                    3 => ("read_i16", 2),
                    4 => ("read_u32", 4),
                    5 => ("read_i32", 4),
                    6 => ("read_u64", 8),
                    7 => ("read_i64", 8),
                    8 => ("read_u128", 16),
                    9 => ("read_f32", 4),
                    10 => ("read_f64", 8),
                    _ => ("read_u8", 1),
                };
                let w = *which;
                simple_read!(
                    *i,
                    name,
                    |r: &mut K| -> gimli::Result<String> {
                        Ok(match w {
                            0 => format!("{}", r.read_u8()?),
                            1 => format!("{}", r.read_i8()?),
                            2 => format!("{}", r.read_u16()?),
                            3 => format!("{}", r.read_i16()?),
                            4 => format!("{}", r.read_u32()?),
                            5 => format!("{}", r.read_i32()?),
                            6 => format!("{}", r.read_u64()?),
                            7 => format!("{}", r.read_i64()?),
                            8 => format!("{}", r.read_u128()?),
                            9 => format!("f{:#x}", r.read_f32()?.to_bits()),
                            10 => format!("f{:#x}", r.read_f64()?.to_bits()),
                            _ => format!("{}", r.read_u8()?),
                        })
                    },
                    |b: &[u8]| -> Option<(String, usize)> {
                        if b.len() < size {
                            return None;
                        }
                        let v = be_le(&b[..size], big);
                        Some((
                            match w {
                                1 => format!("{}", v as u8 as i8),
                                3 => format!("{}", v as u16 as i16),
                                5 => format!("{}", v as u32 as i32),
                                7 => format!("{}", v as u64 as i64),
                                9 => format!("f{:#x}", v as u32),
                                10 => format!("f{:#x}", v as u64),
                                _ => format!("{}", v),
                            },
                            size,
                        ))
                    }
                );
            }
            Op::ReadUint(i, nb) => {
                let nb = *nb;
                simple_read!(*i, "read_uint", |r: &mut K| r.read_uint(nb).map(|v| format!("{}", v)), |b: &[u8]| if b.len() < nb { None } else { Some((format!("{}", be_le(&b[..nb], big)), nb)) });
            }
            Op::ReadLeb(i, which) => {
                let w = *which;
                let name = ["read_uleb128", "read_sleb128", "read_uleb128_u32", "read_uleb128_u16", "skip_leb128"][w as usize % 5];
                // LEB semantics are judged in C09; here the model mirrors C09's model and
                // defers to resynchronisation where C09 allows either outcome (over-long).
                let i = idx!(*i);
                let before = pool[i].1;
                let bytes = vis!(before).to_vec();
                let got: gimli::Result<String> = {
                    let r = &mut pool[i].0;
                    match w % 5 {
                        0 => r.read_uleb128().map(|v| format!("{}", v)),
                        1 => r.read_sleb128().map(|v| format!("{}", v)),
                        2 => r.read_uleb128_u32().map(|v| format!("{}", v)),
                        3 => r.read_uleb128_u16().map(|v| format!("{}", v)),
                        _ => r.skip_leb128().map(|_| "()".to_string()),
                    }
                };
                let (signed, width) = match w % 5 {
                    1 => (true, 64),
                    2 => (false, 32),
                    3 => (false, 16),
                    _ => (false, 64),
                };
                let m = leb_model(&bytes, signed, width);
                match (&got, &m) {
                    (Ok(g), Leb::Fits { value, len }) => {
                        let want = if w % 5 == 4 {
                            "()".to_string()
                        } else if signed {
                            format!("{}", *value as i64)
                        } else {
                            format!("{}", value)
                        };
                        ensure_eq!(*g, want, format!("c10/{}/value", name), "kind={} op#{}", k, opi);
                        pool[i].1.off += len;
                        pool[i].1.len -= len;
                    }
                    (Ok(_), Leb::TooBig { len }) if w % 5 == 4 => {
                        pool[i].1.off += len;
                        pool[i].1.len -= len;
                    }
                    (Ok(g), m) => fail!(format!("c10/{}/accepted", name), "kind={} op#{} got {} model {:?}", k, opi, g, m),
                    (Err(_), _) => {
                        let l = pool[i].0.len();
                        ensure!(l <= before.len, format!("c10/{}/err-grew", name), "kind={} op#{}", k, opi);
                        pool[i].1.off += before.len - l;
                        pool[i].1.len = l;
                    }
                }
                trace.push(format!("{}={:?} len={}", name, got.as_ref().map_err(errname), pool[i].1.len));
                let c = pool[i].1;
                check_view!(pool[i].0, c, name);
            }
            Op::ReadAddress(i, size) => {
                let s = *size;
                simple_read!(*i, "read_address", |r: &mut K| r.read_address(s).map(|v| format!("{}", v)), |b: &[u8]| if !matches!(s, 1 | 2 | 4 | 8) || b.len() < s as usize {
                    None
                } else {
                    Some((format!("{}", be_le(&b[..s as usize], big)), s as usize))
                });
            }
            Op::ReadSizedOffset(i, size) => {
                let s = *size;
                simple_read!(*i, "read_sized_offset", |r: &mut K| r.read_sized_offset(s).map(|v| format!("{}", v)), |b: &[u8]| if !matches!(s, 1 | 2 | 4 | 8) || b.len() < s as usize {
                    None
                } else {
                    Some((format!("{}", be_le(&b[..s as usize], big)), s as usize))
                });
            }
            Op::ReadWord(i, f64_, which) => {
                let format = if *f64_ { gimli::Format::Dwarf64 } else { gimli::Format::Dwarf32 };
                let s = if *f64_ { 8usize } else { 4 };
                let w = *which;
                simple_read!(
                    *i,
                    "read_word",
                    |r: &mut K| match w {
                        0 => r.read_word(format),
                        1 => r.read_offset(format),
                        _ => r.read_length(format),
                    }
                    .map(|v| format!("{}", v)),
                    |b: &[u8]| if b.len() < s { None } else { Some((format!("{}", be_le(&b[..s], big)), s)) }
                );
            }
            Op::ReadInitialLength(i) => {
                simple_read!(*i, "read_initial_length", |r: &mut K| r.read_initial_length().map(|(l, f)| format!("{}:{:?}", l, f)), |b: &[u8]| {
                    if b.len() < 4 {
                        return None;
                    }
                    let first = be_le(&b[..4], big) as u32;
                    if first < 0xffff_fff0 {
                        Some((format!("{}:Dwarf32", first), 4))
                    } else if first == 0xffff_ffff && b.len() >= 12 {
                        Some((format!("{}:Dwarf64", be_le(&b[4..12], big)), 12))
                    } else {
                        None
                    }
                });
            }
            Op::ReadAddressSize(i) => {
                simple_read!(*i, "read_address_size", |r: &mut K| r.read_address_size().map(|v| format!("{}", v)), |b: &[u8]| match b.first() {
                    Some(s @ (1 | 2 | 4 | 8)) => Some((format!("{}", s), 1)),
                    _ => None,
                });
            }
            Op::ReadCStr(i) => {
                let i = idx!(*i);
                let before = pool[i].1;
                let bytes = vis!(before);
                let pos = bytes.iter().position(|b| *b == 0);
                let got = pool[i].0.read_null_terminated_slice();
                match (got, pos) {
                    (Ok(s), Some(p)) => {
                        let sc = Cur { off: before.off, len: p, emptied: before.emptied };
                        check_view!(s, sc, "read_null_terminated_slice/result");
                        let sl = s.to_slice().map_err(|e| Failure { sig: "c10/cstr/to_slice".into(), detail: format!("{e:?}") })?;
                        ensure_eq!(&sl[..], &bytes[..p], "c10/read_null_terminated_slice/bytes", "kind={} op#{}", k, opi);
                        pool[i].1.off += p + 1;
                        pool[i].1.len -= p + 1;
                        trace.push(format!("cstr={:02x?}", &sl[..]));
                        drop(sl);
                        pool.push((s, sc));
                    }
                    (Err(e), None) => {
                        let l = pool[i].0.len();
                        ensure!(l <= before.len, "c10/read_null_terminated_slice/err-grew", "kind={}", k);
                        pool[i].1.off += before.len - l;
                        pool[i].1.len = l;
                        trace.push(format!("cstr=Err({}) len={}", errname(&e), l));
                    }
                    (Ok(_), None) => fail!("c10/read_null_terminated_slice/accepted", "kind={} op#{} no NUL in view", k, opi),
                    (Err(e), Some(p)) => fail!("c10/read_null_terminated_slice/rejected", "kind={} op#{} NUL at {} but {:?}", k, opi, p, e),
                }
                let c = pool[i].1;
                check_view!(pool[i].0, c, "read_null_terminated_slice");
            }
            Op::ReadSlice(i, nb) => {
                let nb = *nb;
                simple_read!(
                    *i,
                    "read_slice",
                    |r: &mut K| {
                        let mut buf = vec![0u8; nb];
                        r.read_slice(&mut buf).map(|_| format!("{:02x?}", buf))
                    },
                    |b: &[u8]| if b.len() < nb { None } else { Some((format!("{:02x?}", &b[..nb]), nb)) }
                );
            }
            Op::ReadArray4(i) => {
                simple_read!(*i, "read_u8_array", |r: &mut K| r.read_u8_array::<[u8; 4]>().map(|a| format!("{:02x?}", a)), |b: &[u8]| if b.len() < 4 {
                    None
                } else {
                    Some((format!("{:02x?}", &b[..4]), 4))
                });
            }
            Op::Skip(i, nb) => {
                let nb = *nb;
                simple_read!(*i, "skip", |r: &mut K| r.skip(nb).map(|_| "()".to_string()), |b: &[u8]| if b.len() < nb { None } else { Some(("()".to_string(), nb)) });
            }
            Op::Split(i, nb) => {
                let nb = *nb;
                let i = idx!(*i);
                let before = pool[i].1;
                let got = pool[i].0.split(nb);
                match got {
                    Ok(head) => {
                        ensure!(nb <= before.len, "c10/split/accepted", "kind={} op#{} split({}) of len {}", k, opi, nb, before.len);
                        let hc = Cur { off: before.off, len: nb, emptied: before.emptied };
                        check_view!(head, hc, "split/head");
                        pool[i].1.off += nb;
                        pool[i].1.len -= nb;
                        let c = pool[i].1;
                        check_view!(pool[i].0, c, "split/tail");
                        trace.push(format!("split({})=ok", nb));
                        pool.push((head, hc));
                        saw_split_then_reads += 1;
                    }
                    Err(e) => {
                        ensure!(nb > before.len, "c10/split/rejected", "kind={} op#{} split({}) of len {}: {:?}", k, opi, nb, before.len, e);
                        let c = pool[i].1;
                        check_view!(pool[i].0, c, "split/err-unchanged");
                        trace.push(format!("split({})=Err({})", nb, errname(&e)));
                    }
                }
            }
            Op::Truncate(i, nb) => {
                let nb = *nb;
                let i = idx!(*i);
                let before = pool[i].1;
                match pool[i].0.truncate(nb) {
                    Ok(()) => {
                        ensure!(nb <= before.len, "c10/truncate/accepted", "kind={} op#{} truncate({}) of len {}", k, opi, nb, before.len);
                        pool[i].1.len = nb;
                        trace.push(format!("truncate({})=ok", nb));
                    }
                    Err(e) => {
                        ensure!(nb > before.len, "c10/truncate/rejected", "kind={} op#{} truncate({}) of len {}: {:?}", k, opi, nb, before.len, e);
                        trace.push(format!("truncate({})=Err({})", nb, errname(&e)));
                    }
                }
                let c = pool[i].1;
                check_view!(pool[i].0, c, "truncate");
            }
            Op::Empty(i) => {
                let i = idx!(*i);
                pool[i].0.empty();
                pool[i].1.len = 0;
                pool[i].1.emptied = false; // every kind keeps its position in empty() (fixed in gimli: see known_findings)
                ensure!(pool[i].0.is_empty() && pool[i].0.len() == 0, "c10/empty/not-empty", "kind={}", k);
                trace.push("empty".into());
            }
            Op::Find(i, byte) => {
                let i = idx!(*i);
                let c = pool[i].1;
                let want = vis!(c).iter().position(|b| b == byte);
                let got = pool[i].0.find(*byte);
                match (&got, want) {
                    (Ok(g), Some(w)) => ensure_eq!(*g, w, "c10/find/value", "kind={} op#{}", k, opi),
                    (Err(gimli::Error::UnexpectedEof(_)), None) => {}
                    _ => fail!("c10/find/mismatch", "kind={} op#{} got {:?} want {:?}", k, opi, got, want),
                }
                trace.push(format!("find({})={:?}", byte, got.as_ref().map_err(errname)));
            }
            Op::Clone(i) => {
                let i = idx!(*i);
                if i == 0 {
                    cloned_from_root = true;
                }
                let c = pool[i].1;
                let r = pool[i].0.clone();
                check_view!(r, c, "clone");
                pool.push((r, c));
                trace.push("clone".into());
            }
            Op::Drop(i) => {
                let i = idx!(*i);
                if i == 0 && cloned_from_root && pool.len() > 1 {
                    clone_outlived = true;
                }
                pool.remove(i);
                trace.push(format!("drop({})", i));
            }
            Op::OffsetFrom(i, j) => {
                let (i, j) = (idx!(*i), idx!(*j));
                let (a, b) = (pool[i].1, pool[j].1);
                // documented precondition: self is contained in base
                if !a.emptied && !b.emptied && a.off >= b.off && a.off + a.len <= b.off + b.len {
                    let got = pool[i].0.offset_from(&pool[j].0);
                    ensure_eq!(got, a.off - b.off, "c10/offset_from", "kind={} op#{}", k, opi);
                    trace.push(format!("offset_from={}", got));
                }
            }
            Op::OffsetId(i) => {
                let i = idx!(*i);
                let a = pool[i].1;
                if !a.emptied {
                    let id: ReaderOffsetId = pool[i].0.offset_id();
                    for (j, (r, c)) in pool.iter().enumerate() {
                        if c.emptied {
                            continue;
                        }
                        let want = if a.off >= c.off && a.off <= c.off + c.len { Some(a.off - c.off) } else { None };
                        let got = r.lookup_offset_id(id);
                        ensure_eq!(got, want, "c10/lookup_offset_id", "kind={} op#{} id of reader {} (offset {}) looked up in reader {} (offset {} len {})", k, opi, i, a.off, j, c.off, c.len);
                    }
                    // a reader over another buffer must not claim the id (unless the buffers touch)
                    let (op_, ol) = other.view();
                    let (bp, bl) = (base as usize, data.len());
                    let touching = (op_ as usize) <= bp + bl && bp <= op_ as usize + ol;
                    if !touching {
                        ensure_eq!(other.lookup_offset_id(id), None, "c10/lookup_offset_id/foreign", "kind={}", k);
                    }
                    trace.push("offset_id ok".into());
                }
            }
            Op::ToSlice(i) => {
                let i = idx!(*i);
                let c = pool[i].1;
                let s = pool[i].0.to_slice().map_err(|e| Failure { sig: "c10/to_slice/err".into(), detail: format!("{e:?}") })?;
                ensure_eq!(&s[..], vis!(c), "c10/to_slice/bytes", "kind={} op#{}", k, opi);
                if let std::borrow::Cow::Borrowed(b) = &s {
                    if !c.emptied {
                        let off = (b.as_ptr() as usize).wrapping_sub(base as usize);
                        ensure_eq!(off, c.off, "c10/to_slice/not-a-view", "kind={} op#{}", k, opi);
                    }
                    trace.push("to_slice=borrowed".into());
                } else {
                    fail!("c10/to_slice/copied", "kind={} op#{}: to_slice returned an owned copy", k, opi);
                }
            }
            Op::ToString(i) => {
                let i = idx!(*i);
                let c = pool[i].1;
                let got = pool[i].0.to_string();
                let want = std::str::from_utf8(vis!(c));
                match (&got, &want) {
                    (Ok(g), Ok(w)) => {
                        ensure_eq!(&g[..], *w, "c10/to_string/value", "kind={}", k);
                        if let std::borrow::Cow::Borrowed(b) = g {
                            if !c.emptied {
                                ensure_eq!((b.as_ptr() as usize).wrapping_sub(base as usize), c.off, "c10/to_string/not-a-view", "kind={}", k);
                            }
                        } else {
                            fail!("c10/to_string/copied", "kind={} op#{}", k, opi);
                        }
                    }
                    (Err(gimli::Error::BadUtf8), Err(_)) => {}
                    _ => fail!("c10/to_string/mismatch", "kind={} op#{} got {:?} want {:?}", k, opi, got, want),
                }
                trace.push(format!("to_string={:?}", got.as_ref().map_err(errname)));
            }
            Op::ToStringLossy(i) => {
                let i = idx!(*i);
                let c = pool[i].1;
                let got = pool[i].0.to_string_lossy().map_err(|e| Failure { sig: "c10/to_string_lossy/err".into(), detail: format!("{e:?}") })?;
                let want = String::from_utf8_lossy(vis!(c));
                ensure_eq!(&got[..], &want[..], "c10/to_string_lossy/value", "kind={}", k);
                trace.push(format!("to_string_lossy={:?}", got));
            }
            Op::Range(i, a, b) => {
                let i = idx!(*i);
                let c = pool[i].1;
                let (a, b) = (*a.min(b), *a.max(b));
                if b <= c.len {
                    let nc = Cur { off: c.off + a, len: b - a, emptied: c.emptied };
                    let r = match pool[i].0.k_range(a, b) {
                        Some(r) => r,
                        None => {
                            let mut r = pool[i].0.clone();
                            r.skip(a).and_then(|_| r.truncate(b - a)).map_err(|e| Failure { sig: "c10/range-emul".into(), detail: format!("{e:?}") })?;
                            r
                        }
                    };
                    check_view!(r, nc, "range");
                    pool.push((r, nc));
                    trace.push(format!("range({},{})", a, b));
                } else {
                    let rdr = pool[i].0.clone();
                    out_of_bounds_range::<K>(catch("range", move || rdr.k_range(a, b)), c, base, &format!("range({}..{})", a, b))?;
                    trace.push(format!("range({},{}) out of bounds", a, b));
                }
            }
            Op::RangeFrom(i, a) => {
                let i = idx!(*i);
                let c = pool[i].1;
                if *a <= c.len {
                    let nc = Cur { off: c.off + a, len: c.len - a, emptied: c.emptied };
                    let r = match pool[i].0.k_range_from(*a) {
                        Some(r) => r,
                        None => {
                            let mut r = pool[i].0.clone();
                            r.skip(*a).map_err(|e| Failure { sig: "c10/range-emul".into(), detail: format!("{e:?}") })?;
                            r
                        }
                    };
                    check_view!(r, nc, "range_from");
                    pool.push((r, nc));
                    trace.push(format!("range_from({})", a));
                } else {
                    let rdr = pool[i].0.clone();
                    let a = *a;
                    out_of_bounds_range::<K>(catch("range_from", move || rdr.k_range_from(a)), c, base, &format!("range_from({}..)", a))?;
                    trace.push(format!("range_from({}) out of bounds", a));
                }
            }
            Op::RangeTo(i, b) => {
                let i = idx!(*i);
                let c = pool[i].1;
                if *b <= c.len {
                    let nc = Cur { off: c.off, len: *b, emptied: c.emptied };
                    let r = match pool[i].0.k_range_to(*b) {
                        Some(r) => r,
                        None => {
                            let mut r = pool[i].0.clone();
                            r.truncate(*b).map_err(|e| Failure { sig: "c10/range-emul".into(), detail: format!("{e:?}") })?;
                            r
                        }
                    };
                    check_view!(r, nc, "range_to");
                    pool.push((r, nc));
                    trace.push(format!("range_to({})", b));
                } else {
                    let rdr = pool[i].0.clone();
                    let b = *b;
                    out_of_bounds_range::<K>(catch("range_to", move || rdr.k_range_to(b)), c, base, &format!("range_to(..{})", b))?;
                    trace.push(format!("range_to({}) out of bounds", b));
                }
            }
            Op::Len(i) => {
                let i = idx!(*i);
                let c = pool[i].1;
                ensure_eq!(pool[i].0.len(), c.len, "c10/len", "kind={}", k);
                ensure_eq!(pool[i].0.is_empty(), c.len == 0, "c10/is_empty", "kind={}", k);
                ensure_eq!(pool[i].0.endian().is_big_endian(), big, "c10/endian", "kind={}", k);
                trace.push(format!("len={}", c.len));
            }
        }
        // global invariant: every live reader still views its model range, byte for byte
        for (r, c) in pool.iter() {
            let (p, l) = r.view();
            ensure_eq!(l, c.len, "c10/invariant/len", "kind={} after op#{} {:?}", k, opi, op);
            if !c.emptied {
                ensure_eq!((p as usize).wrapping_sub(base as usize), c.off, "c10/invariant/offset", "kind={} after op#{} {:?}", k, opi, op);
            }
        }
    }
    // final: every surviving reader's bytes equal the model's
    for (r, c) in pool.iter() {
        let s = r.to_slice().map_err(|e| Failure { sig: "c10/final/to_slice".into(), detail: format!("{e:?}") })?;
        ensure_eq!(&s[..], &data[c.off..c.off + c.len], "c10/final/bytes", "kind={}", k);
    }
    if saw_split_then_reads >= 1 && trace.len() >= 6 {
        cx.label("split+reads");
        if clone_outlived {
            cx.nt();
        }
    }
    if clone_outlived {
        cx.label("clone-outlives-root");
    }
    Ok(trace)
}

use gimli::Endianity;

/// Whole sections: the same section set parsed through every reader kind gives the same dump (entries, attribute
/// values, expressions, line rows, errors), and offset identifiers taken anywhere in a section map back to that section
/// and offset through `Dwarf::lookup_offset_id`.
/// Offset identifiers are addresses: replace each by the (section, offset) it maps back to in its own file.
fn resolve_ids<R: Reader<Offset = usize>>(lines: Vec<String>, dwarf: &gimli::Dwarf<R>) -> Vec<String> {
    const KEY: &str = "ReaderOffsetId(";
    lines
        .into_iter()
        .map(|l| {
            let mut out = String::new();
            let mut rest = &l[..];
            while let Some(p) = rest.find(KEY) {
                out.push_str(&rest[..p]);
                let after = &rest[p + KEY.len()..];
                let end = after.find(')').unwrap_or(after.len());
                match after[..end].parse::<u64>() {
                    Ok(n) => match dwarf.lookup_offset_id(ReaderOffsetId(n)) {
                        Some((sup, sid, off)) => out.push_str(&format!("@{}{}+{:#x}", if sup { "sup:" } else { "" }, sid.name(), off)),
                        None => out.push_str("@unmapped"),
                    },
                    Err(_) => out.push_str("@unparsable"),
                }
                rest = &after[(end + 1).min(after.len())..];
            }
            out.push_str(rest);
            out
        })
        .collect()
}

/// Thread-safety markers, observed at run time: the inherent method exists only when the bound holds, otherwise
/// method resolution falls back to the trait's default.
struct SendProbe<T>(std::marker::PhantomData<T>);
struct SyncProbe<T>(std::marker::PhantomData<T>);
trait SendFallback {
    fn yes(&self) -> bool {
        false
    }
}
impl<T> SendFallback for SendProbe<T> {}
impl<T> SendFallback for SyncProbe<T> {}
impl<T: Send> SendProbe<T> {
    fn yes(&self) -> bool {
        true
    }
}
impl<T: Sync> SyncProbe<T> {
    fn yes(&self) -> bool {
        true
    }
}

/// A reader over an `Rc` buffer must stay on its thread (its clones share a non-atomic reference count); readers over
/// borrowed and `Arc` buffers may cross threads. Memory safety of the shared-buffer reader depends on these markers.
fn check_thread_markers() -> R {
    macro_rules! marks {
        ($t:ty) => {
            (SendProbe::<$t>(std::marker::PhantomData).yes(), SyncProbe::<$t>(std::marker::PhantomData).yes())
        };
    }
    type RcR = EndianReader<RunTimeEndian, Rc<[u8]>>;
    type ArcR = EndianReader<RunTimeEndian, Arc<[u8]>>;
    type SliceR = EndianSlice<'static, RunTimeEndian>;
    ensure_eq!(marks!(u32), (true, true), "c10/harness/marker-probe");
    ensure_eq!(marks!(Rc<u8>), (false, false), "c10/harness/marker-probe");
    ensure_eq!(marks!(RcR), (false, false), "c10/thread-safety/rc-reader", "(Send, Sync) of EndianRcSlice");
    ensure_eq!(marks!(gimli::Dwarf<RcR>), (false, false), "c10/thread-safety/rc-dwarf", "(Send, Sync) of Dwarf<EndianRcSlice>");
    ensure_eq!(marks!(gimli::Expression<RcR>), (false, false), "c10/thread-safety/rc-expression", "(Send, Sync) of Expression<EndianRcSlice>");
    ensure_eq!(marks!(RelocateReader<RcR, Identity>), (false, false), "c10/thread-safety/rc-relocate-reader");
    ensure_eq!(marks!(ArcR), (true, true), "c10/thread-safety/arc-reader", "(Send, Sync) of EndianArcSlice");
    ensure_eq!(marks!(SliceR), (true, true), "c10/thread-safety/slice-reader");
    Ok(())
}

fn check_sections(ch: &mut Choices, cx: &mut Ctx) -> R {
    use crate::fullasm::{assemble, gen_fdwarf, GenOpts};
    cx.label("mode:sections");
    check_thread_markers()?;
    let d = gen_fdwarf(ch, &GenOpts { max_units: 2, max_dies: 6, lines: true, bad_refs: 0, split: false });
    let mut map = assemble(&d).sections;
    // now and then a section cut short or damaged, so that error paths (which empty the reader) are compared too
    if ch.chance(110) {
        let names: Vec<&'static str> = map.keys().copied().collect();
        let name = names[ch.below(names.len())];
        let len = map[name].len();
        if len > 0 {
            if ch.bool() {
                map.get_mut(name).unwrap().truncate(ch.below(len));
            } else {
                let at = ch.below(len);
                map.get_mut(name).unwrap()[at] = ch.pick(&[0xffu8, 0x80, 0x00, 0x7f]);
            }
            cx.label("mode:sections (damaged)");
        }
    }
    let endian = if d.big { RunTimeEndian::Big } else { RunTimeEndian::Little };
    cx.sample_with(|| format!("section set: {}", map.iter().filter(|(_, v)| !v.is_empty()).map(|(k, v)| format!("{} {} bytes", k, v.len())).collect::<Vec<_>>().join(", ")));
    let empty: &[u8] = &[];
    let get = |id: gimli::SectionId| -> &[u8] { map.get(id.name()).map(|v| &v[..]).unwrap_or(empty) };
    let plain: gimli::Dwarf<EndianSlice<RunTimeEndian>> = gimli::Dwarf::load(|id| -> gimli::Result<_> { Ok(EndianSlice::new(get(id), endian)) }).unwrap();
    let a = resolve_ids(crate::c18::dump(&plain), &plain);
    {
        let rc: gimli::Dwarf<EndianReader<RunTimeEndian, Rc<[u8]>>> = gimli::Dwarf::load(|id| -> gimli::Result<_> { Ok(EndianReader::new(Rc::from(get(id)), endian)) }).unwrap();
        let b = resolve_ids(crate::c18::dump(&rc), &rc);
        if a != b {
            let i = a.iter().zip(b.iter()).position(|(x, y)| x != y).unwrap_or(a.len().min(b.len()));
            fail!("c10/sections/rc-differs", "line {}: EndianSlice `{:?}` vs EndianRcSlice `{:?}`", i, a.get(i), b.get(i));
        }
    }
    {
        let arc: gimli::Dwarf<EndianReader<RunTimeEndian, Arc<[u8]>>> = gimli::Dwarf::load(|id| -> gimli::Result<_> { Ok(EndianReader::new(Arc::from(get(id)), endian)) }).unwrap();
        let b = resolve_ids(crate::c18::dump(&arc), &arc);
        if a != b {
            let i = a.iter().zip(b.iter()).position(|(x, y)| x != y).unwrap_or(a.len().min(b.len()));
            fail!("c10/sections/arc-differs", "line {}: EndianSlice `{:?}` vs EndianArcSlice `{:?}`", i, a.get(i), b.get(i));
        }
    }
    {
        let rel: gimli::Dwarf<RelocateReader<EndianSlice<RunTimeEndian>, Identity>> = gimli::Dwarf::load(|id| -> gimli::Result<_> { Ok(RelocateReader::new(EndianSlice::new(get(id), endian), Identity)) }).unwrap();
        let b = resolve_ids(crate::c18::dump(&rel), &rel);
        if a != b {
            let i = a.iter().zip(b.iter()).position(|(x, y)| x != y).unwrap_or(a.len().min(b.len()));
            fail!("c10/sections/relocate-identity-differs", "line {}: EndianSlice `{:?}` vs identity-relocating reader `{:?}`", i, a.get(i), b.get(i));
        }
    }
    // owned section data borrowed afterwards (both ways of borrowing): the views are views of the owned copies of the
    // same sections
    {
        // (the position carried by an end-of-input error is left out of this comparison: empty `Vec`s all sit at the same
        // dangling address, so an identifier inside an empty section cannot be attributed to one section)
        let strip = |v: &Vec<String>| -> Vec<String> {
            v.iter()
                .map(|l| {
                    let mut out = String::new();
                    let mut rest = l.as_str();
                    while let Some(i) = rest.find("(@") {
                        out.push_str(&rest[..i]);
                        match rest[i..].find(')') {
                            Some(j) => rest = &rest[i + j + 1..],
                            None => {
                                rest = "";
                            }
                        }
                    }
                    out.push_str(rest);
                    out
                })
                .collect()
        };
        let a = strip(&a);
        let owned: gimli::DwarfSections<Vec<u8>> = gimli::DwarfSections::load(|id| -> gimli::Result<_> { Ok(get(id).to_vec()) }).unwrap();
        let bd = owned.borrow(|v| EndianSlice::new(&v[..], endian));
        let b = strip(&resolve_ids(crate::c18::dump(&bd), &bd));
        if a != b {
            let i = a.iter().zip(b.iter()).position(|(x, y)| x != y).unwrap_or(a.len().min(b.len()));
            fail!("c10/sections/borrowed-owned-differs", "line {}: EndianSlice `{:?}` vs DwarfSections<Vec<u8>>::borrow `{:?}`", i, a.get(i), b.get(i));
        }
        let owned2: gimli::Dwarf<Vec<u8>> = gimli::Dwarf::load(|id| -> gimli::Result<_> { Ok(get(id).to_vec()) }).unwrap();
        #[allow(deprecated)]
        let bd2 = owned2.borrow(|v| EndianSlice::new(&v[..], endian));
        let b = strip(&resolve_ids(crate::c18::dump(&bd2), &bd2));
        if a != b {
            let i = a.iter().zip(b.iter()).position(|(x, y)| x != y).unwrap_or(a.len().min(b.len()));
            fail!("c10/sections/borrowed-owned-differs", "line {}: EndianSlice `{:?}` vs Dwarf<Vec<u8>>::borrow `{:?}`", i, a.get(i), b.get(i));
        }
    }
    // offset identifiers through the whole-file lookup
    use gimli::SectionId as S;
    for sid in [S::DebugAbbrev, S::DebugAddr, S::DebugAranges, S::DebugInfo, S::DebugLine, S::DebugLineStr, S::DebugLoc, S::DebugLocLists, S::DebugRanges, S::DebugRngLists, S::DebugStr, S::DebugStrOffsets, S::DebugTypes] {
        let bytes = get(sid);
        if bytes.is_empty() {
            continue;
        }
        for k in [0usize, bytes.len() / 2, bytes.len()] {
            let mut r = EndianSlice::new(bytes, endian);
            r.skip(k).map_err(|e| Failure { sig: "c10/sections/skip".into(), detail: format!("{e:?}") })?;
            ensure_eq!(plain.lookup_offset_id(r.offset_id()), Some((false, sid, k)), "c10/sections/lookup_offset_id", "{:?} offset {}", sid, k);
        }
    }
    // a package contribution is exactly the bytes [offset, offset+size) of the section, or refused
    {
        use gimli::Section;
        let bytes = get(S::DebugInfo);
        let sec = gimli::DebugInfo::new(bytes, endian);
        let n = bytes.len();
        let mut picks: Vec<(usize, usize)> = vec![(0, n), (0, 0), (n, 0), (n / 2, n - n / 2), (n / 3, n / 3), (1.min(n), n.saturating_sub(1)), (0, n + 1), (n, 1), (n + 1, 0), (n / 2, n)];
        for _ in 0..3 {
            picks.push((ch.below(n + 2), ch.below(n + 2)));
        }
        for (off, size) in picks {
            let got = sec.dwp_range(off as u32, size as u32);
            if off + size <= n {
                match got {
                    Ok(sub) => {
                        let r = sub.reader();
                        ensure!(r.slice() == &bytes[off..off + size] && (size == 0 || r.slice().as_ptr() == bytes[off..].as_ptr()), "c10/sections/dwp_range", "offset {} size {} of {} bytes: got {} bytes", off, size, n, r.len());
                    }
                    Err(e) => fail!("c10/sections/dwp_range-refused", "offset {} size {} of {} bytes: {:?}", off, size, n, e),
                }
            } else {
                ensure!(got.is_err(), "c10/sections/dwp_range-out-of-bounds", "offset {} size {} of {} bytes accepted", off, size, n);
            }
        }
    }
    // conveniences of the two reader families on the same bytes: split_at, string views, indexing, equality, hashing
    {
        use std::hash::{Hash, Hasher};
        let bytes = get(S::DebugStr);
        let n = bytes.len();
        let r = EndianSlice::new(bytes, endian);
        for k in [0usize, n / 2, n, ch.below(n + 1)] {
            let (x, y) = r.split_at(k);
            ensure!(x.slice() == &bytes[..k] && y.slice() == &bytes[k..] && (k == n || y.slice().as_ptr() == bytes[k..].as_ptr()) && (k == 0 || x.slice().as_ptr() == bytes.as_ptr()), "c10/slice/split_at", "at {} of {}", k, n);
        }
        ensure_eq!(r.to_string().ok(), std::str::from_utf8(bytes).ok(), "c10/slice/to_string");
        ensure_eq!(r.to_string_lossy(), String::from_utf8_lossy(bytes), "c10/slice/to_string_lossy");
        let invalid: [u8; 4] = [b'a', 0xff, 0xc0, b'z'];
        let ri = EndianSlice::new(&invalid[..], endian);
        ensure!(ri.to_string().is_err(), "c10/slice/to_string-accepts-invalid", "");
        ensure_eq!(ri.to_string_lossy(), String::from_utf8_lossy(&invalid), "c10/slice/to_string_lossy-invalid");
        let rc = EndianReader::new(Rc::<[u8]>::from(bytes), endian);
        let arc = EndianReader::new(Arc::<[u8]>::from(bytes), endian);
        let k = ch.below(n + 1);
        let mut rc2 = rc.clone();
        rc2.skip(k).map_err(|e| Failure { sig: "c10/sections/skip".into(), detail: format!("{e:?}") })?;
        ensure!(rc2[0..] == bytes[k..], "c10/reader/index-from", "at {}", k);
        if k < n {
            ensure_eq!(rc2[0], bytes[k], "c10/reader/index", "at {}", k);
            ensure_eq!(rc2[(n - k) / 2..].len(), n - k - (n - k) / 2, "c10/reader/index-from-len", "at {}", k);
        }
        // equality and hashing are by the bytes viewed, whatever owns them
        ensure!(rc == arc, "c10/reader/eq-across-owners", "");
        let mut arc2 = arc.clone();
        arc2.skip(k).map_err(|e| Failure { sig: "c10/sections/skip".into(), detail: format!("{e:?}") })?;
        ensure_eq!(rc2 == arc2, true, "c10/reader/eq-of-views", "at {}", k);
        ensure_eq!(rc == arc2, bytes == &bytes[k..], "c10/reader/eq-of-different-views", "at {}", k);
        let hash_of = |h: &dyn Fn(&mut std::collections::hash_map::DefaultHasher)| {
            let mut s = std::collections::hash_map::DefaultHasher::new();
            h(&mut s);
            s.finish()
        };
        ensure_eq!(hash_of(&|s| rc2.hash(s)), hash_of(&|s| arc2.hash(s)), "c10/reader/hash-of-equal-views", "at {}", k);
        ensure_eq!(hash_of(&|s| rc2.hash(s)), hash_of(&|s| bytes[k..].hash(s)), "c10/reader/hash-is-hash-of-bytes", "at {}", k);
    }
    let foreign = [0u8; 4];
    ensure_eq!(plain.lookup_offset_id(EndianSlice::new(&foreign[..], endian).offset_id()), None, "c10/sections/lookup_offset_id-foreign");
    if a.len() >= 6 {
        cx.nt();
    }
    Ok(())
}

pub fn run_history(h: &History, cx: &mut Ctx) -> R {
    let endian = if h.big { RunTimeEndian::Big } else { RunTimeEndian::Little };
    let other_buf: Vec<u8> = vec![0x5a; 16];
    // 1. borrowed
    let t0 = {
        let root = EndianSlice::new(&h.data[..], endian);
        let other = EndianSlice::new(&other_buf[..], endian);
        interpret(h, root, h.data.as_ptr(), &other, cx)?
    };
    let cmp = |name: &str, t: &Vec<String>| -> R {
        if *t != t0 {
            let i = t.iter().zip(t0.iter()).position(|(a, b)| a != b).unwrap_or(t.len().min(t0.len()));
            fail!("c10/kinds-differ", "{} differs from EndianSlice at observation {}: {:?} vs {:?}", name, i, t.get(i), t0.get(i));
        }
        Ok(())
    };
    // 2. Rc
    {
        let rc: Rc<[u8]> = Rc::from(&h.data[..]);
        let base = rc.as_ptr();
        let other: Rc<[u8]> = Rc::from(&other_buf[..]);
        let t = interpret(h, EndianReader::new(rc, endian), base, &EndianReader::new(other, endian), cx)?;
        cmp("EndianRcSlice", &t)?;
    }
    // 3. Arc
    {
        let rc: Arc<[u8]> = Arc::from(&h.data[..]);
        let base = rc.as_ptr();
        let other: Arc<[u8]> = Arc::from(&other_buf[..]);
        let t = interpret(h, EndianReader::new(rc, endian), base, &EndianReader::new(other, endian), cx)?;
        cmp("EndianArcSlice", &t)?;
    }
    // 4. custom buffer
    {
        let b = BoxedBuf(Arc::new(h.data.clone().into_boxed_slice()));
        let base = b.as_ptr();
        let other = BoxedBuf(Arc::new(other_buf.clone().into_boxed_slice()));
        let t = interpret(h, EndianReader::new(b, endian), base, &EndianReader::new(other, endian), cx)?;
        cmp("EndianReader<BoxedBuf>", &t)?;
    }
    // 5. identity relocation over a borrowed reader
    {
        let root = RelocateReader::new(EndianSlice::new(&h.data[..], endian), Identity);
        let other = RelocateReader::new(EndianSlice::new(&other_buf[..], endian), Identity);
        let t = interpret(h, root, h.data.as_ptr(), &other, cx)?;
        cmp("RelocateReader<EndianSlice>", &t)?;
    }
    // 6. identity relocation over a shared reader
    {
        let rc: Rc<[u8]> = Rc::from(&h.data[..]);
        let base = rc.as_ptr();
        let other: Rc<[u8]> = Rc::from(&other_buf[..]);
        let root = RelocateReader::new(EndianReader::new(rc, endian), Identity);
        let other = RelocateReader::new(EndianReader::new(other, endian), Identity);
        let t = interpret(h, root, base, &other, cx)?;
        cmp("RelocateReader<EndianRcSlice>", &t)?;
    }
    Ok(())
}

impl Prop for C10 {
    fn id(&self) -> &'static str {
        "C10"
    }
    fn rule(&self) -> &'static str {
        "random histories (1..40 ops over a pool of live readers: fixed/LEB/sized reads, skip, split, truncate, empty, find, clone, drop, offset_from, offset_id+lookup on every pool member and a foreign buffer, to_slice/to_string*, range*) over buffers of 1..64 bytes, run on six reader kinds in lock-step against a cursor model; after every op every live reader's (pointer,len) must equal the model's (offset,len) inside the original buffer, and the six observation traces must be equal. separate mode (whole sections): an assembler-built section set (sometimes with one section cut short or damaged) parsed through EndianSlice, EndianRcSlice, EndianArcSlice and an identity-relocating reader gives the same dump of units, entries, attribute values, expressions and line rows incl. errors, and offset identifiers taken at the start, middle and end of every section map back to (section, offset) through Dwarf::lookup_offset_id. Non-trivial = history with >=1 successful split followed by further ops, >=6 observations, and a clone that outlives the root reader; distinct by choice string. Later additions: Deref of every live reader; Section::dwp_range; owned section sets borrowed afterwards; EndianSlice::split_at / to_string / to_string_lossy; indexing, equality and hashing of EndianReaders."
    }
    fn assumptions(&self) -> Vec<&'static str> {
        vec![
            "offset_from is only called when the model says self lies within base (documented: may panic otherwise)",
            "after empty() pointer-derived observations (view offset, offset_from, offset_id) are not compared: EndianSlice re-points at a static empty slice",
            "range/range_from/range_to beyond the reader's bounds may panic (documented) but must never return a reader viewing bytes outside the reader they were taken from",
            "the reader position after a failed read is unspecified: the model resynchronises from len(), which may only shrink, and all kinds must agree on it",
        ]
    }
    fn max_len(&self) -> usize {
        400
    }
    fn cases(&self, tier: Tier, dev: bool) -> u64 {
        match (tier, dev) {
            (Tier::Quick, false) => 120_000,
            (Tier::Quick, true) => 20_000,
            (Tier::Thorough, false) => 6_000_000,
            (Tier::Thorough, true) => 600_000,
        }
    }
    fn run_case(&self, ch: &mut Choices, cx: &mut Ctx) -> R {
        if ch.chance(28) {
            return check_sections(ch, cx);
        }
        let h = gen_history(ch);
        cx.sample_with(|| format!("data={:02x?} big={} ops={:?}", h.data, h.big, h.ops));
        run_history(&h, cx)
    }
}
