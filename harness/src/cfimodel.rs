//! Reference model of DWARF call-frame information: instruction AST, encoder,
//! CIE/FDE section assembler (both .debug_frame and .eh_frame) and the
//! call-frame state machine (DESIGN.md appendix A.2). Independent of gimli.
#![allow(dead_code)]

use crate::enc::{mask, W};
use std::collections::BTreeMap;

#[derive(Clone, Debug, PartialEq)]
pub enum CfiOp {
    AdvanceLoc(u8),
    AdvanceLoc1(u8),
    AdvanceLoc2(u16),
    AdvanceLoc4(u32),
    SetLoc(u64),
    DefCfa(u64, u64),
    DefCfaSf(u64, i64),
    DefCfaRegister(u64),
    DefCfaOffset(u64),
    DefCfaOffsetSf(i64),
    DefCfaExpression(Vec<u8>),
    Undefined(u64),
    SameValue(u64),
    Offset(u8, u64),
    OffsetExtended(u64, u64),
    OffsetExtendedSf(u64, i64),
    ValOffset(u64, u64),
    ValOffsetSf(u64, i64),
    Register(u64, u64),
    Expression(u64, Vec<u8>),
    ValExpression(u64, Vec<u8>),
    Restore(u8),
    RestoreExtended(u64),
    RememberState,
    RestoreState,
    ArgsSize(u64),
    NegateRaState,
    Nop,
    Unknown(u8),
}

/// Encode one instruction; returns the offset (within `w`) of the expression bytes if any.
/// `ptr_enc`: the pointer encoding DW_CFA_set_loc operands are written in (the 'R' encoding of an augmented CIE,
/// DW_EH_PE_absptr otherwise)
pub fn encode_cfi(op: &CfiOp, address_size: u8, ptr_enc: u8, w: &mut W) -> Option<usize> {
    let mut expr_at = None;
    match op {
        CfiOp::AdvanceLoc(d) => {
            w.u8(0x40 | (d & 0x3f));
        }
        CfiOp::AdvanceLoc1(d) => {
            w.u8(0x02).u8(*d);
        }
        CfiOp::AdvanceLoc2(d) => {
            w.u8(0x03).u16(*d);
        }
        CfiOp::AdvanceLoc4(d) => {
            w.u8(0x04).u32(*d);
        }
        CfiOp::SetLoc(a) => {
            w.u8(0x01);
            write_pe(w, ptr_enc, *a, address_size);
        }
        CfiOp::DefCfa(r, o) => {
            w.u8(0x0c).uleb(*r).uleb(*o);
        }
        CfiOp::DefCfaSf(r, o) => {
            w.u8(0x12).uleb(*r).sleb(*o);
        }
        CfiOp::DefCfaRegister(r) => {
            w.u8(0x0d).uleb(*r);
        }
        CfiOp::DefCfaOffset(o) => {
            w.u8(0x0e).uleb(*o);
        }
        CfiOp::DefCfaOffsetSf(o) => {
            w.u8(0x13).sleb(*o);
        }
        CfiOp::DefCfaExpression(b) => {
            w.u8(0x0f).uleb(b.len() as u64);
            expr_at = Some(w.len());
            w.bytes(b);
        }
        CfiOp::Undefined(r) => {
            w.u8(0x07).uleb(*r);
        }
        CfiOp::SameValue(r) => {
            w.u8(0x08).uleb(*r);
        }
        CfiOp::Offset(r, o) => {
            w.u8(0x80 | (r & 0x3f)).uleb(*o);
        }
        CfiOp::OffsetExtended(r, o) => {
            w.u8(0x05).uleb(*r).uleb(*o);
        }
        CfiOp::OffsetExtendedSf(r, o) => {
            w.u8(0x11).uleb(*r).sleb(*o);
        }
        CfiOp::ValOffset(r, o) => {
            w.u8(0x14).uleb(*r).uleb(*o);
        }
        CfiOp::ValOffsetSf(r, o) => {
            w.u8(0x15).uleb(*r).sleb(*o);
        }
        CfiOp::Register(a, b) => {
            w.u8(0x09).uleb(*a).uleb(*b);
        }
        CfiOp::Expression(r, b) => {
            w.u8(0x10).uleb(*r).uleb(b.len() as u64);
            expr_at = Some(w.len());
            w.bytes(b);
        }
        CfiOp::ValExpression(r, b) => {
            w.u8(0x16).uleb(*r).uleb(b.len() as u64);
            expr_at = Some(w.len());
            w.bytes(b);
        }
        CfiOp::Restore(r) => {
            w.u8(0xc0 | (r & 0x3f));
        }
        CfiOp::RestoreExtended(r) => {
            w.u8(0x06).uleb(*r);
        }
        CfiOp::RememberState => {
            w.u8(0x0a);
        }
        CfiOp::RestoreState => {
            w.u8(0x0b);
        }
        CfiOp::ArgsSize(s) => {
            w.u8(0x2e).uleb(*s);
        }
        CfiOp::NegateRaState => {
            w.u8(0x2d);
        }
        CfiOp::Nop => {
            w.u8(0x00);
        }
        CfiOp::Unknown(b) => {
            w.u8(*b);
        }
    }
    expr_at
}

// ---------------------------------------------------------------------------
// Section assembler
// ---------------------------------------------------------------------------

#[derive(Clone, Debug)]
pub struct CieSpec {
    pub version: u8,
    pub format64: bool,
    /// augmentation string (without NUL), e.g. b"zR"
    pub aug: Vec<u8>,
    /// address size written into a v4 CIE (and the size instructions use)
    pub address_size: u8,
    pub segment_size: u8,
    pub code_align: u64,
    pub data_align: i64,
    pub ra_reg: u64,
    pub lsda_enc: u8,
    pub personality: Option<(u8, u64)>, // encoding, encoded raw value
    pub fde_enc: u8,
    pub instrs: Vec<CfiOp>,
    /// extra padding nops at the end
    pub pad: usize,
}

#[derive(Clone, Debug)]
pub struct FdeSpec {
    pub cie: usize,
    pub format64: bool,
    /// raw encoded initial-location value and range value (as written)
    pub initial_raw: u64,
    pub range_raw: u64,
    pub lsda_raw: Option<u64>,
    pub instrs: Vec<CfiOp>,
    pub pad: usize,
}

#[derive(Clone, Debug)]
pub enum Entry {
    Cie(usize),
    Fde(usize),
}

#[derive(Clone, Debug, Default)]
pub struct EntryRecord {
    pub offset: usize,
    /// value of the length field
    pub length: u64,
    pub total_len: usize,
    /// section offset of the first instruction byte
    pub instr_offset: usize,
    pub instr_len: usize,
    /// section offsets of each instruction's expression bytes (if any)
    pub expr_offsets: Vec<Option<usize>>,
    /// section offset at which the FDE's initial-location field is encoded
    pub initial_loc_at: usize,
    pub range_at: usize,
    pub lsda_at: usize,
    pub personality_at: usize,
}

#[derive(Clone, Debug, Default)]
pub struct BuiltFrame {
    pub bytes: Vec<u8>,
    pub cies: Vec<EntryRecord>,
    pub fdes: Vec<EntryRecord>,
    /// order of entries in the section
    pub order: Vec<(bool, usize)>, // (is_cie, index)
}

/// size in bytes of a DW_EH_PE value format (None for LEB)
pub fn pe_size(enc: u8, address_size: u8) -> Option<u8> {
    match enc & 0x0f {
        0x00 => Some(address_size),
        0x02 | 0x0a => Some(2),
        0x03 | 0x0b => Some(4),
        0x04 | 0x0c => Some(8),
        _ => None,
    }
}

pub fn write_pe(w: &mut W, enc: u8, raw: u64, address_size: u8) {
    match enc & 0x0f {
        0x00 => {
            w.uint(raw, address_size);
        }
        0x01 => {
            w.uleb(raw);
        }
        0x09 => {
            w.sleb(raw as i64);
        }
        f => {
            let n = pe_size(f, address_size).unwrap_or(4);
            w.uint(raw, n);
        }
    }
}

/// Interpret a raw encoded value per format (sign extension for signed formats), as a u64 offset.
pub fn pe_value(enc: u8, raw: u64, address_size: u8) -> u64 {
    match enc & 0x0f {
        0x00 => raw & mask(address_size),
        0x01 => raw,
        0x02 => raw & 0xffff,
        0x03 => raw & 0xffff_ffff,
        0x04 => raw,
        0x09 => raw,
        0x0a => raw as u16 as i16 as i64 as u64,
        0x0b => raw as u32 as i32 as i64 as u64,
        0x0c => raw,
        _ => raw,
    }
}

/// Assemble a frame section. `eh`: .eh_frame (CIE id 0, relative CIE pointers, 4-byte CIE pointer even in 64-bit entries).
/// `entries` gives the order; an FDE may precede its CIE. `terminator`: append a zero length at the end.
pub fn build_frame(eh: bool, big: bool, cies: &[CieSpec], fdes: &[FdeSpec], entries: &[Entry], terminator: bool) -> BuiltFrame {
    // two passes: first lay out to learn CIE offsets, then emit with correct pointers
    let mut cie_offsets = vec![0usize; cies.len()];
    let mut out = BuiltFrame::default();
    for pass in 0..2 {
        let mut w = W::new(big);
        out = BuiltFrame::default();
        out.cies = vec![EntryRecord::default(); cies.len()];
        out.fdes = vec![EntryRecord::default(); fdes.len()];
        for e in entries {
            match e {
                Entry::Cie(i) => {
                    let c = &cies[*i];
                    let mut rec = EntryRecord { offset: w.len(), ..Default::default() };
                    if pass == 0 {
                        cie_offsets[*i] = w.len();
                    }
                    let tok = w.begin_length(c.format64);
                    // CIE id
                    if eh {
                        w.u32(0);
                    } else if c.format64 {
                        w.u64(u64::MAX);
                    } else {
                        w.u32(0xffff_ffff);
                    }
                    w.u8(c.version);
                    w.cstr(&c.aug);
                    if !eh && c.version == 4 {
                        w.u8(c.address_size).u8(c.segment_size);
                    }
                    w.uleb(c.code_align).sleb(c.data_align);
                    if c.version == 1 {
                        w.u8(c.ra_reg as u8);
                    } else {
                        w.uleb(c.ra_reg);
                    }
                    if c.aug.first() == Some(&b'z') {
                        let mut a = W::new(big);
                        for ch in &c.aug[1..] {
                            match ch {
                                b'L' => {
                                    a.u8(c.lsda_enc);
                                }
                                b'P' => {
                                    let (enc, raw) = c.personality.unwrap_or((0, 0));
                                    a.u8(enc);
                                    // remember where the pointer is encoded (relative to the data start)
                                    rec.personality_at = a.len();
                                    write_pe(&mut a, enc, raw, c.address_size);
                                }
                                b'R' => {
                                    a.u8(c.fde_enc);
                                }
                                _ => {}
                            }
                        }
                        w.uleb(a.len() as u64);
                        rec.personality_at += w.len();
                        w.bytes(&a.buf);
                    }
                    rec.instr_offset = w.len();
                    for op in &c.instrs {
                        // (a DW_CFA_set_loc among a CIE's initial instructions - no location to set there - is read by
                        // gimli as a plain address; the FDE pointer encoding governs FDE instructions)
                        let at = encode_cfi(op, c.address_size, 0, &mut w);
                        rec.expr_offsets.push(at);
                    }
                    for _ in 0..c.pad {
                        w.u8(0);
                    }
                    rec.instr_len = w.len() - rec.instr_offset;
                    w.end_length(tok);
                    rec.total_len = w.len() - rec.offset;
                    rec.length = (rec.total_len - if c.format64 { 12 } else { 4 }) as u64;
                    out.cies[*i] = rec;
                    out.order.push((true, *i));
                }
                Entry::Fde(i) => {
                    let f = &fdes[*i];
                    let c = &cies[f.cie];
                    let mut rec = EntryRecord { offset: w.len(), ..Default::default() };
                    let tok = w.begin_length(f.format64);
                    let ptr_at = w.len();
                    if eh {
                        w.u32((ptr_at as u64).wrapping_sub(cie_offsets[f.cie] as u64) as u32);
                    } else if f.format64 {
                        w.u64(cie_offsets[f.cie] as u64);
                    } else {
                        w.u32(cie_offsets[f.cie] as u32);
                    }
                    let has_r = c.aug.first() == Some(&b'z') && c.aug.contains(&b'R');
                    rec.initial_loc_at = w.len();
                    if has_r {
                        write_pe(&mut w, c.fde_enc, f.initial_raw, c.address_size);
                        rec.range_at = w.len();
                        write_pe(&mut w, c.fde_enc, f.range_raw, c.address_size);
                    } else {
                        w.uint(f.initial_raw, c.address_size);
                        rec.range_at = w.len();
                        w.uint(f.range_raw, c.address_size);
                    }
                    if !c.aug.is_empty() {
                        let has_l = c.aug.contains(&b'L');
                        let mut a = W::new(big);
                        if has_l {
                            write_pe(&mut a, c.lsda_enc, f.lsda_raw.unwrap_or(0), c.address_size);
                        }
                        if f.pad == 3 && c.aug.first() == Some(&b'z') {
                            // augmentation data a consumer does not know about: the
                            // length field is what delimits it (these bytes would be a
                            // DW_CFA_def_cfa_offset if they were taken for instructions)
                            a.bytes(&[0x0e, 0x10]);
                        }
                        w.uleb(a.len() as u64);
                        rec.lsda_at = w.len();
                        w.bytes(&a.buf);
                    }
                    rec.instr_offset = w.len();
                    for op in &f.instrs {
                        let at = encode_cfi(op, c.address_size, if c.aug.contains(&b'R') { c.fde_enc } else { 0 }, &mut w);
                        rec.expr_offsets.push(at);
                    }
                    for _ in 0..f.pad {
                        w.u8(0);
                    }
                    rec.instr_len = w.len() - rec.instr_offset;
                    w.end_length(tok);
                    rec.total_len = w.len() - rec.offset;
                    rec.length = (rec.total_len - if f.format64 { 12 } else { 4 }) as u64;
                    out.fdes[*i] = rec;
                    out.order.push((false, *i));
                }
            }
        }
        if terminator {
            w.u32(0);
        }
        out.bytes = w.buf;
        let _ = pass;
    }
    out
}

// ---------------------------------------------------------------------------
// State machine
// ---------------------------------------------------------------------------

#[derive(Clone, Debug, PartialEq)]
pub enum MCfa {
    RegOff(u64, i64),
    Expr(usize, usize),
}

#[derive(Clone, Debug, PartialEq)]
pub enum MRule {
    Undefined,
    SameValue,
    Offset(i64),
    ValOffset(i64),
    Register(u64),
    Expression(usize, usize),
    ValExpression(usize, usize),
    Constant(u64),
}

#[derive(Clone, Debug, PartialEq)]
pub struct MRow {
    pub start: u64,
    pub end: u64,
    pub cfa: MCfa,
    pub rules: BTreeMap<u64, MRule>,
    pub args_size: u64,
}

#[derive(Clone, Debug)]
struct St {
    cfa: MCfa,
    rules: BTreeMap<u64, MRule>,
    args_size: u64,
}

#[derive(Clone, Debug, PartialEq)]
pub enum CfiEnd {
    Done,
    /// one of these gimli::Error variant names
    Err(Vec<&'static str>),
    /// address arithmetic beyond 2^64: either a wrapped row or AddressOverflow is acceptable; rows after this are not compared
    Open(&'static str),
}

#[derive(Clone, Debug)]
pub struct CfiRun {
    pub rows: Vec<MRow>,
    pub end: CfiEnd,
    pub max_depth: usize,
    pub max_rules: usize,
    pub initial_rule_count: usize,
    pub used_remember: bool,
    pub restore_with_initial: bool,
    /// the error (if any) happened while running the CIE's initial instructions
    pub failed_in_cie: bool,
}

pub struct CfiParams {
    pub address_size: u8,
    pub code_align: u64,
    pub data_align: i64,
    pub aarch64: bool,
    pub initial_address: u64,
    pub end_address: u64,
    /// capacity of the row stack and of the rule map (usize::MAX = unbounded)
    pub stack_cap: usize,
    pub rules_cap: usize,
    /// whether >=2 initial rules occupy one slot of the row stack (gimli's documented representation)
    pub initial_slot: bool,
}

fn regnum(r: u64) -> Result<u64, CfiEnd> {
    if r > 0xffff {
        Err(CfiEnd::Err(vec!["UnsupportedRegister"]))
    } else {
        Ok(r)
    }
}

/// Run CIE instructions then FDE instructions. `*_exprs[i]` = (section offset, length) of instruction i's expression.
pub fn run_cfi(p: &CfiParams, cie: &[CfiOp], cie_exprs: &[Option<usize>], fde: &[CfiOp], fde_exprs: &[Option<usize>]) -> CfiRun {
    let mut run = CfiRun { rows: Vec::new(), end: CfiEnd::Done, max_depth: 1, max_rules: 0, initial_rule_count: 0, used_remember: false, restore_with_initial: false, failed_in_cie: false };
    let m = mask(p.address_size);
    let mut stack: Vec<St> = vec![St { cfa: MCfa::RegOff(0, 0), rules: BTreeMap::new(), args_size: 0 }];
    let mut initial: Option<BTreeMap<u64, MRule>> = None;
    let mut slot = 0usize;
    let mut start: u64 = 0;

    for phase in 0..2 {
        let (ops, exprs) = if phase == 0 { (cie, cie_exprs) } else { (fde, fde_exprs) };
        if phase == 1 {
            let init = stack.last().unwrap().rules.clone();
            run.initial_rule_count = init.len();
            if init.len() >= 2 && p.initial_slot {
                if stack.len() + 1 > p.stack_cap {
                    run.end = CfiEnd::Err(vec!["StackFull"]);
                    run.failed_in_cie = true;
                    return run;
                }
                slot = 1;
            }
            initial = Some(init);
            start = p.initial_address;
        }
        for (i, op) in ops.iter().enumerate() {
            let expr = |len: usize| -> (usize, usize) { (exprs.get(i).copied().flatten().unwrap_or(0), len) };
            let res: Result<Option<u64>, CfiEnd> = (|| {
                let cur = stack.last_mut().unwrap();
                let set_rule = |cur: &mut St, r: u64, rule: MRule| -> Result<(), CfiEnd> {
                    let r = regnum(r)?;
                    if !cur.rules.contains_key(&r) && cur.rules.len() >= p.rules_cap {
                        return Err(CfiEnd::Err(vec!["TooManyRegisterRules"]));
                    }
                    cur.rules.insert(r, rule);
                    Ok(())
                };
                let fact_u = |o: u64| -> i64 { ((o as i64 as i128).wrapping_mul(p.data_align as i128)) as i64 };
                let fact_s = |o: i64| -> i64 { ((o as i128).wrapping_mul(p.data_align as i128)) as i64 };
                match op {
                    CfiOp::AdvanceLoc(_) | CfiOp::AdvanceLoc1(_) | CfiOp::AdvanceLoc2(_) | CfiOp::AdvanceLoc4(_) => {
                        let d = match op {
                            CfiOp::AdvanceLoc(d) => (*d & 0x3f) as u64,
                            CfiOp::AdvanceLoc1(d) => *d as u64,
                            CfiOp::AdvanceLoc2(d) => *d as u64,
                            CfiOp::AdvanceLoc4(d) => *d as u64,
                            _ => 0,
                        };
                        let prod = d as u128 * p.code_align as u128;
                        if prod > u64::MAX as u128 {
                            return Err(CfiEnd::Open("advance delta x code alignment exceeds 2^64"));
                        }
                        let new = start as u128 + prod;
                        if new > m as u128 {
                            return Err(CfiEnd::Err(vec!["AddressOverflow"]));
                        }
                        return Ok(Some(new as u64));
                    }
                    CfiOp::SetLoc(a) => {
                        let a = *a & m;
                        if a < start {
                            return Err(CfiEnd::Err(vec!["InvalidCfiSetLoc"]));
                        }
                        return Ok(Some(a));
                    }
                    CfiOp::DefCfa(r, o) => cur.cfa = MCfa::RegOff(regnum(*r)?, *o as i64),
                    CfiOp::DefCfaSf(r, o) => cur.cfa = MCfa::RegOff(regnum(*r)?, fact_s(*o)),
                    CfiOp::DefCfaRegister(r) => {
                        let r = regnum(*r)?;
                        match &mut cur.cfa {
                            MCfa::RegOff(reg, _) => *reg = r,
                            _ => return Err(CfiEnd::Err(vec!["CfiInstructionInInvalidContext"])),
                        }
                    }
                    CfiOp::DefCfaOffset(o) => match &mut cur.cfa {
                        MCfa::RegOff(_, off) => *off = *o as i64,
                        _ => return Err(CfiEnd::Err(vec!["CfiInstructionInInvalidContext"])),
                    },
                    CfiOp::DefCfaOffsetSf(o) => match &mut cur.cfa {
                        MCfa::RegOff(_, off) => *off = fact_s(*o),
                        _ => return Err(CfiEnd::Err(vec!["CfiInstructionInInvalidContext"])),
                    },
                    CfiOp::DefCfaExpression(b) => {
                        let (o, l) = expr(b.len());
                        cur.cfa = MCfa::Expr(o, l);
                    }
                    CfiOp::Undefined(r) => set_rule(cur, *r, MRule::Undefined)?,
                    CfiOp::SameValue(r) => set_rule(cur, *r, MRule::SameValue)?,
                    CfiOp::Offset(r, o) => set_rule(cur, (*r & 0x3f) as u64, MRule::Offset(fact_u(*o)))?,
                    CfiOp::OffsetExtended(r, o) => set_rule(cur, *r, MRule::Offset(fact_u(*o)))?,
                    CfiOp::OffsetExtendedSf(r, o) => set_rule(cur, *r, MRule::Offset(fact_s(*o)))?,
                    CfiOp::ValOffset(r, o) => set_rule(cur, *r, MRule::ValOffset(fact_u(*o)))?,
                    CfiOp::ValOffsetSf(r, o) => set_rule(cur, *r, MRule::ValOffset(fact_s(*o)))?,
                    CfiOp::Register(a, b) => {
                        let a = regnum(*a)?;
                        let b = regnum(*b)?;
                        set_rule(cur, a, MRule::Register(b))?
                    }
                    CfiOp::Expression(r, b) => {
                        let r = regnum(*r)?;
                        let (o, l) = expr(b.len());
                        set_rule(cur, r, MRule::Expression(o, l))?
                    }
                    CfiOp::ValExpression(r, b) => {
                        let r = regnum(*r)?;
                        let (o, l) = expr(b.len());
                        set_rule(cur, r, MRule::ValExpression(o, l))?
                    }
                    CfiOp::Restore(_) | CfiOp::RestoreExtended(_) => {
                        let r = match op {
                            CfiOp::Restore(r) => (*r & 0x3f) as u64,
                            CfiOp::RestoreExtended(r) => regnum(*r)?,
                            _ => 0,
                        };
                        match &initial {
                            None => return Err(CfiEnd::Err(vec!["CfiInstructionInInvalidContext"])),
                            Some(init) => match init.get(&r) {
                                Some(rule) => {
                                    if init.len() >= 1 {
                                        run.restore_with_initial = true;
                                    }
                                    set_rule(cur, r, rule.clone())?
                                }
                                None => {
                                    cur.rules.remove(&r);
                                }
                            },
                        }
                    }
                    CfiOp::RememberState => {
                        run.used_remember = true;
                        let c = cur.clone();
                        if stack.len() + slot + 1 > p.stack_cap {
                            return Err(CfiEnd::Err(vec!["StackFull"]));
                        }
                        stack.push(c);
                    }
                    CfiOp::RestoreState => {
                        if stack.len() <= 1 {
                            return Err(CfiEnd::Err(vec!["PopWithEmptyStack"]));
                        }
                        stack.pop();
                    }
                    CfiOp::ArgsSize(s) => cur.args_size = *s,
                    CfiOp::NegateRaState => {
                        if !p.aarch64 {
                            return Err(CfiEnd::Err(vec!["UnknownCallFrameInstruction"]));
                        }
                        let v = match cur.rules.get(&34) {
                            None => 0,
                            Some(MRule::Constant(v)) => *v,
                            Some(_) => return Err(CfiEnd::Err(vec!["CfiInstructionInInvalidContext"])),
                        };
                        set_rule(cur, 34, MRule::Constant(v ^ 1))?
                    }
                    CfiOp::Nop => {}
                    CfiOp::Unknown(_) => return Err(CfiEnd::Err(vec!["UnknownCallFrameInstruction"])),
                }
                Ok(None)
            })();
            run.max_depth = run.max_depth.max(stack.len() + slot);
            run.max_rules = run.max_rules.max(stack.last().unwrap().rules.len());
            match res {
                Err(e) => {
                    run.end = e;
                    run.failed_in_cie = phase == 0;
                    return run;
                }
                Ok(Some(new_start)) => {
                    if phase == 1 {
                        let cur = stack.last().unwrap();
                        run.rows.push(MRow { start, end: new_start, cfa: cur.cfa.clone(), rules: cur.rules.clone(), args_size: cur.args_size });
                    }
                    start = new_start;
                }
                Ok(None) => {}
            }
        }
        if phase == 1 {
            let cur = stack.last().unwrap();
            run.rows.push(MRow { start, end: p.end_address, cfa: cur.cfa.clone(), rules: cur.rules.clone(), args_size: cur.args_size });
        }
    }
    run
}
