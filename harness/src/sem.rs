//! Semantic dumps ("meaning") of DWARF read through gimli::read, used as the metamorphic
//! oracle for conversions (C12, C19) and transparency checks (C18). Form- and layout-
//! independent: references are named by identity markers, strings by content, lists by
//! resolved ranges, expressions by decoded operations with branch targets as operation indices.
#![allow(dead_code)]

use crate::c07::canon_gimli;
use gimli::{EndianSlice, Operation, Reader, RunTimeEndian, Section};

pub type Rdr<'a> = EndianSlice<'a, RunTimeEndian>;

/// How references inside expressions are named.
pub struct Names<'a> {
    pub unit_ref: &'a dyn Fn(usize) -> String,
    pub info_ref: &'a dyn Fn(usize) -> String,
    pub addr_index: &'a dyn Fn(u64) -> String,
}

pub fn plain_names() -> (Box<dyn Fn(usize) -> String>, Box<dyn Fn(usize) -> String>, Box<dyn Fn(u64) -> String>) {
    (Box::new(|o| format!("unit+{:#x}", o)), Box::new(|o| format!("info+{:#x}", o)), Box::new(|i| format!("addrx({})", i)))
}

/// Decoded meaning of an expression: one string per operation.
pub fn expr_meaning(bytes: &[u8], encoding: gimli::Encoding, endian: RunTimeEndian, names: &Names) -> Vec<String> {
    let expr = gimli::Expression(EndianSlice::new(bytes, endian));
    let mut it = expr.clone().operations(encoding);
    let mut starts = Vec::new();
    let mut ops = Vec::new();
    loop {
        let at = it.offset_from(&expr);
        match it.next() {
            Ok(Some(op)) => {
                starts.push(at);
                ops.push(op);
            }
            Ok(None) => break,
            Err(e) => {
                return vec![format!("undecodable({:?}) after {} operations", e, ops.len())];
            }
        }
    }
    starts.push(bytes.len());
    let mut out = Vec::new();
    for (i, op) in ops.iter().enumerate() {
        let base = |b: usize| if b == 0 { "generic".to_string() } else { (names.unit_ref)(b) };
        out.push(match op {
            Operation::Bra { target } | Operation::Skip { target } => {
                let land = starts[i + 1] as i64 + *target as i64;
                let idx = starts.iter().position(|s| *s as i64 == land);
                format!("{}(->{})", if matches!(op, Operation::Bra { .. }) { "Bra" } else { "Skip" }, match idx {
                    Some(k) => format!("op{}", k),
                    None => format!("byte{}", land),
                })
            }
            Operation::Deref { base_type, size, space } => format!("Deref(base={},size={},space={})", base(base_type.0), size, space),
            Operation::RegisterOffset { register, offset, base_type } => format!("RegisterOffset({},{},base={})", register.0, offset, base(base_type.0)),
            Operation::TypedLiteral { base_type, value } => format!("TypedLiteral(base={},{:02x?})", base(base_type.0), value.slice()),
            Operation::Convert { base_type } => format!("Convert({})", base(base_type.0)),
            Operation::Reinterpret { base_type } => format!("Reinterpret({})", base(base_type.0)),
            Operation::ParameterRef { offset } => format!("ParameterRef({})", (names.unit_ref)(offset.0)),
            Operation::Call { offset: gimli::DieReference::UnitRef(o) } => format!("Call({})", (names.unit_ref)(o.0)),
            Operation::Call { offset: gimli::DieReference::DebugInfoRef(o) } => format!("Call({})", (names.info_ref)(o.0)),
            Operation::VariableValue { offset } => format!("VariableValue({})", (names.info_ref)(offset.0)),
            Operation::ImplicitPointer { value, byte_offset } => format!("ImplicitPointer({},{})", (names.info_ref)(value.0), byte_offset),
            Operation::EntryValue { expression } => format!("EntryValue[{}]", expr_meaning(expression.slice(), encoding, endian, names).join("; ")),
            Operation::AddressIndex { index } => format!("Address({})", (names.addr_index)(index.0 as u64)),
            Operation::ConstantIndex { index } => format!("UnsignedConstant({})", (names.addr_index)(index.0 as u64)),
            Operation::Address { address } => format!("Address({})", address),
            Operation::UnsignedConstant { value } => format!("UnsignedConstant({})", value),
            other => canon_gimli(other),
        });
    }
    out
}

// ---------------------------------------------------------------------------
// call frame information
// ---------------------------------------------------------------------------

#[derive(Clone, Debug, PartialEq)]
pub struct RowDump {
    pub start: u64,
    pub end: u64,
    pub cfa: String,
    pub rules: Vec<(u16, String)>,
    pub args_size: u64,
}

#[derive(Clone, Debug, PartialEq)]
pub struct FdeDump {
    pub initial: u64,
    pub len: u64,
    pub lsda: Option<String>,
    pub personality: Option<String>,
    pub signal: bool,
    pub ra: u16,
    /// normalised rows (empty rows dropped, equal neighbours merged), or the error that stops evaluation
    pub rows: Result<Vec<RowDump>, String>,
}

fn ptr(p: gimli::Pointer) -> String {
    match p {
        gimli::Pointer::Direct(v) => format!("direct:{:#x}", v),
        gimli::Pointer::Indirect(v) => format!("indirect:{:#x}", v),
    }
}

fn normalise(rows: Vec<RowDump>, fde_end: Option<u64>) -> Vec<RowDump> {
    let mut out: Vec<RowDump> = Vec::new();
    for mut r in rows {
        // only addresses inside the FDE's range are described by it
        if let Some(end) = fde_end {
            r.end = r.end.min(end);
        }
        // rows beyond the end of the FDE's range (an advance past the end) cover no address
        if r.start >= r.end {
            continue;
        }
        if let Some(last) = out.last_mut() {
            if last.end == r.start && last.cfa == r.cfa && last.rules == r.rules && last.args_size == r.args_size {
                last.end = r.end;
                continue;
            }
        }
        out.push(r);
    }
    out
}

pub fn errname<E: std::fmt::Debug>(e: &E) -> String {
    let s = format!("{:?}", e);
    match s.find('(') {
        Some(i) => s[..i].to_string(),
        None => s,
    }
}

/// Dump every FDE of a frame section (in section order). Err = the section's entry list itself does not parse.
pub fn frame_dump<'a, S>(section: &S, bases: &gimli::BaseAddresses, endian: RunTimeEndian) -> Result<Vec<FdeDump>, String>
where
    S: gimli::UnwindSection<Rdr<'a>>,
    S::Offset: gimli::UnwindOffset<usize>,
{
    let (u, i, a) = plain_names();
    let names = Names { unit_ref: &*u, info_ref: &*i, addr_index: &*a };
    let mut out = Vec::new();
    let mut entries = section.entries(bases);
    let mut ctx = Box::new(gimli::UnwindContext::new());
    loop {
        let e = match entries.next() {
            Ok(Some(e)) => e,
            Ok(None) => break,
            Err(e) => return Err(format!("entries:{}", errname(&e))),
        };
        let gimli::CieOrFde::Fde(partial) = e else { continue };
        let fde = match partial.parse(S::cie_from_offset) {
            Ok(f) => f,
            Err(e) => return Err(format!("fde:{}", errname(&e))),
        };
        let cie = fde.cie();
        let encoding = cie.encoding();
        let exprm = |ue: &gimli::UnwindExpression<usize>| -> String {
            match ue.get(section) {
                Ok(ex) => expr_meaning(ex.0.slice(), encoding, endian, &names).join("; "),
                Err(e) => format!("unreadable({})", errname(&e)),
            }
        };
        let rows = (|| -> Result<Vec<RowDump>, String> {
            let mut rows = Vec::new();
            let mut table = fde.rows(section, bases, &mut ctx).map_err(|e| errname(&e))?;
            loop {
                match table.next_row() {
                    Ok(Some(row)) => {
                        let cfa = match row.cfa() {
                            gimli::CfaRule::RegisterAndOffset { register, offset } => format!("r{}{:+}", register.0, offset),
                            gimli::CfaRule::Expression(e) => format!("expr[{}]", exprm(e)),
                        };
                        let mut rules: Vec<(u16, String)> = row
                            .registers()
                            .map(|(r, rule)| {
                                (
                                    r.0,
                                    match rule {
                                        gimli::RegisterRule::Expression(e) => format!("at-expr[{}]", exprm(e)),
                                        gimli::RegisterRule::ValExpression(e) => format!("val-expr[{}]", exprm(e)),
                                        other => format!("{:?}", other),
                                    },
                                )
                            })
                            .collect();
                        rules.sort();
                        rows.push(RowDump { start: row.start_address(), end: row.end_address(), cfa, rules, args_size: row.saved_args_size() });
                        if rows.len() > 5000 {
                            return Err("too-many-rows".into());
                        }
                    }
                    Ok(None) => return Ok(normalise(rows, fde.initial_address().checked_add(fde.len()))),
                    Err(e) => return Err(errname(&e)),
                }
            }
        })();
        out.push(FdeDump {
            initial: fde.initial_address(),
            len: fde.len(),
            lsda: fde.lsda().map(ptr),
            personality: cie.personality().map(ptr),
            signal: cie.is_signal_trampoline(),
            ra: cie.return_address_register().0,
            rows,
        });
    }
    Ok(out)
}

// ---------------------------------------------------------------------------
// units: forest, attribute meanings, line programs, lists
// ---------------------------------------------------------------------------

pub const AT_MARKER: u16 = 0x3fff;

#[derive(Clone, Debug, PartialEq)]
pub struct LineDump {
    /// resolved file table entries, sorted and de-duplicated
    pub files: Vec<String>,
    pub rows: Vec<String>,
    pub end: Result<(), String>,
}

#[derive(Clone, Debug, PartialEq)]
pub struct EntryDump {
    pub depth: isize,
    pub tag: u16,
    pub marker: Option<u64>,
    pub attrs: Vec<(u16, String)>,
}

#[derive(Clone, Debug, PartialEq)]
pub struct UnitDump {
    pub version: u16,
    pub format64: bool,
    pub address_size: u8,
    pub entries: Vec<EntryDump>,
    pub line: Option<LineDump>,
}

#[derive(Clone, Debug, PartialEq)]
pub struct DwarfDump {
    pub units: Vec<UnitDump>,
}

/// Attributes the converter documents as not carried over (layout metadata).
pub fn is_metadata_attr(name: u16) -> bool {
    matches!(name, 0x01 | 0x72 | 0x73 | 0x74 | 0x8c | 0x76 | 0x2130 | 0x2131 | 0x2132 | 0x2133 | 0x2137)
}

fn bytes_str(b: &[u8]) -> String {
    if b.iter().all(|c| (0x20..0x7f).contains(c)) {
        format!("\"{}\"", String::from_utf8_lossy(b))
    } else {
        format!("{:02x?}", b)
    }
}

fn file_name<'a>(dwarf: &gimli::Dwarf<Rdr<'a>>, unit: &gimli::Unit<Rdr<'a>>, header: &gimli::LineProgramHeader<Rdr<'a>>, index: u64) -> String {
    let Some(f) = header.file(index) else { return format!("file#{}(no such entry)", index) };
    let name = match dwarf.attr_string(unit, f.path_name()) {
        Ok(s) => bytes_str(s.slice()),
        Err(e) => format!("unresolvable({})", errname(&e)),
    };
    let dir = match f.directory(header) {
        Some(d) => match dwarf.attr_string(unit, d) {
            Ok(s) => bytes_str(s.slice()),
            Err(e) => format!("unresolvable({})", errname(&e)),
        },
        None => format!("dir#{}(no such entry)", f.directory_index()),
    };
    let mut s = format!("{}|{}", dir, name);
    if header.file_has_timestamp() {
        s += &format!(" t={}", f.timestamp());
    }
    if header.file_has_size() {
        s += &format!(" size={}", f.size());
    }
    if header.file_has_md5() {
        s += &format!(" md5={:02x?}", f.md5());
    }
    if header.file_has_source() {
        if let Some(src) = f.source() {
            s += &match dwarf.attr_string(unit, src) {
                Ok(x) => format!(" source={}", bytes_str(x.slice())),
                Err(e) => format!(" source=unresolvable({})", errname(&e)),
            };
        }
    }
    s
}

pub fn line_dump<'a>(dwarf: &gimli::Dwarf<Rdr<'a>>, unit: &gimli::Unit<Rdr<'a>>) -> Option<LineDump> {
    let program = unit.line_program.clone()?;
    let header = program.header().clone();
    let mut rows = Vec::new();
    let mut it = program.rows();
    let end;
    loop {
        match it.next_row() {
            Ok(Some((h, r))) => {
                let file = if r.end_sequence() { String::new() } else { file_name(dwarf, unit, h, r.file_index()) };
                rows.push(if r.end_sequence() {
                    format!("{:#x}.{} end_sequence", r.address(), r.op_index())
                } else {
                    format!(
                        "{:#x}.{} {} line {:?} col {:?} stmt {} bb {} pe {} eb {} isa {} disc {}",
                        r.address(),
                        r.op_index(),
                        file,
                        r.line().map(|l| l.get()),
                        match r.column() {
                            gimli::ColumnType::LeftEdge => 0,
                            gimli::ColumnType::Column(c) => c.get(),
                        },
                        r.is_stmt(),
                        r.basic_block(),
                        r.prologue_end(),
                        r.epilogue_begin(),
                        r.isa(),
                        r.discriminator()
                    )
                });
                if rows.len() > 20000 {
                    end = Err("too-many-rows".to_string());
                    break;
                }
            }
            Ok(None) => {
                end = Ok(());
                break;
            }
            Err(e) => {
                end = Err(errname(&e));
                break;
            }
        }
    }
    // the file table after the program has run (DW_LNE_define_file adds entries)
    let header = it.header().clone();
    let mut files: Vec<String> = Vec::new();
    let first = if header.version() >= 5 { 0 } else { 1 };
    for i in 0..header.file_names().len() as u64 {
        files.push(file_name(dwarf, unit, &header, i + first));
    }
    files.sort();
    files.dedup();
    Some(LineDump { files, rows, end })
}

/// Dump the whole .debug_info forest with attribute meanings.
pub fn dwarf_dump<'a>(dwarf: &gimli::Dwarf<Rdr<'a>>) -> Result<DwarfDump, String> {
    dwarf_dump_with(dwarf, &|_| {})
}

/// `prepare` is applied to every unit right after `Dwarf::unit` (split units: copy the skeleton's relocated attributes).
pub fn dwarf_dump_with<'a>(dwarf: &gimli::Dwarf<Rdr<'a>>, prepare: &dyn Fn(&mut gimli::Unit<Rdr<'a>>)) -> Result<DwarfDump, String> {
    // pass 1: identity of every entry by section offset
    let mut by_sec: std::collections::BTreeMap<usize, String> = std::collections::BTreeMap::new();
    let mut units = Vec::new();
    let mut it = dwarf.units();
    loop {
        match it.next() {
            Ok(Some(h)) => {
                let mut unit = dwarf.unit(h).map_err(|e| format!("unit:{}", errname(&e)))?;
                prepare(&mut unit);
                units.push(unit);
            }
            Ok(None) => break,
            Err(e) => return Err(format!("units:{}", errname(&e))),
        }
    }
    for (ui, unit) in units.iter().enumerate() {
        let base = unit.header.offset().to_debug_info_offset(&unit.header).map(|o| o.0).unwrap_or(0);
        let mut cur = unit.entries();
        // (offset, depth, tag, marker) in section order
        let mut seen: Vec<(usize, isize, u16, Option<u64>)> = Vec::new();
        loop {
            match cur.next_dfs() {
                Ok(Some(e)) => seen.push((e.offset().0, e.depth(), e.tag().0, e.attr_value(gimli::DwAt(AT_MARKER)).and_then(|v| v.udata_value()))),
                Ok(None) => break,
                Err(e) => return Err(format!("entries:{}", errname(&e))),
            }
        }
        // unmarked entries are named by their position after the documented base-types-first reordering, so that
        // the name of an entry does not depend on where the writer put the base types
        let mut order: Vec<usize> = Vec::new();
        if !seen.is_empty() {
            let root_depth = seen[0].1;
            let mut subtrees: Vec<Vec<usize>> = Vec::new();
            for i in 1..seen.len() {
                if seen[i].1 == root_depth + 1 || subtrees.is_empty() {
                    subtrees.push(vec![i]);
                } else {
                    subtrees.last_mut().unwrap().push(i);
                }
            }
            order.push(0);
            for t in subtrees.iter().filter(|t| seen[t[0]].2 == 0x24) {
                order.extend(t);
            }
            for t in subtrees.iter().filter(|t| seen[t[0]].2 != 0x24) {
                order.extend(t);
            }
        }
        for (k, i) in order.iter().enumerate() {
            let (off, _, _, marker) = seen[*i];
            let name = match marker {
                Some(m) => format!("M{}", m),
                None => format!("unit{}#{}", ui, k),
            };
            by_sec.insert(base + off, name);
        }
    }
    let endian = dwarf.debug_info.reader().endian();
    let mut out = Vec::new();
    for unit in units.iter() {
        let base = unit.header.offset().to_debug_info_offset(&unit.header).map(|o| o.0).unwrap_or(0);
        let uref = |o: usize| by_sec.get(&(base + o)).cloned().unwrap_or_else(|| format!("dangling(unit+{:#x})", o));
        let iref = |o: usize| by_sec.get(&o).cloned().unwrap_or_else(|| format!("dangling(info+{:#x})", o));
        let aidx = |i: u64| match dwarf.address(unit, gimli::DebugAddrIndex(i as usize)) {
            Ok(a) => format!("{}", a),
            Err(e) => format!("unresolvable({})", errname(&e)),
        };
        let names = Names { unit_ref: &uref, info_ref: &iref, addr_index: &aidx };
        let encoding = unit.encoding();
        // a line program without rows and files says nothing: treated like an absent one
        let mut line = line_dump(dwarf, unit);
        let mut entries = Vec::new();
        let mut file_used = false;
        let mut cur = unit.entries();
        while let Some(e) = cur.next_dfs().map_err(|e| format!("entries:{}", errname(&e)))? {
            let mut attrs = Vec::new();
            let mut marker = None;
            for a in e.attrs() {
                let name = a.name().0;
                if name == AT_MARKER {
                    marker = a.value().udata_value();
                    continue;
                }
                if is_metadata_attr(name) {
                    continue;
                }
                let m = attr_meaning(dwarf, unit, a, &names, encoding, endian);
                if m.starts_with("file:") && m != "file:none" {
                    file_used = true;
                }
                attrs.push((name, m));
            }
            entries.push(EntryDump { depth: e.depth(), tag: e.tag().0, marker, attrs });
        }
        // a line program without rows whose file table no entry refers to says nothing: treated like an absent one
        if matches!(&line, Some(l) if l.rows.is_empty() && l.end.is_ok()) && !file_used {
            line = None;
            if let Some(root) = entries.first_mut() {
                root.attrs.retain(|a| a.0 != 0x10);
            }
        }
        // the writer documents that base types among the root's children are emitted first: compare modulo that
        let entries = base_types_first(entries);
        out.push(UnitDump { version: encoding.version, format64: encoding.format == gimli::Format::Dwarf64, address_size: encoding.address_size, entries, line });
    }
    Ok(DwarfDump { units: out })
}

fn attr_meaning<'a>(dwarf: &gimli::Dwarf<Rdr<'a>>, unit: &gimli::Unit<Rdr<'a>>, attr: &gimli::Attribute<Rdr<'a>>, names: &Names, encoding: gimli::Encoding, endian: RunTimeEndian) -> String {
    use gimli::AttributeValue as A;
    let name = attr.name().0;
    let num = |v: u64| format!("u:{}", v);
    let v = attr.value();
    match v {
        A::Addr(a) => format!("addr:{}", a),
        A::DebugAddrIndex(i) => match dwarf.address(unit, i) {
            Ok(a) => format!("addr:{}", a),
            Err(e) => format!("addr:unresolvable({})", errname(&e)),
        },
        A::Block(b) => format!("block:{:02x?}", b.slice()),
        A::Data1(x) => num(x as u64),
        A::Data2(x) => num(x as u64),
        A::Data4(x) => num(x as u64),
        A::Data8(x) => num(x),
        A::Data16(x) => format!("u128:{}", x),
        A::Udata(x) => num(x),
        A::Sdata(x) => {
            if x >= 0 {
                num(x as u64)
            } else {
                format!("s:{}", x)
            }
        }
        A::Exprloc(e) => format!("expr[{}]", expr_meaning(e.0.slice(), encoding, endian, names).join("; ")),
        A::Flag(b) => format!("flag:{}", b),
        A::UnitRef(o) => format!("ref->{}", (names.unit_ref)(o.0)),
        A::DebugInfoRef(o) => format!("ref->{}", (names.info_ref)(o.0)),
        A::DebugInfoRefSup(o) => format!("refsup:{}", o.0),
        A::DebugLineRef(_) => "lineptr".to_string(),
        A::LocationListsRef(_) | A::DebugLocListsIndex(_) => match dwarf.attr_locations(unit, v) {
            Ok(Some(mut it)) => {
                let mut parts = Vec::new();
                loop {
                    match it.next() {
                        Ok(Some(l)) => parts.push(format!("[{:#x},{:#x}) {}", l.range.begin, l.range.end, expr_meaning(l.data.0.slice(), encoding, endian, names).join("; "))),
                        Ok(None) => break,
                        Err(e) => {
                            parts.push(format!("error({})", errname(&e)));
                            break;
                        }
                    }
                    if parts.len() > 2000 {
                        break;
                    }
                }
                format!("loclist{{{}}}", parts.join(" | "))
            }
            Ok(None) => "loclist:none".to_string(),
            Err(e) => format!("loclist:unresolvable({})", errname(&e)),
        },
        A::RangeListsRef(_) | A::DebugRngListsIndex(_) => match dwarf.attr_ranges(unit, v) {
            Ok(Some(mut it)) => {
                let mut parts = Vec::new();
                loop {
                    match it.next() {
                        Ok(Some(r)) => parts.push(format!("[{:#x},{:#x})", r.begin, r.end)),
                        Ok(None) => break,
                        Err(e) => {
                            parts.push(format!("error({})", errname(&e)));
                            break;
                        }
                    }
                    if parts.len() > 2000 {
                        break;
                    }
                }
                format!("rnglist{{{}}}", parts.join(" "))
            }
            Ok(None) => "rnglist:none".to_string(),
            Err(e) => format!("rnglist:unresolvable({})", errname(&e)),
        },
        A::DebugTypesRef(s) => format!("sig:{}", s.0),
        A::String(_) | A::DebugStrRef(_) | A::DebugLineStrRef(_) | A::DebugStrOffsetsIndex(_) => match dwarf.attr_string(unit, v) {
            Ok(s) => format!("str:{}", bytes_str(s.slice())),
            Err(e) => format!("str:unresolvable({})", errname(&e)),
        },
        A::DebugStrRefSup(o) => format!("strsup:{}", o.0),
        A::Encoding(x) => num(x.0 as u64),
        A::DecimalSign(x) => num(x.0 as u64),
        A::Endianity(x) => num(x.0 as u64),
        A::Accessibility(x) => num(x.0 as u64),
        A::Visibility(x) => num(x.0 as u64),
        A::Virtuality(x) => num(x.0 as u64),
        A::Language(x) => num(x.0 as u64),
        A::AddressClass(x) => num(x.0),
        A::IdentifierCase(x) => num(x.0 as u64),
        A::CallingConvention(x) => num(x.0 as u64),
        A::Inline(x) => num(x.0 as u64),
        A::Ordering(x) => num(x.0 as u64),
        A::FileIndex(i) => {
            if name == 0x3a || name == 0x58 {
                match unit.line_program.as_ref() {
                    Some(lp) if !(i == 0 && encoding.version <= 4) => format!("file:{}", file_name(dwarf, unit, lp.header(), i)),
                    _ if i == 0 => "file:none".to_string(),
                    _ => format!("file:#{}(no line program)", i),
                }
            } else {
                num(i)
            }
        }
        A::SecOffset(o) => format!("secoff:{}", o),
        A::DebugMacinfoRef(o) => format!("secoff:{}", o.0),
        A::DebugMacroRef(o) => format!("secoff:{}", o.0),
        A::DwoId(x) => num(x.0),
        other => format!("other:{:?}", crate::dieasm::canon_av(&other)),
    }
}

/// First difference between two dumps: (signature suffix, detail).
pub fn diff_dumps(a: &DwarfDump, b: &DwarfDump) -> Option<(String, String)> {
    if a.units.len() != b.units.len() {
        return Some(("unit-count".into(), format!("{} units before, {} after", a.units.len(), b.units.len())));
    }
    for (ui, (x, y)) in a.units.iter().zip(b.units.iter()).enumerate() {
        if (x.version, x.format64, x.address_size) != (y.version, y.format64, y.address_size) {
            return Some(("unit-encoding".into(), format!("unit {}: {:?} vs {:?}", ui, (x.version, x.format64, x.address_size), (y.version, y.format64, y.address_size))));
        }
        if x.entries.len() != y.entries.len() {
            return Some(("entry-count".into(), format!("unit {}: {} entries before, {} after", ui, x.entries.len(), y.entries.len())));
        }
        for (k, (p, q)) in x.entries.iter().zip(y.entries.iter()).enumerate() {
            if (p.depth, p.tag, p.marker) != (q.depth, q.tag, q.marker) {
                return Some(("forest".into(), format!("unit {} entry #{}: depth/tag/identity {:?} before, {:?} after", ui, k, (p.depth, p.tag, p.marker), (q.depth, q.tag, q.marker))));
            }
            if p.attrs != q.attrs {
                for (s, t) in p.attrs.iter().zip(q.attrs.iter()) {
                    if s != t {
                        return Some(("attribute".into(), format!("unit {} entry #{} (tag {:#x}): attribute {:#x} = {} before, {:#x} = {} after", ui, k, p.tag, s.0, s.1, t.0, t.1)));
                    }
                }
                return Some(("attribute-count".into(), format!("unit {} entry #{}: attributes {:x?} before, {:x?} after", ui, k, p.attrs.iter().map(|a| a.0).collect::<Vec<_>>(), q.attrs.iter().map(|a| a.0).collect::<Vec<_>>())));
            }
        }
        match (&x.line, &y.line) {
            (None, None) => {}
            (Some(l), Some(m)) => {
                if l.end != m.end {
                    return Some(("line-end".into(), format!("unit {}: rows end with {:?} before, {:?} after", ui, l.end, m.end)));
                }
                for (k, (r, s)) in l.rows.iter().zip(m.rows.iter()).enumerate() {
                    if r != s {
                        return Some(("line-row".into(), format!("unit {} row #{}: before `{}` after `{}`", ui, k, r, s)));
                    }
                }
                if l.rows.len() != m.rows.len() {
                    return Some(("line-row-count".into(), format!("unit {}: {} rows before, {} after; first unmatched `{}`", ui, l.rows.len(), m.rows.len(), l.rows.get(m.rows.len()).or(m.rows.get(l.rows.len())).cloned().unwrap_or_default())));
                }
                if l.files != m.files {
                    return Some(("line-files".into(), format!("unit {}: file table {:?} before, {:?} after", ui, l.files, m.files)));
                }
            }
            (l, m) => return Some(("line-presence".into(), format!("unit {}: line program {} before, {} after", ui, l.is_some(), m.is_some()))),
        }
    }
    None
}

/// Stable partition of the root's child subtrees: DW_TAG_base_type subtrees first.
pub fn base_types_first(entries: Vec<EntryDump>) -> Vec<EntryDump> {
    if entries.is_empty() {
        return entries;
    }
    let root = entries[0].clone();
    let mut subtrees: Vec<Vec<EntryDump>> = Vec::new();
    for e in entries.into_iter().skip(1) {
        if e.depth == root.depth + 1 || subtrees.is_empty() {
            subtrees.push(vec![e]);
        } else {
            subtrees.last_mut().unwrap().push(e);
        }
    }
    let (bt, other): (Vec<Vec<EntryDump>>, Vec<Vec<EntryDump>>) = subtrees.into_iter().partition(|t| t[0].tag == 0x24);
    let mut out = vec![root];
    for t in bt.into_iter().chain(other) {
        out.extend(t);
    }
    out
}
