//! Semantic dumps ("meaning") of DWARF read through gimli::read, used as the metamorphic
//! oracle for conversions (C12, C19) and transparency checks (C18). Form- and layout-
//! independent: references are named by identity markers, strings by content, lists by
//! resolved ranges, expressions by decoded operations with branch targets as operation indices.
#![allow(dead_code)]

use crate::c07::canon_gimli;
use gimli::{EndianSlice, Operation, RunTimeEndian};

pub type Rdr<'a> = EndianSlice<'a, RunTimeEndian>;

/// How references inside expressions are named.
pub struct Names<'a> {
    pub unit_ref: &'a dyn Fn(usize) -> String,
    pub info_ref: &'a dyn Fn(usize) -> String,
    pub addr_index: &'a dyn Fn(u64) -> String,
}

pub fn plain_names() -> (Box<dyn Fn(usize) -> String>, Box<dyn Fn(usize) -> String>, Box<dyn Fn(u64) -> String>) {
    (Box::new(|o| format!("unit+{:#x}", o)), Box::new(|o| format!("info+{:#x}", o)), Box::new(|i| format!("addrx({})", i)))
}

/// Decoded meaning of an expression: one string per operation.
pub fn expr_meaning(bytes: &[u8], encoding: gimli::Encoding, endian: RunTimeEndian, names: &Names) -> Vec<String> {
    let expr = gimli::Expression(EndianSlice::new(bytes, endian));
    let mut it = expr.clone().operations(encoding);
    let mut starts = Vec::new();
    let mut ops = Vec::new();
    loop {
        let at = it.offset_from(&expr);
        match it.next() {
            Ok(Some(op)) => {
                starts.push(at);
                ops.push(op);
            }
            Ok(None) => break,
            Err(e) => {
                return vec![format!("undecodable({:?}) after {} operations", e, ops.len())];
            }
        }
    }
    starts.push(bytes.len());
    let mut out = Vec::new();
    for (i, op) in ops.iter().enumerate() {
        let base = |b: usize| if b == 0 { "generic".to_string() } else { (names.unit_ref)(b) };
        out.push(match op {
            Operation::Bra { target } | Operation::Skip { target } => {
                let land = starts[i + 1] as i64 + *target as i64;
                let idx = starts.iter().position(|s| *s as i64 == land);
                format!("{}(->{})", if matches!(op, Operation::Bra { .. }) { "Bra" } else { "Skip" }, match idx {
                    Some(k) => format!("op{}", k),
                    None => format!("byte{}", land),
                })
            }
            Operation::Deref { base_type, size, space } => format!("Deref(base={},size={},space={})", base(base_type.0), size, space),
            Operation::RegisterOffset { register, offset, base_type } => format!("RegisterOffset({},{},base={})", register.0, offset, base(base_type.0)),
            Operation::TypedLiteral { base_type, value } => format!("TypedLiteral(base={},{:02x?})", base(base_type.0), value.slice()),
            Operation::Convert { base_type } => format!("Convert({})", base(base_type.0)),
            Operation::Reinterpret { base_type } => format!("Reinterpret({})", base(base_type.0)),
            Operation::ParameterRef { offset } => format!("ParameterRef({})", (names.unit_ref)(offset.0)),
            Operation::Call { offset: gimli::DieReference::UnitRef(o) } => format!("Call({})", (names.unit_ref)(o.0)),
            Operation::Call { offset: gimli::DieReference::DebugInfoRef(o) } => format!("Call({})", (names.info_ref)(o.0)),
            Operation::VariableValue { offset } => format!("VariableValue({})", (names.info_ref)(offset.0)),
            Operation::ImplicitPointer { value, byte_offset } => format!("ImplicitPointer({},{})", (names.info_ref)(value.0), byte_offset),
            Operation::EntryValue { expression } => format!("EntryValue[{}]", expr_meaning(expression.slice(), encoding, endian, names).join("; ")),
            Operation::AddressIndex { index } => format!("Address({})", (names.addr_index)(index.0 as u64)),
            Operation::ConstantIndex { index } => format!("UnsignedConstant({})", (names.addr_index)(index.0 as u64)),
            Operation::Address { address } => format!("Address({})", address),
            Operation::UnsignedConstant { value } => format!("UnsignedConstant({})", value),
            other => canon_gimli(other),
        });
    }
    out
}

// ---------------------------------------------------------------------------
// call frame information
// ---------------------------------------------------------------------------

#[derive(Clone, Debug, PartialEq)]
pub struct RowDump {
    pub start: u64,
    pub end: u64,
    pub cfa: String,
    pub rules: Vec<(u16, String)>,
    pub args_size: u64,
}

#[derive(Clone, Debug, PartialEq)]
pub struct FdeDump {
    pub initial: u64,
    pub len: u64,
    pub lsda: Option<String>,
    pub personality: Option<String>,
    pub signal: bool,
    pub ra: u16,
    /// normalised rows (empty rows dropped, equal neighbours merged), or the error that stops evaluation
    pub rows: Result<Vec<RowDump>, String>,
}

fn ptr(p: gimli::Pointer) -> String {
    match p {
        gimli::Pointer::Direct(v) => format!("direct:{:#x}", v),
        gimli::Pointer::Indirect(v) => format!("indirect:{:#x}", v),
    }
}

fn normalise(rows: Vec<RowDump>, fde_end: Option<u64>) -> Vec<RowDump> {
    let mut out: Vec<RowDump> = Vec::new();
    for mut r in rows {
        // only addresses inside the FDE's range are described by it
        if let Some(end) = fde_end {
            r.end = r.end.min(end);
        }
        // rows beyond the end of the FDE's range (an advance past the end) cover no address
        if r.start >= r.end {
            continue;
        }
        if let Some(last) = out.last_mut() {
            if last.end == r.start && last.cfa == r.cfa && last.rules == r.rules && last.args_size == r.args_size {
                last.end = r.end;
                continue;
            }
        }
        out.push(r);
    }
    out
}

pub fn errname<E: std::fmt::Debug>(e: &E) -> String {
    let s = format!("{:?}", e);
    match s.find('(') {
        Some(i) => s[..i].to_string(),
        None => s,
    }
}

/// Dump every FDE of a frame section (in section order). Err = the section's entry list itself does not parse.
pub fn frame_dump<'a, S>(section: &S, bases: &gimli::BaseAddresses, endian: RunTimeEndian) -> Result<Vec<FdeDump>, String>
where
    S: gimli::UnwindSection<Rdr<'a>>,
    S::Offset: gimli::UnwindOffset<usize>,
{
    let (u, i, a) = plain_names();
    let names = Names { unit_ref: &*u, info_ref: &*i, addr_index: &*a };
    let mut out = Vec::new();
    let mut entries = section.entries(bases);
    let mut ctx = Box::new(gimli::UnwindContext::new());
    loop {
        let e = match entries.next() {
            Ok(Some(e)) => e,
            Ok(None) => break,
            Err(e) => return Err(format!("entries:{}", errname(&e))),
        };
        let gimli::CieOrFde::Fde(partial) = e else { continue };
        let fde = match partial.parse(S::cie_from_offset) {
            Ok(f) => f,
            Err(e) => return Err(format!("fde:{}", errname(&e))),
        };
        let cie = fde.cie();
        let encoding = cie.encoding();
        let exprm = |ue: &gimli::UnwindExpression<usize>| -> String {
            match ue.get(section) {
                Ok(ex) => expr_meaning(ex.0.slice(), encoding, endian, &names).join("; "),
                Err(e) => format!("unreadable({})", errname(&e)),
            }
        };
        let rows = (|| -> Result<Vec<RowDump>, String> {
            let mut rows = Vec::new();
            let mut table = fde.rows(section, bases, &mut ctx).map_err(|e| errname(&e))?;
            loop {
                match table.next_row() {
                    Ok(Some(row)) => {
                        let cfa = match row.cfa() {
                            gimli::CfaRule::RegisterAndOffset { register, offset } => format!("r{}{:+}", register.0, offset),
                            gimli::CfaRule::Expression(e) => format!("expr[{}]", exprm(e)),
                        };
                        let mut rules: Vec<(u16, String)> = row
                            .registers()
                            .map(|(r, rule)| {
                                (
                                    r.0,
                                    match rule {
                                        gimli::RegisterRule::Expression(e) => format!("at-expr[{}]", exprm(e)),
                                        gimli::RegisterRule::ValExpression(e) => format!("val-expr[{}]", exprm(e)),
                                        other => format!("{:?}", other),
                                    },
                                )
                            })
                            .collect();
                        rules.sort();
                        rows.push(RowDump { start: row.start_address(), end: row.end_address(), cfa, rules, args_size: row.saved_args_size() });
                        if rows.len() > 5000 {
                            return Err("too-many-rows".into());
                        }
                    }
                    Ok(None) => return Ok(normalise(rows, fde.initial_address().checked_add(fde.len()))),
                    Err(e) => return Err(errname(&e)),
                }
            }
        })();
        out.push(FdeDump {
            initial: fde.initial_address(),
            len: fde.len(),
            lsda: fde.lsda().map(ptr),
            personality: cie.personality().map(ptr),
            signal: cie.is_signal_trampoline(),
            ra: cie.return_address_register().0,
            rows,
        });
    }
    Ok(out)
}
