//! Model of DWARF units for the *writing* side (C11, C15, C16, C18): a plain-data
//! description of what is requested from gimli::write, a builder that issues the
//! requests through the public API, and a checker that reads the output back
//! with gimli::read and compares every entry and attribute **by meaning** with
//! the model (references by target identity, strings by content, lists by
//! resolved ranges, expressions by decoded operations).
#![allow(dead_code)]

use crate::c07::{canon_gimli, canon_model};
use crate::c08::{resolve, Resolved, LE};
use crate::core::*;
use crate::enc::{mask, Cfg};
use crate::exprvm::MOp;
use crate::{ensure, ensure_eq, fail};
use gimli::write as w;
use gimli::{EndianSlice, RunTimeEndian};
use std::collections::BTreeMap;

type Rdr<'a> = EndianSlice<'a, RunTimeEndian>;

pub const AT_MARKER: u16 = 0x3fff;

#[derive(Clone, Debug, PartialEq)]
pub enum WOp {
    Simple(u8),
    /// only as the first operation: the expression is started with `Expression::raw` holding this one-byte operation
    /// and then extended through the builder methods
    Raw(u8),
    Addr(u64),
    Constu(u64),
    Consts(i64),
    ConstType(usize, Vec<u8>),
    Fbreg(i64),
    Breg(u16, i64),
    RegvalType(u16, usize),
    Pick(u8),
    Deref,
    XDeref,
    DerefSize(u8),
    XDerefSize(u8),
    DerefType(u8, usize),
    XDerefType(u8, usize),
    PlusUconst(u64),
    /// target = operation index in this expression (len = end)
    Skip(usize),
    Bra(usize),
    Call(usize),
    CallRef(usize, usize),
    VariableValue(usize, usize),
    Convert(Option<usize>),
    Reinterpret(Option<usize>),
    EntryValue(Vec<WOp>),
    Reg(u16),
    ImplicitValue(Vec<u8>),
    ImplicitPointer(usize, usize, i64),
    Piece(u64),
    BitPiece(u64, u64),
    ParameterRef(usize),
    WasmLocal(u32),
    WasmGlobal(u32),
    WasmStack(u32),
}

#[derive(Clone, Debug, PartialEq)]
pub enum WVal {
    Address(u64),
    Block(Vec<u8>),
    Data1(u8),
    Data2(u16),
    Data4(u32),
    Data8(u64),
    Data16(u128),
    Sdata(i64),
    Udata(u64),
    ImplicitConst(i64),
    Exprloc(Vec<WOp>),
    Flag(bool),
    FlagPresent,
    /// entry index in the same unit
    UnitRef(usize),
    /// (unit index, entry index)
    DebugInfoRef(usize, usize),
    DebugInfoRefSup(u64),
    LineProgramRef,
    LocationListRef(usize),
    RangeListRef(usize),
    DebugTypesRef(u64),
    StringRef(Vec<u8>),
    DebugStrRefSup(u64),
    LineStringRef(Vec<u8>),
    String(Vec<u8>),
    /// Encoding / Language / ... : (which, value)
    Enum(u8, u64),
    FileIndex(Option<usize>),
    DebugMacinfoRef(u64),
    DebugMacroRef(u64),
}

#[derive(Clone, Debug)]
pub struct WEntry {
    pub parent: usize,
    pub tag: u16,
    pub sibling: bool,
    pub attrs: Vec<(u16, WVal)>,
    /// reserve the id before any entry is added, add it when its turn comes
    pub reserved_early: bool,
    /// never added (only reserved): references to it must be refused
    pub never_added: bool,
}

#[derive(Clone, Debug, PartialEq)]
pub enum WRange {
    BaseAddress(u64),
    OffsetPair(u64, u64),
    StartEnd(u64, u64),
    StartLength(u64, u64),
}

#[derive(Clone, Debug, PartialEq)]
pub enum WLoc {
    BaseAddress(u64),
    OffsetPair(u64, u64, Vec<WOp>),
    StartEnd(u64, u64, Vec<WOp>),
    StartLength(u64, u64, Vec<WOp>),
    DefaultLocation(Vec<WOp>),
}

#[derive(Clone, Debug)]
pub struct WUnit {
    pub version: u16,
    pub format64: bool,
    pub address_size: u8,
    /// entries[0] is the root
    pub entries: Vec<WEntry>,
    pub ranges: Vec<Vec<WRange>>,
    pub locs: Vec<Vec<WLoc>>,
    /// file names of a minimal line program (None = no program)
    pub files: Option<Vec<Vec<u8>>>,
}

#[derive(Clone, Debug)]
pub struct WDwarf {
    pub big: bool,
    pub units: Vec<WUnit>,
    /// (unit, entry index): a temporary child (with a small subtree) is added under that entry's parent just before
    /// the entry itself, and deleted again with `delete_child` once all entries exist: the written forest is the
    /// model's, with every surviving sibling in its place
    pub dummies: Vec<(usize, usize)>,
}

impl WUnit {
    pub fn encoding(&self) -> gimli::Encoding {
        gimli::Encoding { format: if self.format64 { gimli::Format::Dwarf64 } else { gimli::Format::Dwarf32 }, version: self.version, address_size: self.address_size }
    }
    /// The version of the unit's line program: the unit's own, or - allowed for a version 5 unit - an older one
    /// (`.debug_line` and `.debug_info` may use different versions).
    pub fn line_version(&self) -> u16 {
        if self.version >= 5 && self.entries.len() % 5 == 0 {
            4
        } else {
            self.version
        }
    }
    pub fn cfg(&self, big: bool) -> Cfg {
        Cfg { big, runtime_endian: true, address_size: self.address_size, format64: self.format64, version: self.version }
    }
    /// children of entry i in the order they are written (base types first among the root's children)
    pub fn children(&self, i: usize) -> Vec<usize> {
        let mut c: Vec<usize> = (1..self.entries.len()).filter(|k| self.entries[*k].parent == i && !self.entries[*k].never_added).collect();
        if i == 0 {
            let (bt, other): (Vec<usize>, Vec<usize>) = c.iter().partition(|k| self.entries[**k].tag == 0x24);
            c = bt.into_iter().chain(other).collect();
        }
        c
    }
    /// pre-order of written entries
    pub fn preorder(&self) -> Vec<(usize, isize)> {
        let mut out = Vec::new();
        fn go(u: &WUnit, i: usize, d: isize, out: &mut Vec<(usize, isize)>) {
            out.push((i, d));
            for c in u.children(i) {
                go(u, c, d + 1, out);
            }
        }
        go(self, 0, 0, &mut out);
        out
    }
    pub fn low_pc(&self) -> Option<u64> {
        self.entries[0].attrs.iter().find(|a| a.0 == 0x11).and_then(|a| if let WVal::Address(x) = a.1 { Some(x) } else { None })
    }
}

thread_local! {
    static SYMBOLIC: std::cell::Cell<bool> = const { std::cell::Cell::new(false) };
}

/// Addresses of the three symbols used when addresses are built symbolically (C18).
pub const SYMBOL_ADDRESSES: [u64; 3] = [0x1000, 0x20_0000, 0];

/// Build with `Address::Symbol` (symbol chosen by the address, addend such that the resolved value is the address).
pub fn set_symbolic(on: bool) {
    SYMBOLIC.with(|s| s.set(on));
}

pub fn mk_addr(a: u64) -> w::Address {
    if SYMBOLIC.with(|s| s.get()) {
        let symbol = (a % 3) as usize;
        w::Address::Symbol { symbol, addend: a.wrapping_sub(SYMBOL_ADDRESSES[symbol]) as i64 }
    } else {
        w::Address::Constant(a)
    }
}

pub fn marker_of(unit: usize, entry: usize) -> u64 {
    (unit as u64) * 100_000 + entry as u64 + 1
}

// ---------------------------------------------------------------------------
// building through gimli::write
// ---------------------------------------------------------------------------

pub struct Built {
    pub dwarf: w::Dwarf,
    pub unit_ids: Vec<w::UnitId>,
    pub entry_ids: Vec<Vec<w::UnitEntryId>>,
}

pub fn build_expr(ops: &[WOp], ui: usize, unit_ids: &[w::UnitId], entry_ids: &[Vec<w::UnitEntryId>]) -> w::Expression {
    let mut e = match ops.first() {
        Some(WOp::Raw(o)) => w::Expression::raw(vec![*o]),
        _ => w::Expression::new(),
    };
    let mut branches: Vec<(usize, usize)> = Vec::new();
    let eid = |u: usize, i: usize| entry_ids[u][i.min(entry_ids[u].len() - 1)];
    for (k, op) in ops.iter().enumerate() {
        match op {
            WOp::Raw(o) => {
                if k != 0 {
                    e.op(gimli::DwOp(*o))
                }
            }
            WOp::Simple(o) => e.op(gimli::DwOp(*o)),
            WOp::Addr(a) => e.op_addr(mk_addr(*a)),
            WOp::Constu(v) => e.op_constu(*v),
            WOp::Consts(v) => e.op_consts(*v),
            WOp::ConstType(t, b) => e.op_const_type(eid(ui, *t), b.clone().into_boxed_slice()),
            WOp::Fbreg(o) => e.op_fbreg(*o),
            WOp::Breg(r, o) => e.op_breg(gimli::Register(*r), *o),
            WOp::RegvalType(r, t) => e.op_regval_type(gimli::Register(*r), eid(ui, *t)),
            WOp::Pick(i) => e.op_pick(*i),
            WOp::Deref => e.op_deref(),
            WOp::XDeref => e.op_xderef(),
            WOp::DerefSize(s) => e.op_deref_size(*s),
            WOp::XDerefSize(s) => e.op_xderef_size(*s),
            WOp::DerefType(s, t) => e.op_deref_type(*s, eid(ui, *t)),
            WOp::XDerefType(s, t) => e.op_xderef_type(*s, eid(ui, *t)),
            WOp::PlusUconst(v) => e.op_plus_uconst(*v),
            WOp::Skip(t) => {
                let i = e.op_skip();
                branches.push((i, *t));
            }
            WOp::Bra(t) => {
                let i = e.op_bra();
                branches.push((i, *t));
            }
            WOp::Call(t) => e.op_call(eid(ui, *t)),
            WOp::CallRef(u, t) => e.op_call_ref(w::DebugInfoRef::Entry(unit_ids[*u], eid(*u, *t))),
            WOp::VariableValue(u, t) => e.op_variable_value(w::DebugInfoRef::Entry(unit_ids[*u], eid(*u, *t))),
            WOp::Convert(t) => e.op_convert(t.map(|t| eid(ui, t))),
            WOp::Reinterpret(t) => e.op_reinterpret(t.map(|t| eid(ui, t))),
            WOp::EntryValue(inner) => e.op_entry_value(build_expr(inner, ui, unit_ids, entry_ids)),
            WOp::Reg(r) => e.op_reg(gimli::Register(*r)),
            WOp::ImplicitValue(b) => e.op_implicit_value(b.clone().into_boxed_slice()),
            WOp::ImplicitPointer(u, t, o) => e.op_implicit_pointer(w::DebugInfoRef::Entry(unit_ids[*u], eid(*u, *t)), *o),
            WOp::Piece(s) => e.op_piece(*s),
            WOp::BitPiece(s, o) => e.op_bit_piece(*s, *o),
            WOp::ParameterRef(t) => e.op_gnu_parameter_ref(eid(ui, *t)),
            WOp::WasmLocal(i) => e.op_wasm_local(*i),
            WOp::WasmGlobal(i) => e.op_wasm_global(*i),
            WOp::WasmStack(i) => e.op_wasm_stack(*i),
        }
    }
    for (i, t) in branches {
        e.set_target(i, t);
    }
    e
}

pub fn build(m: &WDwarf) -> Built {
    let mut dwarf = w::Dwarf::new();
    let mut unit_ids = Vec::new();
    let mut entry_ids: Vec<Vec<w::UnitEntryId>> = Vec::new();
    let mut file_ids: Vec<Vec<w::FileId>> = Vec::new();
    // pass 1: units, entries (so that every id exists before values referring to them are built)
    for u in &m.units {
        let enc = u.encoding();
        let mut fids = Vec::new();
        let lp = match &u.files {
            Some(files) => {
                // DWARF 5 programs may keep directory and file names in .debug_str or .debug_line_str
                let lenc = gimli::Encoding { version: u.line_version(), ..enc };
                let kind = if lenc.version >= 5 { u.entries.len() % 3 } else { 0 };
                let mut mk = |b: Vec<u8>| match kind {
                    1 => w::LineString::StringRef(dwarf.strings.add(b)),
                    2 => w::LineString::LineStringRef(dwarf.line_strings.add(b)),
                    _ => w::LineString::String(b),
                };
                let mut lp = w::LineProgram::new(lenc, gimli::LineEncoding::default(), mk(b"/wd".to_vec()), None, mk(files.first().cloned().unwrap_or_else(|| b"main.c".to_vec())), None);
                let d = lp.default_directory();
                // embedded source for the first file only (version 5, string-table forms): the others get the
                // writer's "no source" placeholder, which must resolve to an empty string when read back
                let with_source = kind != 0 && files.len() >= 2 && u.entries.len() % 2 == 0;
                lp.file_has_source = with_source;
                for (fi, f) in files.iter().enumerate() {
                    let info = if with_source && fi == 0 { Some(w::FileInfo { timestamp: 0, size: 0, md5: [0; 16], source: Some(mk(b"int main;\n".to_vec())) }) } else { None };
                    fids.push(lp.add_file(mk(f.clone()), d, info));
                }
                lp
            }
            None => w::LineProgram::none(),
        };
        let mut unit = w::Unit::new(enc, lp);
        let mut ids = vec![unit.root()];
        // early reservations
        let mut early: BTreeMap<usize, w::UnitEntryId> = BTreeMap::new();
        for (i, e) in u.entries.iter().enumerate().skip(1) {
            if e.reserved_early || e.never_added {
                early.insert(i, unit.reserve());
            }
        }
        let ui_now = unit_ids.len();
        let mut to_delete: Vec<(w::UnitEntryId, w::UnitEntryId)> = Vec::new();
        for (i, e) in u.entries.iter().enumerate().skip(1) {
            if !e.never_added && m.dummies.contains(&(ui_now, i)) {
                let parent = ids[e.parent];
                let dummy = unit.add(parent, gimli::DW_TAG_lexical_block);
                let inner = unit.add(dummy, gimli::DW_TAG_variable);
                unit.get_mut(inner).set(gimli::DW_AT_decl_line, w::AttributeValue::Udata(7));
                to_delete.push((parent, dummy));
            }
            let id = if let Some(id) = early.get(&i) {
                if !e.never_added {
                    unit.add_reserved(*id, ids[e.parent], gimli::DwTag(e.tag));
                }
                *id
            } else {
                unit.add(ids[e.parent], gimli::DwTag(e.tag))
            };
            ids.push(id);
        }
        for (parent, dummy) in to_delete {
            unit.get_mut(parent).delete_child(dummy);
        }
        // the root's tag
        let _ = &u.entries[0].tag;
        unit_ids.push(dwarf.units.add(unit));
        entry_ids.push(ids);
        file_ids.push(fids);
    }
    // pass 2: lists and attributes
    for (ui, u) in m.units.iter().enumerate() {
        let mut range_ids = Vec::new();
        for l in &u.ranges {
            let list = w::RangeList(
                l.iter()
                    .map(|r| match r {
                        WRange::BaseAddress(a) => w::Range::BaseAddress { address: mk_addr(*a) },
                        WRange::OffsetPair(b, e) => w::Range::OffsetPair { begin: *b, end: *e },
                        WRange::StartEnd(b, e) => w::Range::StartEnd { begin: mk_addr(*b), end: mk_addr(*e) },
                        WRange::StartLength(b, l) => w::Range::StartLength { begin: mk_addr(*b), length: *l },
                    })
                    .collect(),
            );
            range_ids.push(dwarf.units.get_mut(unit_ids[ui]).ranges.add(list));
        }
        let mut loc_ids = Vec::new();
        for l in &u.locs {
            let list = w::LocationList(
                l.iter()
                    .map(|r| match r {
                        WLoc::BaseAddress(a) => w::Location::BaseAddress { address: mk_addr(*a) },
                        WLoc::OffsetPair(b, e, d) => w::Location::OffsetPair { begin: *b, end: *e, data: build_expr(d, ui, &unit_ids, &entry_ids) },
                        WLoc::StartEnd(b, e, d) => w::Location::StartEnd { begin: mk_addr(*b), end: mk_addr(*e), data: build_expr(d, ui, &unit_ids, &entry_ids) },
                        WLoc::StartLength(b, l, d) => w::Location::StartLength { begin: mk_addr(*b), length: *l, data: build_expr(d, ui, &unit_ids, &entry_ids) },
                        WLoc::DefaultLocation(d) => w::Location::DefaultLocation { data: build_expr(d, ui, &unit_ids, &entry_ids) },
                    })
                    .collect(),
            );
            loc_ids.push(dwarf.units.get_mut(unit_ids[ui]).locations.add(list));
        }
        for (ei, e) in u.entries.iter().enumerate() {
            if e.never_added {
                continue;
            }
            let mut vals: Vec<(u16, w::AttributeValue)> = Vec::new();
            vals.push((AT_MARKER, w::AttributeValue::Udata(marker_of(ui, ei))));
            for (name, v) in &e.attrs {
                let av = match v {
                    WVal::Address(a) => w::AttributeValue::Address(mk_addr(*a)),
                    WVal::Block(b) => w::AttributeValue::Block(b.clone()),
                    WVal::Data1(x) => w::AttributeValue::Data1(*x),
                    WVal::Data2(x) => w::AttributeValue::Data2(*x),
                    WVal::Data4(x) => w::AttributeValue::Data4(*x),
                    WVal::Data8(x) => w::AttributeValue::Data8(*x),
                    WVal::Data16(x) => w::AttributeValue::Data16(*x),
                    WVal::Sdata(x) => w::AttributeValue::Sdata(*x),
                    WVal::Udata(x) => w::AttributeValue::Udata(*x),
                    WVal::ImplicitConst(x) => w::AttributeValue::ImplicitConst(*x),
                    WVal::Exprloc(ops) => w::AttributeValue::Exprloc(build_expr(ops, ui, &unit_ids, &entry_ids)),
                    WVal::Flag(b) => w::AttributeValue::Flag(*b),
                    WVal::FlagPresent => w::AttributeValue::FlagPresent,
                    WVal::UnitRef(t) => w::AttributeValue::UnitRef(entry_ids[ui][*t]),
                    WVal::DebugInfoRef(tu, t) => w::AttributeValue::DebugInfoRef(w::DebugInfoRef::Entry(unit_ids[*tu], entry_ids[*tu][*t])),
                    WVal::DebugInfoRefSup(o) => w::AttributeValue::DebugInfoRefSup(gimli::DebugInfoOffset(*o as usize)),
                    WVal::LineProgramRef => w::AttributeValue::LineProgramRef,
                    WVal::LocationListRef(i) => w::AttributeValue::LocationListRef(loc_ids[*i]),
                    WVal::RangeListRef(i) => w::AttributeValue::RangeListRef(range_ids[*i]),
                    WVal::DebugTypesRef(s) => w::AttributeValue::DebugTypesRef(gimli::DebugTypeSignature(*s)),
                    WVal::StringRef(s) => w::AttributeValue::StringRef(dwarf.strings.add(s.clone())),
                    WVal::DebugStrRefSup(o) => w::AttributeValue::DebugStrRefSup(gimli::DebugStrOffset(*o as usize)),
                    WVal::LineStringRef(s) => w::AttributeValue::LineStringRef(dwarf.line_strings.add(s.clone())),
                    WVal::String(s) => w::AttributeValue::String(s.clone()),
                    WVal::Enum(k, v) => match k {
                        0 => w::AttributeValue::Encoding(gimli::DwAte(*v as u8)),
                        1 => w::AttributeValue::DecimalSign(gimli::DwDs(*v as u8)),
                        2 => w::AttributeValue::Endianity(gimli::DwEnd(*v as u8)),
                        3 => w::AttributeValue::Accessibility(gimli::DwAccess(*v as u8)),
                        4 => w::AttributeValue::Visibility(gimli::DwVis(*v as u8)),
                        5 => w::AttributeValue::Virtuality(gimli::DwVirtuality(*v as u8)),
                        6 => w::AttributeValue::Language(gimli::DwLang(*v as u16)),
                        7 => w::AttributeValue::AddressClass(gimli::DwAddr(*v)),
                        8 => w::AttributeValue::IdentifierCase(gimli::DwId(*v as u8)),
                        9 => w::AttributeValue::CallingConvention(gimli::DwCc(*v as u8)),
                        10 => w::AttributeValue::Inline(gimli::DwInl(*v as u8)),
                        _ => w::AttributeValue::Ordering(gimli::DwOrd(*v as u8)),
                    },
                    WVal::FileIndex(f) => w::AttributeValue::FileIndex(f.and_then(|i| file_ids[ui].get(i).copied())),
                    WVal::DebugMacinfoRef(o) => w::AttributeValue::DebugMacinfoRef(gimli::DebugMacinfoOffset(*o as usize)),
                    WVal::DebugMacroRef(o) => w::AttributeValue::DebugMacroRef(gimli::DebugMacroOffset(*o as usize)),
                };
                vals.push((*name, av));
            }
            let unit = dwarf.units.get_mut(unit_ids[ui]);
            let de = unit.get_mut(entry_ids[ui][ei]);
            de.set_sibling(e.sibling);
            for (n, v) in vals {
                de.set(gimli::DwAt(n), v);
            }
        }
    }
    Built { dwarf, unit_ids, entry_ids }
}

pub struct WrittenSections {
    pub map: BTreeMap<&'static str, Vec<u8>>,
}

thread_local! {
    static SYMBOLIC_WRITE: std::cell::Cell<bool> = const { std::cell::Cell::new(false) };
}

/// Run `f` with every address built as `Address::Symbol` and every section written through the relocation-recording
/// writer, the recorded relocations then being applied: the sections `f` reads back are what a linker would produce.
pub fn with_symbolic_write<T>(f: impl FnOnce() -> T) -> T {
    struct Reset;
    impl Drop for Reset {
        fn drop(&mut self) {
            set_symbolic(false);
            SYMBOLIC_WRITE.with(|s| s.set(false));
        }
    }
    let _reset = Reset;
    set_symbolic(true);
    SYMBOLIC_WRITE.with(|s| s.set(true));
    f()
}

pub fn write_sections(b: &mut Built, big: bool) -> Result<WrittenSections, w::Error> {
    if SYMBOLIC_WRITE.with(|s| s.get()) {
        return crate::c18::write_built_applied(&mut b.dwarf, big).map(|map| WrittenSections { map });
    }
    let endian = if big { RunTimeEndian::Big } else { RunTimeEndian::Little };
    let mut sections = w::Sections::new(w::EndianVec::new(endian));
    b.dwarf.write(&mut sections)?;
    let mut map = BTreeMap::new();
    sections
        .for_each(|id, data| -> Result<(), w::Error> {
            map.insert(id.name(), data.slice().to_vec());
            Ok(())
        })
        .unwrap();
    Ok(WrittenSections { map })
}

pub fn load<'a>(ws: &'a WrittenSections, big: bool) -> gimli::Dwarf<Rdr<'a>> {
    let endian = if big { RunTimeEndian::Big } else { RunTimeEndian::Little };
    let empty: &[u8] = &[];
    gimli::Dwarf::load(|id| -> Result<Rdr<'a>, gimli::Error> { Ok(EndianSlice::new(ws.map.get(id.name()).map(|v| &v[..]).unwrap_or(empty), endian)) }).unwrap()
}

// ---------------------------------------------------------------------------
// expected meaning (model side)
// ---------------------------------------------------------------------------

/// Where each written entry ended up: marker -> (unit index, unit offset, section offset)
pub type Positions = BTreeMap<u64, (usize, usize, usize)>;

/// The model operations a WOp list must decode to, given the positions of the referenced entries.
pub fn expected_mops(ops: &[WOp], ui: usize, u: &WUnit, pos: &Positions) -> Option<Vec<MOp>> {
    let v5 = u.version >= 5;
    let uoff = |t: usize| pos.get(&marker_of(ui, t)).map(|p| p.1 as u64);
    let soff = |tu: usize, t: usize| pos.get(&marker_of(tu, t)).map(|p| p.2 as u64);
    let mut out = Vec::new();
    for op in ops {
        out.push(match op {
            WOp::Simple(o) | WOp::Raw(o) => match crate::exprvm::decode_op(&[*o], 0, &u.cfg(false)) {
                Ok((m, _)) => m,
                Err(_) => return None,
            },
            WOp::Addr(a) => MOp::Addr(*a & mask(u.address_size)),
            WOp::Constu(v) => MOp::Const(8, *v),
            WOp::Consts(v) => MOp::Const(9, *v as u64),
            WOp::ConstType(t, b) => MOp::ConstType(uoff(*t)?, b.clone(), !v5),
            WOp::Fbreg(o) => MOp::Fbreg(*o),
            WOp::Breg(r, o) => MOp::Bregx(*r as u64, *o),
            WOp::RegvalType(r, t) => MOp::RegvalType(*r as u64, uoff(*t)?, !v5),
            WOp::Pick(i) => MOp::Pick(*i),
            WOp::Deref => MOp::Deref,
            WOp::XDeref => MOp::XDeref,
            WOp::DerefSize(s) => MOp::DerefSize(*s),
            WOp::XDerefSize(s) => MOp::XDerefSize(*s),
            WOp::DerefType(s, t) => MOp::DerefType(*s, uoff(*t)?, !v5),
            WOp::XDerefType(s, t) => MOp::XDerefType(*s, uoff(*t)?),
            WOp::PlusUconst(v) => MOp::PlusUconst(*v),
            // branch displacements are checked separately (by landing position)
            WOp::Skip(_) => MOp::Skip(0),
            WOp::Bra(_) => MOp::Bra(0),
            WOp::Call(t) => MOp::Call4(uoff(*t)? as u32),
            WOp::CallRef(tu, t) => MOp::CallRef(soff(*tu, *t)?),
            WOp::VariableValue(tu, t) => MOp::VariableValue(soff(*tu, *t)?),
            WOp::Convert(t) => MOp::Convert(match t {
                Some(t) => uoff(*t)?,
                None => 0,
            }, !v5),
            WOp::Reinterpret(t) => MOp::Reinterpret(match t {
                Some(t) => uoff(*t)?,
                None => 0,
            }, !v5),
            WOp::EntryValue(_) => MOp::EntryValue(Vec::new(), !v5), // nested expressions compared recursively
            WOp::Reg(r) => MOp::Regx(*r as u64),
            WOp::ImplicitValue(b) => MOp::ImplicitValue(b.clone()),
            WOp::ImplicitPointer(tu, t, o) => MOp::ImplicitPointer(soff(*tu, *t)?, *o, !v5),
            WOp::Piece(s) => MOp::Piece(*s),
            WOp::BitPiece(s, o) => MOp::BitPiece(*s, *o),
            WOp::ParameterRef(t) => MOp::ParameterRef(uoff(*t)? as u32),
            WOp::WasmLocal(i) => MOp::Wasm(0, *i),
            WOp::WasmGlobal(i) => MOp::Wasm(1, *i),
            WOp::WasmStack(i) => MOp::Wasm(2, *i),
        });
    }
    Some(out)
}

/// Compare emitted expression bytes with the requested operations.
pub fn check_expr_bytes(bytes: &[u8], ops: &[WOp], ui: usize, u: &WUnit, big: bool, pos: &Positions, what: &str) -> R {
    let cfg = u.cfg(big);
    let Some(want) = expected_mops(ops, ui, u, pos) else { fail!(format!("{}/expr/unresolved-target", what), "a referenced entry was not written: {:?}", ops) };
    let endian = cfg.endian();
    let expr = gimli::Expression(EndianSlice::new(bytes, endian));
    let mut it = expr.clone().operations(cfg.encoding());
    let mut starts: Vec<usize> = Vec::new();
    let mut decoded: Vec<gimli::Operation<Rdr>> = Vec::new();
    loop {
        let at = it.offset_from(&expr);
        match it.next() {
            Ok(Some(op)) => {
                starts.push(at);
                decoded.push(op);
            }
            Ok(None) => break,
            Err(e) => fail!(format!("{}/expr/undecodable", what), "emitted bytes {:02x?} do not decode: {:?} (requested {:?})", bytes, e, ops),
        }
    }
    starts.push(bytes.len());
    ensure_eq!(decoded.len(), ops.len(), format!("{}/expr/op-count", what), "emitted {:02x?} requested {:?}", bytes, ops);
    for (i, (g, (wop, mop))) in decoded.iter().zip(ops.iter().zip(want.iter())).enumerate() {
        match (g, wop) {
            (gimli::Operation::Skip { target }, WOp::Skip(t)) | (gimli::Operation::Bra { target }, WOp::Bra(t)) => {
                let land = starts[i + 1] as i64 + *target as i64;
                ensure_eq!(land, starts[*t] as i64, format!("{}/expr/branch-target", what), "operation #{} must land on operation #{} (byte {}), lands on byte {} in {:02x?}", i, t, starts[*t], land, bytes);
            }
            (gimli::Operation::EntryValue { expression }, WOp::EntryValue(inner)) => {
                check_expr_bytes(expression.slice(), inner, ui, u, big, pos, what)?;
            }
            _ => {
                let wantc = canon_model(mop, &cfg).unwrap_or_default();
                ensure_eq!(canon_gimli(g), wantc, format!("{}/expr/operation", what), "operation #{} of {:?} (bytes {:02x?})", i, ops, bytes);
            }
        }
    }
    Ok(())
}

fn numeric(v: u64) -> String {
    format!("u:{}", v)
}

/// Expected meaning of a written attribute value (None = nothing is pinned down / handled elsewhere).
fn expected_meaning(name: u16, v: &WVal, ui: usize, u: &WUnit, _m: &WDwarf) -> String {
    let am = mask(u.address_size);
    match v {
        WVal::Address(a) => format!("addr:{}", a & am),
        WVal::Block(b) => format!("block:{:02x?}", b),
        WVal::Data1(x) => numeric(*x as u64),
        WVal::Data2(x) => numeric(*x as u64),
        WVal::Data4(x) => numeric(*x as u64),
        WVal::Data8(x) => numeric(*x),
        WVal::Data16(x) => format!("u128:{}", x),
        WVal::Sdata(x) | WVal::ImplicitConst(x) => {
            if *x >= 0 {
                numeric(*x as u64)
            } else {
                format!("s:{}", x)
            }
        }
        WVal::Udata(x) => numeric(*x),
        WVal::Exprloc(_) => "expr".to_string(),
        WVal::Flag(b) => format!("flag:{}", b),
        WVal::FlagPresent => "flag:true".to_string(),
        WVal::UnitRef(t) => format!("ref->{}", marker_of(ui, *t)),
        WVal::DebugInfoRef(tu, t) => format!("ref->{}", marker_of(*tu, *t)),
        WVal::DebugInfoRefSup(o) => format!("refsup:{}", o & if u.format64 { u64::MAX } else { 0xffff_ffff }),
        WVal::LineProgramRef => "lineptr".to_string(),
        WVal::LocationListRef(_) => "loclist".to_string(),
        WVal::RangeListRef(_) => "rnglist".to_string(),
        WVal::DebugTypesRef(s) => format!("sig:{}", s),
        WVal::StringRef(s) | WVal::LineStringRef(s) | WVal::String(s) => format!("str:{:02x?}", s),
        WVal::DebugStrRefSup(o) => format!("strsup:{}", o & if u.format64 { u64::MAX } else { 0xffff_ffff }),
        WVal::Enum(_, v) => numeric(*v),
        WVal::FileIndex(f) => {
            let in_use = u.files.is_some() && u.entries.iter().any(|e| !e.never_added && e.attrs.iter().any(|a| matches!(a.1, WVal::FileIndex(Some(_)))));
            match (f, &u.files) {
                (Some(i), Some(files)) if *i < files.len() && (name == 0x3a || name == 0x58) => format!("file:{:02x?}", files[*i]),
                (Some(i), Some(files)) if *i < files.len() => "file-index".to_string(),
                // "no file" is written as index 0, which DWARF 5 defines as the primary source file
                (None, Some(files)) if u.line_version() >= 5 && in_use && (name == 0x3a || name == 0x58) => format!("file:{:02x?}", files[0]),
                _ if name == 0x3a || name == 0x58 => "file:none".to_string(),
                _ => numeric(0),
            }
        }
        WVal::DebugMacinfoRef(o) | WVal::DebugMacroRef(o) => format!("secoff:{}", o & if u.format64 { u64::MAX } else { 0xffff_ffff }),
    }
}

/// Meaning of an attribute as read back.
fn read_meaning<'a>(dwarf: &gimli::Dwarf<Rdr<'a>>, unit: &gimli::Unit<Rdr<'a>>, attr: &gimli::Attribute<Rdr<'a>>, by_unit_off: &BTreeMap<(usize, usize), u64>, by_sec_off: &BTreeMap<usize, u64>, ui: usize) -> String {
    use gimli::AttributeValue as A;
    let name = attr.name().0;
    match attr.value() {
        A::Addr(a) => format!("addr:{}", a),
        A::Block(b) => format!("block:{:02x?}", b.slice()),
        A::Data1(x) => numeric(x as u64),
        A::Data2(x) => numeric(x as u64),
        A::Data4(x) => numeric(x as u64),
        A::Data8(x) => numeric(x),
        A::Data16(x) => format!("u128:{}", x),
        A::Udata(x) => numeric(x),
        A::Sdata(x) => {
            if x >= 0 {
                numeric(x as u64)
            } else {
                format!("s:{}", x)
            }
        }
        A::Exprloc(_) => "expr".to_string(),
        A::Flag(b) => format!("flag:{}", b),
        A::UnitRef(o) => match by_unit_off.get(&(ui, o.0)) {
            Some(m) => format!("ref->{}", m),
            None => format!("ref->dangling(unit offset {:#x})", o.0),
        },
        A::DebugInfoRef(o) => match by_sec_off.get(&o.0) {
            Some(m) => format!("ref->{}", m),
            None => format!("ref->dangling(section offset {:#x})", o.0),
        },
        A::DebugInfoRefSup(o) => format!("refsup:{}", o.0),
        A::DebugLineRef(_) => "lineptr".to_string(),
        A::LocationListsRef(_) | A::DebugLocListsIndex(_) => "loclist".to_string(),
        A::RangeListsRef(_) | A::DebugRngListsIndex(_) => "rnglist".to_string(),
        A::DebugTypesRef(s) => format!("sig:{}", s.0),
        v @ (A::String(_) | A::DebugStrRef(_) | A::DebugLineStrRef(_) | A::DebugStrOffsetsIndex(_)) => match dwarf.attr_string(unit, v) {
            Ok(s) => format!("str:{:02x?}", s.slice()),
            Err(e) => format!("str:unresolvable({:?})", e),
        },
        A::DebugStrRefSup(o) => format!("strsup:{}", o.0),
        A::Encoding(x) => numeric(x.0 as u64),
        A::DecimalSign(x) => numeric(x.0 as u64),
        A::Endianity(x) => numeric(x.0 as u64),
        A::Accessibility(x) => numeric(x.0 as u64),
        A::Visibility(x) => numeric(x.0 as u64),
        A::Virtuality(x) => numeric(x.0 as u64),
        A::Language(x) => numeric(x.0 as u64),
        A::AddressClass(x) => numeric(x.0),
        A::IdentifierCase(x) => numeric(x.0 as u64),
        A::CallingConvention(x) => numeric(x.0 as u64),
        A::Inline(x) => numeric(x.0 as u64),
        A::Ordering(x) => numeric(x.0 as u64),
        A::FileIndex(i) => {
            if (name == 0x3a || name == 0x58) && i == 0 && unit.line_program.as_ref().map_or(true, |lp| lp.header().version() <= 4) {
                "file:none".to_string()
            } else if name == 0x3a || name == 0x58 {
                match unit.line_program.as_ref().and_then(|lp| lp.header().file(i)) {
                    Some(f) => match dwarf.attr_string(unit, f.path_name()) {
                        Ok(s) => format!("file:{:02x?}", s.slice()),
                        Err(_) => "file:unresolvable".to_string(),
                    },
                    None => format!("file:no-such-index({})", i),
                }
            } else {
                numeric(i)
            }
        }
        A::SecOffset(o) => format!("secoff:{}", o),
        A::DebugMacinfoRef(o) => format!("secoff:{}", o.0),
        A::DebugMacroRef(o) => format!("secoff:{}", o.0),
        other => format!("other:{:?}", crate::dieasm::canon_av(&other)),
    }
}

fn to_le_ranges(l: &[WRange]) -> Vec<(LE, Vec<u8>)> {
    l.iter()
        .map(|r| {
            (
                match r {
                    WRange::BaseAddress(a) => LE::BaseAddress(*a),
                    WRange::OffsetPair(b, e) => LE::OffsetPair(*b, *e),
                    WRange::StartEnd(b, e) => LE::StartEnd(*b, *e),
                    WRange::StartLength(b, l) => LE::StartLength(*b, *l),
                },
                Vec::new(),
            )
        })
        .collect()
}

/// Expected outcome of the whole request.
#[derive(Debug, Clone, PartialEq)]
pub enum Expect {
    Ok,
    /// the request cannot be encoded; writing must fail (any error)
    MustFail(&'static str),
    /// the request may be refused (limits such as a branch displacement beyond 16 bits)
    MayFail(&'static str),
}

/// Check a written Dwarf against the model. Returns statistics through cx labels.
/// The structure as the writing interface reports it back before anything is written (unit table, entries, parents,
/// children in insertion order, attributes in the order they were first set), and edits that cancel out (an attribute
/// added and deleted again, a value replaced and restored through the mutable accessors).
fn check_built_accessors(m: &WDwarf, b: &mut Built, tag: &str) -> R {
    ensure_eq!(b.dwarf.units.count(), m.units.len(), format!("{}/built/unit-count", tag));
    for (ui, id) in b.unit_ids.iter().enumerate() {
        ensure!(b.dwarf.units.id(ui) == *id, format!("{}/built/unit-id", tag), "unit {}", ui);
    }
    let order: Vec<w::UnitId> = b.dwarf.units.iter().map(|(id, _)| id).collect();
    ensure!(order == b.unit_ids, format!("{}/built/unit-iter", tag), "");
    for (ui, mu) in m.units.iter().enumerate() {
        let uid = b.unit_ids[ui];
        let ids = b.entry_ids[ui].clone();
        ensure!(b.dwarf.units.get(uid).root() == ids[0], format!("{}/built/root", tag), "unit {}", ui);
        ensure_eq!(b.dwarf.units.get(uid).encoding(), mu.encoding(), format!("{}/built/encoding", tag), "unit {}", ui);
        for (ei, me) in mu.entries.iter().enumerate() {
            if me.never_added {
                continue;
            }
            let unit = b.dwarf.units.get(uid);
            let e = unit.get(ids[ei]);
            ensure!(e.id() == ids[ei], format!("{}/built/entry-id", tag), "unit {} entry {}", ui, ei);
            let want_parent = if ei == 0 { None } else { Some(ids[me.parent]) };
            ensure!(e.parent() == want_parent, format!("{}/built/parent", tag), "unit {} entry {}", ui, ei);
            ensure_eq!(e.tag().0, if ei == 0 { 0x11 } else { me.tag }, format!("{}/built/tag", tag), "unit {} entry {}", ui, ei);
            ensure_eq!(e.sibling(), me.sibling, format!("{}/built/sibling-flag", tag), "unit {} entry {}", ui, ei);
            let want_children: Vec<w::UnitEntryId> = (1..mu.entries.len()).filter(|k| mu.entries[*k].parent == ei && !mu.entries[*k].never_added).map(|k| ids[k]).collect();
            let got_children: Vec<w::UnitEntryId> = e.children().copied().collect();
            ensure!(got_children == want_children, format!("{}/built/children", tag), "unit {} entry {}: {} children reported, {} added", ui, ei, got_children.len(), want_children.len());
            let mut want_names: Vec<u16> = vec![AT_MARKER];
            for (n, _) in &me.attrs {
                if !want_names.contains(n) {
                    want_names.push(*n);
                }
            }
            let got_names: Vec<u16> = e.attrs().map(|a| a.name().0).collect();
            ensure_eq!(got_names, want_names, format!("{}/built/attribute-names", tag), "unit {} entry {}", ui, ei);
            for n in &want_names {
                ensure!(e.get(gimli::DwAt(*n)).is_some(), format!("{}/built/get", tag), "unit {} entry {} attribute {:#x}", ui, ei, n);
            }
            ensure!(e.get(gimli::DwAt(0x3ffe)).is_none(), format!("{}/built/get-phantom", tag), "unit {} entry {}", ui, ei);
            ensure_eq!(e.get(gimli::DwAt(AT_MARKER)), Some(&w::AttributeValue::Udata(marker_of(ui, ei))), format!("{}/built/get-value", tag), "unit {} entry {}", ui, ei);
            // edits that cancel out
            if (ui + ei) % 3 == 0 {
                let unit = b.dwarf.units.get_mut(uid);
                let e = unit.get_mut(ids[ei]);
                e.set(gimli::DwAt(0x3ffe), w::AttributeValue::Udata(99));
                e.delete(gimli::DwAt(0x3ffe));
                if let Some(v) = e.get_mut(gimli::DwAt(AT_MARKER)) {
                    *v = w::AttributeValue::Udata(0);
                }
                for a in e.attrs_mut() {
                    if a.name().0 == AT_MARKER {
                        ensure_eq!(a.get(), &w::AttributeValue::Udata(0), format!("{}/built/get_mut-not-stored", tag), "unit {} entry {}", ui, ei);
                        a.set(w::AttributeValue::Udata(marker_of(ui, ei)));
                    }
                }
                let got_names: Vec<u16> = e.attrs().map(|a| a.name().0).collect();
                ensure_eq!(got_names, want_names, format!("{}/built/attribute-names-after-edits", tag), "unit {} entry {}", ui, ei);
            }
        }
    }
    Ok(())
}

pub fn check_written(m: &WDwarf, expect: &Expect, cx: &mut Ctx, tag: &str) -> R {
    let mut built = build(m);
    check_built_accessors(m, &mut built, tag)?;
    let ws = match write_sections(&mut built, m.big) {
        Ok(ws) => {
            if let Expect::MustFail(why) = expect {
                fail!(format!("{}/write/accepted-unencodable", tag), "writing succeeded although the request cannot be encoded: {}", why);
            }
            ws
        }
        Err(e) => {
            match expect {
                Expect::Ok => fail!(format!("{}/write/refused", tag), "writing failed with {:?} for a request inside the documented limits", e),
                _ => {
                    cx.label("refused (expected)");
                    return Ok(());
                }
            }
        }
    };
    let dwarf = load(&ws, m.big);
    // ---- pass 1: positions of all entries by marker, and forest shape
    let mut pos: Positions = BTreeMap::new();
    let mut by_unit_off: BTreeMap<(usize, usize), u64> = BTreeMap::new();
    let mut by_sec_off: BTreeMap<usize, u64> = BTreeMap::new();
    let mut headers = Vec::new();
    let mut it = dwarf.units();
    loop {
        match it.next() {
            Ok(Some(h)) => headers.push(h),
            Ok(None) => break,
            Err(e) => fail!(format!("{}/readback/units", tag), "{:?}", e),
        }
    }
    ensure_eq!(headers.len(), m.units.len(), format!("{}/readback/unit-count", tag));
    let mut units = Vec::new();
    for (ui, h) in headers.iter().enumerate() {
        let mu = &m.units[ui];
        ensure_eq!(h.encoding(), mu.encoding(), format!("{}/readback/unit-encoding", tag), "unit {}", ui);
        ensure!(matches!(h.type_(), gimli::UnitType::Compilation), format!("{}/readback/unit-type", tag), "unit {}", ui);
        let unit = dwarf.unit(*h).map_err(|e| Failure { sig: format!("{}/readback/unit", tag), detail: format!("unit {}: {:?}", ui, e) })?;
        let order = mu.preorder();
        let mut cur = unit.entries();
        let mut k = 0usize;
        loop {
            match cur.next_dfs() {
                Ok(Some(entry)) => {
                    let Some((ei, depth)) = order.get(k).copied() else { fail!(format!("{}/readback/extra-entry", tag), "unit {} entry at {:#x}", ui, entry.offset().0) };
                    let me = &mu.entries[ei];
                    ensure_eq!(entry.depth(), depth, format!("{}/readback/nesting", tag), "unit {} entry #{} (model entry {})", ui, k, ei);
                    let want_tag = if ei == 0 { 0x11 } else { me.tag };
                    ensure_eq!(entry.tag().0, want_tag, format!("{}/readback/tag", tag), "unit {} entry #{}", ui, k);
                    let marker = entry.attr_value(gimli::DwAt(AT_MARKER)).and_then(|v| v.udata_value());
                    ensure_eq!(marker, Some(marker_of(ui, ei)), format!("{}/readback/identity", tag), "unit {} entry #{}: entries are out of order or missing", ui, k);
                    let so = h.offset().0 + entry.offset().0;
                    pos.insert(marker_of(ui, ei), (ui, entry.offset().0, so));
                    by_unit_off.insert((ui, entry.offset().0), marker_of(ui, ei));
                    by_sec_off.insert(so, marker_of(ui, ei));
                    k += 1;
                }
                Ok(None) => break,
                Err(e) => fail!(format!("{}/readback/entries", tag), "unit {} after {} entries: {:?}", ui, k, e),
            }
        }
        ensure_eq!(k, order.len(), format!("{}/readback/entry-count", tag), "unit {}", ui);
        // the unit's file table: every name, directory and embedded source resolves; the names are the requested ones
        if let (Some(files), Some(prog)) = (&mu.files, unit.line_program.as_ref()) {
            let hdr = prog.header();
            ensure_eq!(hdr.version(), mu.line_version(), format!("{}/readback/line-program-version", tag), "unit {}", ui);
            let v5 = mu.line_version() >= 5;
            let mut names: Vec<Vec<u8>> = Vec::new();
            for (fi, fe) in hdr.file_names().iter().enumerate() {
                let name = dwarf.attr_string(&unit, fe.path_name()).map_err(|e| Failure { sig: format!("{}/readback/file-name", tag), detail: format!("unit {} file #{}: {:?}", ui, fi, e) })?;
                names.push(name.slice().to_vec());
                // (before version 5 directory 0 is the unit's DW_AT_comp_dir, which the request may lack)
                match fe.directory(hdr) {
                    Some(dir) => {
                        dwarf.attr_string(&unit, dir).map_err(|e| Failure { sig: format!("{}/readback/file-directory", tag), detail: format!("unit {} file #{}: {:?}", ui, fi, e) })?;
                    }
                    None => ensure!(!v5 && fe.directory_index() == 0, format!("{}/readback/file-directory", tag), "unit {} file #{}: no directory entry {}", ui, fi, fe.directory_index()),
                }
                if let Some(src) = fe.source() {
                    let text = dwarf.attr_string(&unit, src).map_err(|e| Failure { sig: format!("{}/readback/file-source", tag), detail: format!("unit {} file #{}: {:?}", ui, fi, e) })?;
                    let first = names.last().map(|n| Some(n) == files.first()).unwrap_or(false);
                    if !first {
                        cx.label("file without embedded source in a table that has the source column");
                    }
                    let want: &[u8] = if first { b"int main;\n" } else { b"" };
                    ensure_eq!(text.slice(), want, format!("{}/readback/file-source", tag), "unit {} file #{}", ui, fi);
                }
            }
            // version 5 tables start with the primary file (index 0), earlier ones list only the added files
            let mut want: Vec<Vec<u8>> = Vec::new();
            if v5 {
                want.push(files.first().cloned().unwrap_or_else(|| b"main.c".to_vec()));
            }
            for f in files {
                if !want.contains(f) {
                    want.push(f.clone());
                }
            }
            ensure_eq!(names, want, format!("{}/readback/file-names", tag), "unit {}", ui);
        }
        units.push(unit);
    }
    // ---- pass 2: attributes by meaning
    for (ui, unit) in units.iter().enumerate() {
        let mu = &m.units[ui];
        let order = mu.preorder();
        let mut cur = unit.entries();
        let mut k = 0;
        while let Some(entry) = cur.next_dfs().map_err(|e| Failure { sig: format!("{}/readback/entries", tag), detail: format!("{e:?}") })? {
            let (ei, _) = order[k];
            k += 1;
            let me = &mu.entries[ei];
            // expected attribute list: [sibling] marker attrs... (+ stmt_list on the root when a program is in use)
            let has_children = !mu.children(ei).is_empty();
            let mut got: Vec<&gimli::Attribute<Rdr>> = entry.attrs().iter().collect();
            if me.sibling && has_children {
                let Some(first) = got.first() else { fail!(format!("{}/sibling/missing", tag), "unit {} entry {}", ui, ei) };
                ensure_eq!(first.name().0, 0x01, format!("{}/sibling/missing", tag), "unit {} entry {}", ui, ei);
                // must point at the next entry at the same depth or at the end of the parent's list
                let gimli::AttributeValue::UnitRef(o) = first.value() else { fail!(format!("{}/sibling/form", tag), "{:?}", crate::dieasm::canon_av(&first.value())) };
                // the next sibling in the model
                let sibs = mu.children(me.parent);
                let next = sibs.iter().position(|x| *x == ei).and_then(|p| sibs.get(p + 1)).copied();
                if let (Some(n), true) = (next, ei != 0) {
                    let want = pos[&marker_of(ui, n)].1;
                    ensure_eq!(o.0, want, format!("{}/sibling/target", tag), "unit {} entry {}: sibling pointer must designate entry {}", ui, ei, n);
                } else {
                    // last child (or root): points just past this entry's subtree: the cursor's sibling stepping must agree
                    let mut c2 = unit.entries_at_offset(entry.offset()).map_err(|e| Failure { sig: format!("{}/sibling/reposition", tag), detail: format!("{e:?}") })?;
                    c2.next_entry().ok();
                    let ns = c2.next_sibling().map_err(|e| Failure { sig: format!("{}/sibling/step", tag), detail: format!("{e:?}") })?;
                    ensure!(ns.is_none(), format!("{}/sibling/last-has-sibling", tag), "unit {} entry {}", ui, ei);
                }
                // in every case the pointer designates the position just past this entry's subtree (for a last child: the
                // null entry that ends the parent's list), found here by walking the subtree entry by entry
                {
                    let mut raw = unit.entries_raw(Some(entry.offset())).map_err(|e| Failure { sig: format!("{}/sibling/reposition", tag), detail: format!("{e:?}") })?;
                    let mut tmp = gimli::DebuggingInformationEntry::null();
                    raw.read_entry(&mut tmp).map_err(|e| Failure { sig: format!("{}/sibling/walk", tag), detail: format!("{e:?}") })?;
                    let mut guard = 0;
                    while raw.next_depth() > 0 && !raw.is_empty() {
                        raw.read_entry(&mut tmp).map_err(|e| Failure { sig: format!("{}/sibling/walk", tag), detail: format!("{e:?}") })?;
                        guard += 1;
                        if guard > 100_000 {
                            break;
                        }
                    }
                    ensure_eq!(o.0, raw.next_offset().0, format!("{}/sibling/target-past-subtree", tag), "unit {} entry {}: the sibling pointer must designate the position just past the entry's subtree", ui, ei);
                }
                got.remove(0);
            } else if let Some(f) = got.first() {
                ensure!(f.name().0 != 0x01, format!("{}/sibling/unrequested", tag), "unit {} entry {}", ui, ei);
            }
            let mut want: Vec<(u16, Option<&WVal>)> = vec![(AT_MARKER, None)];
            for (n, v) in &me.attrs {
                // `set` replaces an existing attribute of the same name
                if let Some(slot) = want.iter_mut().find(|x| x.0 == *n) {
                    slot.1 = Some(v);
                } else {
                    want.push((*n, Some(v)));
                }
            }
            if ei == 0 {
                // the writer manages DW_AT_stmt_list on the root itself
                let in_use = mu.files.is_some() && mu.entries.iter().any(|e| !e.never_added && e.attrs.iter().any(|a| matches!(a.1, WVal::FileIndex(Some(_)))));
                want.retain(|x| x.0 != 0x10);
                got.retain(|a| {
                    if a.name().0 == 0x10 {
                        return false;
                    }
                    true
                });
                let has_stmt = entry.attrs().iter().any(|a| a.name().0 == 0x10);
                ensure_eq!(has_stmt, in_use, format!("{}/stmt_list/presence", tag), "unit {}", ui);
                if in_use {
                    ensure!(unit.line_program.is_some(), format!("{}/stmt_list/unparsable", tag), "unit {}", ui);
                }
            }
            ensure_eq!(got.iter().map(|a| a.name().0).collect::<Vec<_>>(), want.iter().map(|x| x.0).collect::<Vec<_>>(), format!("{}/attrs/names", tag), "unit {} entry {}", ui, ei);
            for (a, (name, wv)) in got.iter().zip(want.iter()) {
                let Some(wv) = wv else { continue };
                let gm = read_meaning(&dwarf, unit, a, &by_unit_off, &by_sec_off, ui);
                let wm = expected_meaning(*name, wv, ui, mu, m);
                if wm == "file-index" {
                    continue;
                }
                ensure_eq!(gm, wm, format!("{}/attrs/meaning", tag), "unit {} entry {} attribute {:#x} requested {:?}", ui, ei, name, wv);
                match wv {
                    WVal::Exprloc(ops) => {
                        let Some(e) = a.value().exprloc_value() else { fail!(format!("{}/attrs/exprloc-form", tag), "{:?}", crate::dieasm::canon_av(&a.raw_value())) };
                        check_expr_bytes(e.0.slice(), ops, ui, mu, m.big, &pos, tag)?;
                    }
                    WVal::RangeListRef(li) => {
                        let base = mu.low_pc().unwrap_or(0);
                        let wantr = resolve(&to_le_ranges(&mu.ranges[*li]), base, mu.address_size, &[]);
                        let mut it = match dwarf.attr_ranges(unit, a.value()) {
                            Ok(Some(it)) => it,
                            other => fail!(format!("{}/ranges/unresolvable", tag), "{:?}", other.map(|o| o.is_some())),
                        };
                        let Resolved::Ok(wr) = wantr else { fail!(format!("{}/harness", tag), "model range resolution failed") };
                        for (b, e, _) in &wr {
                            match it.next() {
                                Ok(Some(r)) => ensure_eq!((r.begin, r.end), (*b, *e), format!("{}/ranges/range", tag), "unit {} list {} = {:?} (unit base {:#x})", ui, li, mu.ranges[*li], base),
                                other => fail!(format!("{}/ranges/missing", tag), "unit {} list {}: expected [{:#x},{:#x}), got {:?}", ui, li, b, e, other),
                            }
                        }
                        match it.next() {
                            Ok(None) => {}
                            other => fail!(format!("{}/ranges/extra", tag), "unit {} list {} = {:?}: {:?}", ui, li, mu.ranges[*li], other),
                        }
                    }
                    WVal::LocationListRef(li) => {
                        let base = mu.low_pc().unwrap_or(0);
                        let l = &mu.locs[*li];
                        let le: Vec<(LE, Vec<u8>)> = l
                            .iter()
                            .enumerate()
                            .map(|(i, r)| {
                                (
                                    match r {
                                        WLoc::BaseAddress(a) => LE::BaseAddress(*a),
                                        WLoc::OffsetPair(b, e, _) => LE::OffsetPair(*b, *e),
                                        WLoc::StartEnd(b, e, _) => LE::StartEnd(*b, *e),
                                        WLoc::StartLength(b, l, _) => LE::StartLength(*b, *l),
                                        WLoc::DefaultLocation(_) => LE::DefaultLocation,
                                    },
                                    vec![i as u8],
                                )
                            })
                            .collect();
                        let Resolved::Ok(wr) = resolve(&le, base, mu.address_size, &[]) else { fail!(format!("{}/harness", tag), "model location resolution failed") };
                        let mut it = match dwarf.attr_locations(unit, a.value()) {
                            Ok(Some(it)) => it,
                            other => fail!(format!("{}/locations/unresolvable", tag), "{:?}", other.map(|o| o.is_some())),
                        };
                        for (b, e, idx) in &wr {
                            match it.next() {
                                Ok(Some(r)) => {
                                    ensure_eq!((r.range.begin, r.range.end), (*b, *e), format!("{}/locations/range", tag), "unit {} list {}", ui, li);
                                    let ops = match &l[idx[0] as usize] {
                                        WLoc::OffsetPair(_, _, d) | WLoc::StartEnd(_, _, d) | WLoc::StartLength(_, _, d) | WLoc::DefaultLocation(d) => d,
                                        _ => unreachable!(),
                                    };
                                    check_expr_bytes(r.data.0.slice(), ops, ui, mu, m.big, &pos, tag)?;
                                }
                                other => fail!(format!("{}/locations/missing", tag), "unit {} list {}: expected [{:#x},{:#x}), got {:?}", ui, li, b, e, other.map(|o| o.map(|x| x.range))),
                            }
                        }
                        match it.next() {
                            Ok(None) => {}
                            other => fail!(format!("{}/locations/extra", tag), "unit {} list {}: {:?}", ui, li, other.map(|o| o.map(|x| x.range))),
                        }
                    }
                    _ => {}
                }
            }
        }
    }
    Ok(())
}
