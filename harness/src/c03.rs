//! C03 — every attribute form decodes to its DWARF value; skipping equals reading.
use crate::core::*;
use crate::dieasm::*;
use crate::enc::Cfg;
use crate::{ensure, ensure_eq, fail};
use gimli::{DebugAbbrev, DebugInfo, EndianSlice, RunTimeEndian};

pub struct C03;

const NAME_POOL: [u16; 64] = [
    0x01, 0x02, 0x03, 0x09, 0x0b, 0x0c, 0x0d, 0x10, 0x11, 0x12, 0x13, 0x17, 0x19, 0x1c, 0x20, 0x22, 0x2a, 0x2c, 0x2e, 0x2f, 0x31, 0x32, 0x33, 0x36, 0x37, 0x38, 0x39, 0x3a, 0x3b, 0x3e, 0x40, 0x42, 0x43, 0x46, 0x48, 0x49, 0x4a, 0x4c, 0x4d, 0x4e, 0x50, 0x51, 0x55, 0x57, 0x58, 0x59, 0x5e, 0x65, 0x71, 0x72, 0x73, 0x74, 0x79, 0x7e, 0x8c, 0x2131, 0x2132, 0x2133, 0x2007, 0x3fff, 0x2119, 0x2137, 0x2111, 0x2134,
];

fn gen_payload(ch: &mut Choices, form: u16, cfg: &Cfg, depth: u32) -> AV {
    let bytes_of = |ch: &mut Choices, n: usize| -> Vec<u8> { (0..n).map(|i| (ch.u8() ^ i as u8) | if i % 7 == 3 { 0 } else { 1 }).collect() };
    match form {
        F_ADDR => AV::U(ch.biased(8 * cfg.address_size as u32)),
        F_BLOCK1 => {
            let n = ch.pick(&[0usize, 1, 2, 127, 128, 255]);
            AV::Bytes(bytes_of(ch, n))
        }
        F_BLOCK2 => {
            let n = ch.pick(&[0usize, 1, 255, 256, 300]);
            AV::Bytes(bytes_of(ch, n))
        }
        F_BLOCK4 => {
            let n = ch.pick(&[0usize, 2, 3, 300, 70000, 1]);
            AV::Bytes(bytes_of(ch, n))
        }
        F_BLOCK | F_EXPRLOC => {
            let n = ch.pick(&[0usize, 1, 127, 128, 300, 5]);
            AV::Bytes(bytes_of(ch, n))
        }
        F_STRING => {
            let n = ch.pick(&[0usize, 1, 3, 40, 300]);
            AV::Bytes((0..n).map(|_| 0x20 + ch.u8() % 0x5f).collect())
        }
        F_DATA1 | F_FLAG | F_STRX1 | F_REF1 | F_ADDRX1 => AV::U(ch.biased(8)),
        F_DATA2 | F_REF2 | F_ADDRX2 | F_STRX2 => AV::U(ch.biased(16)),
        F_ADDRX3 | F_STRX3 => AV::U(ch.biased(24)),
        F_DATA4 | F_REF_SUP4 | F_REF4 | F_STRX4 | F_ADDRX4 => AV::U(ch.biased(32)),
        F_DATA8 | F_REF8 | F_REF_SIG8 | F_REF_SUP8 => AV::U(ch.biased(64)),
        F_DATA16 => AV::U128(((ch.biased(64) as u128) << 64) | ch.biased(64) as u128),
        F_SDATA => AV::S(ch.biased_signed(64)),
        F_UDATA | F_REF_UDATA | F_STRX | F_ADDRX | F_LOCLISTX | F_RNGLISTX | F_GNU_ADDR_INDEX | F_GNU_STR_INDEX => AV::U(ch.biased(64)),
        F_SEC_OFFSET | F_GNU_REF_ALT | F_STRP | F_STRP_SUP | F_GNU_STRP_ALT | F_LINE_STRP => AV::U(ch.biased(8 * cfg.word() as u32)),
        F_REF_ADDR => AV::U(ch.biased(8 * if cfg.version == 2 { cfg.address_size as u32 } else { cfg.word() as u32 })),
        F_FLAG_PRESENT | F_IMPLICIT_CONST => AV::Nothing,
        F_INDIRECT => {
            // inner form: anything but implicit_const (invalid DWARF); nesting up to 3
            let mut f = ALL_FORMS[ch.below(ALL_FORMS.len())];
            while f == F_IMPLICIT_CONST || (f == F_INDIRECT && depth >= 2) {
                f = ALL_FORMS[ch.below(ALL_FORMS.len())];
            }
            AV::Indirect(f, Box::new(gen_payload(ch, f, cfg, depth + 1)))
        }
        _ => AV::Nothing,
    }
}

/// Which section-offset classes an attribute name may be normalised to (DWARF 5 table 7.5 and the GNU extensions).
/// Names not listed keep a plain section offset.
fn secoff_target_allowed(name: u16, target: &str) -> bool {
    match name {
        0x10 => target == "DebugLineRef",
        0x43 => target == "DebugMacinfoRef",
        0x79 | 0x2119 => target == "DebugMacroRef",
        0x55 | 0x2c => target == "RangeListsRef",
        0x72 => target == "DebugStrOffsetsBase",
        0x73 | 0x2133 => target == "DebugAddrBase",
        0x74 | 0x2132 => target == "DebugRngListsBase",
        0x8c => target == "DebugLocListsBase",
        // every other name that takes a section offset takes a location list
        _ => target == "LocationListsRef",
    }
}

pub struct AttrCase {
    pub cfg: Cfg,
    pub specs: Vec<(u16, u16, i64)>,
    pub vals: Vec<AV>,
    /// index of the first attribute with an unknown form, if any
    pub unknown_at: Option<usize>,
}

fn is_known_form(f: u16) -> bool {
    ALL_FORMS.contains(&f)
}

fn inner_has_unknown(v: &AV) -> bool {
    match v {
        AV::Indirect(f, inner) => !is_known_form(*f) || inner_has_unknown(inner),
        _ => false,
    }
}

pub fn check_attrs(c: &AttrCase, cx: &mut Ctx) -> R {
    let cfg = c.cfg;
    let unit = UnitSpec {
        cfg,
        kind: UnitKind::Compile,
        abbrevs: vec![Abbrev { code: 1, tag: 0x11, children: false, attrs: c.specs.clone() }],
        abbrev_group: 0,
        root: DieSpec { id: 0, abbrev: 0, vals: c.vals.clone(), children: vec![] },
        // (in half of the units the entry's last attribute is also the last byte of the unit)
        trailing_nulls: c.specs.len() % 2,
    };
    let built = build_info(std::slice::from_ref(&unit), false);
    let endian = cfg.endian();
    let di = DebugInfo::new(&built.info, endian);
    let da = DebugAbbrev::new(&built.abbrev, endian);
    let header = match di.units().next() {
        Ok(Some(h)) => h,
        other => fail!("c03/unit-header", "{:?}", other.map(|o| o.is_some())),
    };
    let abbrevs = header.abbreviations(&da).map_err(|e| Failure { sig: "c03/abbreviations".into(), detail: format!("{e:?}") })?;
    let rec = &built.units[0].entries[0];
    let decl = abbrevs.get(1).ok_or_else(|| Failure { sig: "c03/abbrev-missing".into(), detail: String::new() })?;
    let specs: Vec<gimli::AttributeSpecification> = decl.attributes().to_vec();
    ensure_eq!(specs.len(), c.specs.len(), "c03/abbrev-attr-count");
    for (i, s) in specs.iter().enumerate() {
        ensure_eq!((s.name().0, s.form().0), (c.specs[i].0, c.specs[i].1), "c03/abbrev-spec", "attribute {}", i);
        if c.specs[i].1 == F_IMPLICIT_CONST {
            ensure_eq!(s.implicit_const_value(), Some(c.specs[i].2), "c03/abbrev-implicit-const");
        }
        // (c) advertised fixed size
        let want = fixed_size(c.specs[i].1, &cfg);
        ensure_eq!(s.size(&header), want, "c03/spec-size", "form {:#x} under {}", c.specs[i].1, cfg.describe());
    }
    // (a) read attribute by attribute
    let mut raw = header.entries_raw(&abbrevs, None).map_err(|e| Failure { sig: "c03/entries_raw".into(), detail: format!("{e:?}") })?;
    ensure_eq!(raw.next_offset().0, rec.offset, "c03/root-offset");
    let ab = raw.read_abbreviation().map_err(|e| Failure { sig: "c03/read_abbreviation".into(), detail: format!("{e:?}") })?;
    ensure!(ab.is_some(), "c03/read_abbreviation/null", "root read as null");
    ensure_eq!(raw.next_offset().0, rec.attrs_at, "c03/after-code-offset");
    let n = c.unknown_at.unwrap_or(specs.len());
    let mut decoded: Vec<(String, String)> = Vec::new();
    for i in 0..specs.len() {
        let before = raw.next_offset().0;
        ensure_eq!(before, rec.attr_offsets[i], "c03/attr-start", "attribute {}", i);
        let res = raw.read_attribute(specs[i]);
        if i == n {
            match res {
                Err(gimli::Error::UnknownForm(_)) => break,
                other => fail!("c03/unknown-form-accepted", "attribute {} form {:#x} (value {:?}): {:?}", i, c.specs[i].1, c.vals[i], other.map(|a| canon_av(&a.raw_value()))),
            }
        }
        let attr = match res {
            Ok(a) => a,
            Err(e) => fail!("c03/read/rejected", "attribute {} name {:#x} form {:#x} value {:?} under {}: {:?}", i, c.specs[i].0, c.specs[i].1, c.vals[i], cfg.describe(), e),
        };
        let want = expected_raw(c.specs[i].0, c.specs[i].1, &c.vals[i], &cfg, c.specs[i].2).unwrap_or_default();
        let got = canon_av(&attr.raw_value());
        ensure_eq!(got, want, "c03/read/value", "attribute {} name {:#x} form {:#x} under {}", i, c.specs[i].0, c.specs[i].1, cfg.describe());
        ensure_eq!(attr.name().0, c.specs[i].0, "c03/read/name");
        ensure_eq!(attr.form().0, c.specs[i].1, "c03/read/form");
        let after = raw.next_offset().0;
        let end = rec.attr_offsets.get(i + 1).copied().unwrap_or(rec.end);
        ensure_eq!(after, end, "c03/read/advance", "attribute {} form {:#x}: encoded length {} bytes", i, c.specs[i].1, end - before);
        if let Some(sz) = fixed_size(c.specs[i].1, &cfg) {
            ensure_eq!(after - before, sz, "c03/read/fixed-size-vs-consumed", "form {:#x}", c.specs[i].1);
        }
        // zero-copy: blocks and strings view the section
        match attr.raw_value() {
            gimli::AttributeValue::Block(r) | gimli::AttributeValue::String(r) | gimli::AttributeValue::Exprloc(gimli::Expression(r)) => {
                let p = r.slice().as_ptr() as usize;
                let base = built.info.as_ptr() as usize;
                ensure!(p >= base + before && p + r.len() <= base + end, "c03/read/not-a-view", "attribute {}", i);
            }
            _ => {}
        }
        // (d) normalisation
        let val = canon_av(&attr.value());
        ensure!(normalisation_preserves(&got, &val), "c03/value/payload-changed", "name {:#x} form {:#x}: raw {} -> value {}", c.specs[i].0, c.specs[i].1, got, val);
        // a section offset may only be given the target section that the attribute name stands for
        if got.starts_with("SecOffset(") && val != got {
            let target = val.split('(').next().unwrap_or("");
            ensure!(secoff_target_allowed(c.specs[i].0, target), "c03/value/retargeted", "name {:#x}: the section offset {} was normalised to {}, which is not what this attribute refers to", c.specs[i].0, got, val);
        }
        if let Some(w) = expected_value(c.specs[i].0, &got) {
            ensure_eq!(val, w, "c03/value/class", "name {:#x} raw {}", c.specs[i].0, got);
        }
        // helper accessors agree with the raw value
        let (var, payload) = split_canon(&got);
        match var {
            "Data1" | "Data2" | "Data4" | "Data8" | "Udata" => {
                let v: u64 = payload.parse().unwrap();
                ensure_eq!(attr.udata_value(), Some(v), "c03/udata_value");
                let bits = match var {
                    "Data1" => 8,
                    "Data2" => 16,
                    "Data4" => 32,
                    _ => 64,
                };
                let sv = if var == "Udata" {
                    if v > i64::MAX as u64 {
                        None
                    } else {
                        Some(v as i64)
                    }
                } else {
                    let sh = 64 - bits;
                    Some(((v << sh) as i64) >> sh)
                };
                ensure_eq!(attr.sdata_value(), sv, "c03/sdata_value", "{}", got);
            }
            "Sdata" => {
                let v: i64 = payload.parse().unwrap();
                ensure_eq!(attr.sdata_value(), Some(v), "c03/sdata_value");
                ensure_eq!(attr.udata_value(), if v < 0 { None } else { Some(v as u64) }, "c03/udata_value");
            }
            "SecOffset" => {
                let v: usize = payload.parse().unwrap();
                ensure_eq!(attr.offset_value(), Some(v), "c03/offset_value");
            }
            _ => {}
        }
        // the narrow accessors are the wide one restricted to what fits; expressions and strings by form
        {
            let u = attr.udata_value();
            ensure_eq!(attr.u8_value(), u.and_then(|v| u8::try_from(v).ok()), "c03/u8_value", "{}", got);
            ensure_eq!(attr.u16_value(), u.and_then(|v| u16::try_from(v).ok()), "c03/u16_value", "{}", got);
            if !matches!(var, "Data1" | "Data2" | "Data4" | "Data8" | "Udata" | "Sdata") {
                ensure_eq!(u, None, "c03/udata_value/of-non-constant", "{}", got);
                ensure_eq!(attr.sdata_value(), None, "c03/sdata_value/of-non-constant", "{}", got);
            }
            if var != "SecOffset" {
                ensure_eq!(attr.offset_value(), None, "c03/offset_value/of-non-offset", "{}", got);
            }
            static STRS: [u8; 12] = *b"zero\0one\0two";
            static SUP_STRS: [u8; 8] = *b"su\0per\0\0";
            let (strs, sup_strs) = (&STRS, &SUP_STRS);
            let ds = gimli::DebugStr::new(&strs[..], endian);
            let dsup = gimli::DebugStr::new(&sup_strs[..], endian);
            let cstr_at = |t: &[u8], o: usize| -> Option<Vec<u8>> { t.get(o..).and_then(|r| r.iter().position(|b| *b == 0).map(|z| r[..z].to_vec())) };
            match attr.raw_value() {
                gimli::AttributeValue::Block(r) | gimli::AttributeValue::Exprloc(gimli::Expression(r)) => {
                    let e = attr.exprloc_value();
                    ensure!(e.as_ref().is_some_and(|e| e.0.slice() == r.slice() && e.0.slice().as_ptr() == r.slice().as_ptr()), "c03/exprloc_value", "{}", got);
                }
                _ => ensure!(attr.exprloc_value().is_none(), "c03/exprloc_value/of-non-block", "{}", got),
            }
            let want_plain: Option<Vec<u8>> = match attr.raw_value() {
                gimli::AttributeValue::String(r) => Some(r.slice().to_vec()),
                gimli::AttributeValue::DebugStrRef(o) => cstr_at(&strs[..], o.0),
                _ => None,
            };
            let want_sup: Option<Vec<u8>> = match attr.raw_value() {
                gimli::AttributeValue::DebugStrRefSup(o) => cstr_at(&sup_strs[..], o.0),
                _ => want_plain.clone(),
            };
            ensure_eq!(attr.string_value(&ds).map(|r| r.slice().to_vec()), want_plain, "c03/string_value", "{}", got);
            ensure_eq!(attr.string_value_sup(&ds, Some(&dsup)).map(|r| r.slice().to_vec()), want_sup, "c03/string_value_sup", "{}", got);
            let no_sup = if matches!(attr.raw_value(), gimli::AttributeValue::DebugStrRefSup(_)) { None } else { want_plain.clone() };
            ensure_eq!(attr.string_value_sup(&ds, None).map(|r| r.slice().to_vec()), no_sup, "c03/string_value_sup/no-sup", "{}", got);
        }
        decoded.push((got, val));
    }
    // (b) skipping equals reading, for every prefix split
    for split in 0..=specs.len().min(n) {
        let mut r2 = header.entries_raw(&abbrevs, None).map_err(|e| Failure { sig: "c03/entries_raw".into(), detail: format!("{e:?}") })?;
        r2.read_abbreviation().map_err(|e| Failure { sig: "c03/read_abbreviation".into(), detail: format!("{e:?}") })?;
        for s in specs.iter().take(split) {
            r2.read_attribute(*s).map_err(|e| Failure { sig: "c03/skip/reread".into(), detail: format!("{e:?}") })?;
        }
        let res = r2.skip_attributes(&specs[split..]);
        match (res, c.unknown_at) {
            (Err(gimli::Error::UnknownForm(_)), Some(_)) => {}
            (Ok(()), Some(k)) => fail!("c03/skip/unknown-form-accepted", "split {} unknown form at {}", split, k),
            (Err(e), _) => fail!("c03/skip/rejected", "split {}: {:?} (forms {:02x?})", split, e, c.specs.iter().map(|s| s.1).collect::<Vec<_>>()),
            (Ok(()), None) => {
                ensure_eq!(r2.next_offset().0, rec.end, "c03/skip/consumed", "read {} attributes then skipped the rest (forms {:02x?}, values {:?}) under {}", split, c.specs.iter().map(|s| s.1).collect::<Vec<_>>(), c.vals, cfg.describe());
            }
        }
    }
    // read_entry gives the same attributes
    if c.unknown_at.is_none() {
        let mut r3 = header.entries_raw(&abbrevs, None).map_err(|e| Failure { sig: "c03/entries_raw".into(), detail: format!("{e:?}") })?;
        let mut entry = gimli::DebuggingInformationEntry::null();
        let ok = r3.read_entry(&mut entry).map_err(|e| Failure { sig: "c03/read_entry/rejected".into(), detail: format!("{e:?}") })?;
        ensure!(ok, "c03/read_entry/null", "root read as null");
        ensure_eq!(r3.next_offset().0, rec.end, "c03/read_entry/advance");
        ensure_eq!(entry.attrs().len(), decoded.len(), "c03/read_entry/attr-count");
        for (i, a) in entry.attrs().iter().enumerate() {
            ensure_eq!(canon_av(&a.raw_value()), decoded[i].0, "c03/read_entry/value", "attribute {}", i);
        }
        // attr_value(name) returns the first attribute with that name, normalised
        for (i, (name, _, _)) in c.specs.iter().enumerate() {
            let first = c.specs.iter().position(|s| s.0 == *name).unwrap();
            if first == i {
                let got = entry.attr_value(gimli::DwAt(*name)).as_ref().map(canon_av);
                ensure_eq!(got, Some(decoded[i].1.clone()), "c03/attr_value", "name {:#x}", name);
                let got = entry.attr_value_raw(gimli::DwAt(*name)).as_ref().map(canon_av);
                ensure_eq!(got, Some(decoded[i].0.clone()), "c03/attr_value_raw", "name {:#x}", name);
            }
        }
        // the next entry is the trailing null
        if c.specs.len() % 2 == 1 {
            let ok = r3.read_entry(&mut entry).map_err(|e| Failure { sig: "c03/read_entry/trailing".into(), detail: format!("{e:?}") })?;
            ensure!(!ok && entry.is_null(), "c03/read_entry/trailing-not-null", "");
        } else {
            ensure!(r3.is_empty(), "c03/read_entry/input-left", "the entry was the last thing in the unit");
        }
    }
    Ok(())
}

fn sample_payloads(form: u16, cfg: &Cfg) -> Vec<AV> {
    // three deterministic payloads per form: small, sign/width boundary, large
    let mk = |bits: u32| -> Vec<AV> {
        let m = if bits >= 64 { u64::MAX } else { (1u64 << bits) - 1 };
        vec![AV::U(1), AV::U((m >> 1) + 1), AV::U(m)]
    };
    match form {
        F_ADDR => mk(8 * cfg.address_size as u32),
        F_BLOCK1 => vec![AV::Bytes(vec![]), AV::Bytes(vec![0x11; 128]), AV::Bytes(vec![0x91; 255])],
        F_BLOCK2 | F_BLOCK4 | F_BLOCK | F_EXPRLOC => vec![AV::Bytes(vec![]), AV::Bytes(vec![0x11; 127]), AV::Bytes(vec![0x91; 300])],
        F_STRING => vec![AV::Bytes(vec![]), AV::Bytes(b"x".to_vec()), AV::Bytes(vec![b'y'; 200])],
        F_DATA1 | F_FLAG | F_STRX1 | F_REF1 | F_ADDRX1 => mk(8),
        F_DATA2 | F_REF2 | F_ADDRX2 | F_STRX2 => mk(16),
        F_ADDRX3 | F_STRX3 => mk(24),
        F_DATA4 | F_REF_SUP4 | F_REF4 | F_STRX4 | F_ADDRX4 => mk(32),
        F_DATA8 | F_REF8 | F_REF_SIG8 | F_REF_SUP8 => mk(64),
        F_DATA16 => vec![AV::U128(1), AV::U128(1u128 << 127), AV::U128(0x0102030405060708090a0b0c0d0e0f10)],
        F_SDATA => vec![AV::S(-1), AV::S(i64::MIN), AV::S(64)],
        F_UDATA | F_REF_UDATA | F_STRX | F_ADDRX | F_LOCLISTX | F_RNGLISTX | F_GNU_ADDR_INDEX | F_GNU_STR_INDEX => vec![AV::U(0x7f), AV::U(0x80), AV::U(u64::MAX)],
        F_SEC_OFFSET | F_GNU_REF_ALT | F_STRP | F_STRP_SUP | F_GNU_STRP_ALT | F_LINE_STRP => mk(8 * cfg.word() as u32),
        F_REF_ADDR => mk(8 * if cfg.version == 2 { cfg.address_size as u32 } else { cfg.word() as u32 }),
        F_INDIRECT => vec![AV::Indirect(F_DATA2, Box::new(AV::U(0x8001))), AV::Indirect(F_INDIRECT, Box::new(AV::Indirect(F_UDATA, Box::new(AV::U(300))))), AV::Indirect(F_STRING, Box::new(AV::Bytes(b"ind".to_vec())))],
        _ => vec![AV::Nothing, AV::Nothing, AV::Nothing],
    }
}

impl Prop for C03 {
    fn id(&self) -> &'static str {
        "C03"
    }
    fn rule(&self) -> &'static str {
        "exhaustive: every form of DWARF 2-5 plus the GNU forms and DW_FORM_indirect (47) x {byte order, address size 1/2/4/8, 32/64-bit, version 2-5} x 3 boundary payloads x 4 neighbour contexts (fixed/variable-size form before and after) x 2 attribute names (one inside, one outside the legacy section-offset rule); random: entries with 1-12 attribute specifications over 60 attribute names (all names with a normalisation rule, the legacy section-offset names, vendor names) x all forms x boundary payloads (block lengths 0/1/127/128/255/300/70000, strings, multi-byte LEB128, sign boundaries), nested indirect <=3, implicit_const, occasional unknown forms. Oracle: form model (dieasm.rs): decoded raw value, advance = encoded length at every attribute, skip_attributes after reading i attributes for every i, advertised fixed size = consumed, name-based normalisation keeps the payload and lands in the class table. Non-trivial = >=3 attributes mixing fixed- and variable-size forms; distinct by choice string / enumeration index. Later additions: every numeric, expression and string accessor of an attribute against its raw value; units whose entry ends with the unit."
    }
    fn assumptions(&self) -> Vec<&'static str> {
        vec![
            "DW_FORM_indirect -> DW_FORM_implicit_const is invalid DWARF and is not generated",
            "unknown forms must be rejected with UnknownForm by both reading and skipping",
            "values are generated inside each form's width (well-formed attributes)",
        ]
    }
    fn max_len(&self) -> usize {
        300
    }
    fn cases(&self, tier: Tier, dev: bool) -> u64 {
        match (tier, dev) {
            (Tier::Quick, false) => 150_000,
            (Tier::Quick, true) => 15_000,
            (Tier::Thorough, false) => 6_000_000,
            (Tier::Thorough, true) => 500_000,
        }
    }
    fn run_case(&self, ch: &mut Choices, cx: &mut Ctx) -> R {
        let cfg = Cfg::decode(ch);
        let n = 1 + ch.below(12);
        let mut specs = Vec::new();
        let mut vals = Vec::new();
        let mut unknown_at = None;
        let (mut fixed, mut var) = (0, 0);
        for i in 0..n {
            // mostly the names with a rule; now and then any standard name (0x01..=0x8c) or a vendor name, so that every
            // arm of the name-based normalisation is reached (names without a rule must leave the value alone)
            let name = if ch.chance(56) { if ch.chance(200) { 1 + ch.below(0x8c) as u16 } else { 0x2000 + ch.below(0x1fff) as u16 } } else { NAME_POOL[ch.below(NAME_POOL.len())] };
            let form = if ch.chance(6) && unknown_at.is_none() {
                unknown_at = Some(i);
                ch.pick(&[0x02u16, 0x2d, 0x30, 0x1f00, 0x1f03, 0x1f22, 0xffff])
            } else {
                ALL_FORMS[ch.below(ALL_FORMS.len())]
            };
            let v = gen_payload(ch, form, &cfg, 0);
            if inner_has_unknown(&v) && unknown_at.is_none() {
                unknown_at = Some(i);
            }
            if fixed_size(form, &cfg).is_some() {
                fixed += 1;
            } else {
                var += 1;
            }
            specs.push((name, form, if form == F_IMPLICIT_CONST { ch.biased_signed(64) } else { 0 }));
            vals.push(v);
        }
        if n >= 3 && fixed >= 1 && var >= 1 {
            cx.nt();
        }
        if vals.iter().any(|v| matches!(v, AV::Indirect(..))) {
            cx.label("indirect");
        }
        if unknown_at.is_some() {
            cx.label("unknown-form");
        }
        if specs.iter().any(|s| (s.1 == F_DATA4 && !cfg.format64 || s.1 == F_DATA8 && cfg.format64) && (LEGACY_SECOFF_NAMES.contains(&s.0) || s.0 == AT_DATA_MEMBER_LOCATION && cfg.version <= 3)) {
            cx.label("legacy-sec-offset-rule");
        }
        let c = AttrCase { cfg, specs, vals, unknown_at };
        cx.sample_with(|| format!("{} specs(name,form)={:02x?} values={:?}", cfg.describe(), c.specs.iter().map(|s| (s.0, s.1)).collect::<Vec<_>>(), c.vals.iter().map(|v| if let AV::Bytes(b) = v { AV::Bytes(b[..b.len().min(8)].to_vec()) } else { v.clone() }).collect::<Vec<_>>()));
        check_attrs(&c, cx)
    }
    fn exhaustive(&self, _tier: Tier, _dev: bool, shard: usize, nshards: usize, ex: &mut Exhaust) {
        let mut total = 0u64;
        let mut idx = 0usize;
        for (fi, form) in ALL_FORMS.iter().enumerate() {
            for cfgi in 0..64u8 {
                idx += 1;
                if idx % nshards != shard {
                    continue;
                }
                let cfg = Cfg { big: cfgi & 1 != 0, runtime_endian: true, address_size: [1u8, 2, 4, 8][(cfgi >> 1 & 3) as usize], format64: cfgi & 8 != 0, version: 2 + (cfgi >> 4 & 3) as u16 };
                let payloads = sample_payloads(*form, &cfg);
                for (pi, p) in payloads.iter().enumerate() {
                    for ctx in 0..4u8 {
                        for name in [0x02u16, 0x03] {
                            let before = if ctx & 1 == 0 { (0x3bu16, F_DATA2, AV::U(0x1234)) } else { (0x3b, F_UDATA, AV::U(0x1234)) };
                            let after = if ctx & 2 == 0 { (0x39u16, F_DATA1, AV::U(0x7f)) } else { (0x39, F_SDATA, AV::S(-300)) };
                            let c = AttrCase {
                                cfg,
                                specs: vec![(before.0, before.1, 0), (name, *form, if *form == F_IMPLICIT_CONST { -42 - pi as i64 } else { 0 }), (after.0, after.1, 0)],
                                vals: vec![before.2.clone(), p.clone(), after.2.clone()],
                                unknown_at: None,
                            };
                            let mut cx = Ctx::new(ex.known, false, ex.dev);
                            let r = catch("enum-form", || check_attrs(&c, &mut cx)).and_then(|r| r);
                            total += 1;
                            if let Err(e) = r {
                                ex.fail("enum-form", &[fi as u8, cfgi, pi as u8, ctx, name as u8], e);
                                if ex.stop {
                                    return;
                                }
                            }
                        }
                    }
                }
            }
        }
        ex.tally(total, total, "exhaustive-form-x-cfg");
        ex.complete("47 forms x 64 configurations x 3 payloads x 4 neighbour contexts x 2 names");
        ex.sample("enumerated: [decl_line:data2, location:DW_FORM_ref_addr=0x8000, decl_column:sdata] under BE addr2 dwarf32 v2 (ref_addr has the address size)".to_string());
    }
    fn replay_special(&self, mode: &str, data: &[u8], cx: &mut Ctx) -> R {
        if mode != "enum-form" {
            fail!("replay/unknown-mode", "{}", mode);
        }
        let form = ALL_FORMS[data[0] as usize];
        let cfgi = data[1];
        let cfg = Cfg { big: cfgi & 1 != 0, runtime_endian: true, address_size: [1u8, 2, 4, 8][(cfgi >> 1 & 3) as usize], format64: cfgi & 8 != 0, version: 2 + (cfgi >> 4 & 3) as u16 };
        let p = sample_payloads(form, &cfg)[data[2] as usize].clone();
        let ctx = data[3];
        let before = if ctx & 1 == 0 { (0x3bu16, F_DATA2, AV::U(0x1234)) } else { (0x3b, F_UDATA, AV::U(0x1234)) };
        let after = if ctx & 2 == 0 { (0x39u16, F_DATA1, AV::U(0x7f)) } else { (0x39, F_SDATA, AV::S(-300)) };
        let c = AttrCase { cfg, specs: vec![(before.0, before.1, 0), (data[4] as u16, form, if form == F_IMPLICIT_CONST { -42 - data[2] as i64 } else { 0 }), (after.0, after.1, 0)], vals: vec![before.2, p, after.2], unknown_at: None };
        cx.say(|| format!("{} specs {:02x?} vals {:?}", cfg.describe(), c.specs, c.vals));
        check_attrs(&c, cx)
    }
}
