//! Assembler for complete, mutually consistent DWARF section sets (independent of gimli::write):
//! multi-unit .debug_info with every reference form, strings in three sections and through
//! .debug_str_offsets, addresses through .debug_addr, range/location lists in both generations of
//! section (by offset and by index), expressions that refer to entries, and line programs.
//! Used by the conversion checks (C12, C19) and the transparency checks (C18, C20).
#![allow(dead_code)]

use crate::c08::{encode_list, ListFmt, LE};
use crate::dieasm::*;
use crate::enc::{Cfg, W};
use crate::exprvm::{self, MOp};
use crate::linemodel::{build_line, LOp, LineHeader};
use std::collections::BTreeMap;

pub const AT_MARKER: u16 = 0x3fff;

/// A reference to an entry: (unit index, entry index within the unit).
pub type Target = (usize, usize);

#[derive(Clone, Debug, PartialEq)]
pub enum EOp {
    Plain(MOp),
    /// DW_OP_call2 / DW_OP_call4 (unit-relative)
    Call(Target, bool),
    CallRef(Target),
    ConstType(Target, Vec<u8>),
    RegvalType(u64, Target),
    DerefType(u8, Target),
    Convert(Option<Target>),
    Reinterpret(Option<Target>),
    ImplicitPointer(Target, i64),
    ParameterRef(Target),
    VariableValue(Target),
    EntryValue(Vec<EOp>),
    /// branch to operation index (len = end); true = DW_OP_bra
    Branch(usize, bool),
}

#[derive(Clone, Debug, PartialEq)]
pub enum StrForm {
    Inline,
    Strp,
    LineStrp,
    /// strx, strx1..4, GNU_str_index
    Strx(u16),
}

#[derive(Clone, Debug, PartialEq)]
pub enum FVal {
    Str(Vec<u8>, StrForm),
    /// value, None = DW_FORM_addr, Some(form) = indexed form
    Addr(u64, Option<u16>),
    /// form (data1/2/4/8, udata, sdata), value bits
    Const(u16, u64),
    ImplicitConst(i64),
    Data16(u128),
    Flag(bool),
    FlagPresent,
    Block(u16, Vec<u8>),
    /// target, form (ref1/2/4/8/udata/ref_addr)
    Ref(Target, u16),
    /// ops; true = exprloc, false = block1 (DWARF < 4)
    Expr(Vec<EOp>, bool),
    /// list index in the unit; true = by index form (rnglistx / loclistx)
    Ranges(usize, bool),
    Locs(usize, bool),
    FileIndex(u16, u64),
    RefSig8(u64),
}

#[derive(Clone, Debug)]
pub struct FDie {
    pub parent: usize,
    pub tag: u16,
    pub sibling: bool,
    pub attrs: Vec<(u16, FVal)>,
}

#[derive(Clone, Debug)]
pub struct FLine {
    pub h: LineHeader,
    pub ops: Vec<LOp>,
}

#[derive(Clone, Debug)]
pub struct FUnit {
    pub version: u16,
    pub format64: bool,
    pub address_size: u8,
    pub partial: bool,
    pub low_pc: Option<u64>,
    /// dies[0] is the root
    pub dies: Vec<FDie>,
    pub ranges: Vec<Vec<LE>>,
    pub locs: Vec<Vec<(LE, Vec<EOp>)>>,
    pub line: Option<FLine>,
    /// name / comp_dir of the unit (inline strings on the root)
    pub name: Vec<u8>,
    pub comp_dir: Vec<u8>,
    /// Some(dwo id): the unit is the full unit of a split compilation (a .dwo file): a split-compile unit header in
    /// DWARF 5 / DW_AT_GNU_dwo_id before; no base attributes and no DW_AT_low_pc on the root (they live on the skeleton
    /// unit of the main file); location lists of a pre-v5 unit in the GNU .debug_loc.dwo format
    pub split: Option<u64>,
}

#[derive(Clone, Debug)]
pub struct FDwarf {
    pub big: bool,
    pub units: Vec<FUnit>,
}

pub fn marker(t: Target) -> u64 {
    (t.0 as u64) * 1000 + t.1 as u64 + 1
}

fn die_id(t: Target) -> usize {
    t.0 * 100_000 + t.1
}

impl FUnit {
    pub fn cfg(&self, big: bool) -> Cfg {
        Cfg { big, runtime_endian: true, address_size: self.address_size, format64: self.format64, version: self.version }
    }
    pub fn children(&self, i: usize) -> Vec<usize> {
        (1..self.dies.len()).filter(|k| self.dies[*k].parent == i).collect()
    }
}

pub type Sections = BTreeMap<&'static str, Vec<u8>>;

pub struct Assembled {
    pub sections: Sections,
    /// (unit, entry) -> (unit-relative offset, section offset)
    pub positions: BTreeMap<Target, (usize, usize)>,
    pub unit_offsets: Vec<usize>,
    /// per unit: where its address table starts in .debug_addr (the value of DW_AT_addr_base)
    pub addr_bases: Vec<u64>,
}

struct Pools {
    strs: Vec<u8>,
    str_index: BTreeMap<Vec<u8>, u64>,
    line_strs: Vec<u8>,
    line_str_index: BTreeMap<Vec<u8>, u64>,
}

impl Pools {
    fn add(&mut self, s: &[u8], line: bool) -> u64 {
        let (buf, idx) = if line { (&mut self.line_strs, &mut self.line_str_index) } else { (&mut self.strs, &mut self.str_index) };
        if let Some(o) = idx.get(s) {
            return *o;
        }
        let o = buf.len() as u64;
        buf.extend_from_slice(s);
        buf.push(0);
        idx.insert(s.to_vec(), o);
        o
    }
}

/// Encode an expression. `pos`: positions of entries (None = first pass: zeros). All reference operands have fixed width.
pub fn encode_expr(ops: &[EOp], ui: usize, cfg: &Cfg, pos: Option<&BTreeMap<Target, (usize, usize)>>) -> Vec<u8> {
    let upos = |t: &Target| -> u64 { pos.and_then(|p| p.get(t)).map(|p| p.0 as u64).unwrap_or(0) };
    let spos = |t: &Target| -> u64 { pos.and_then(|p| p.get(t)).map(|p| p.1 as u64).unwrap_or(0) };
    let v5 = cfg.version >= 5;
    // two passes over the operations: sizes first (for branches)
    let enc_one = |op: &EOp, branch_disp: i16| -> Vec<u8> {
        let mut w = W::new(cfg.big);
        match op {
            EOp::Plain(m) => {
                exprvm::encode_op(m, cfg, &mut w);
            }
            EOp::Call(t, wide) => {
                debug_assert_eq!(t.0, ui);
                if *wide {
                    w.u8(0x99).u32(upos(t) as u32);
                } else {
                    w.u8(0x98).u16(upos(t) as u16);
                }
            }
            EOp::CallRef(t) => {
                w.u8(0x9a).word(spos(t), cfg.format64);
            }
            EOp::ConstType(t, b) => {
                w.u8(if v5 { 0xa4 } else { 0xf4 }).bytes(&uleb_fixed(upos(t), 3)).u8(b.len() as u8).bytes(b);
            }
            EOp::RegvalType(r, t) => {
                w.u8(if v5 { 0xa5 } else { 0xf5 }).uleb(*r).bytes(&uleb_fixed(upos(t), 3));
            }
            EOp::DerefType(s, t) => {
                w.u8(if v5 { 0xa6 } else { 0xf6 }).u8(*s).bytes(&uleb_fixed(upos(t), 3));
            }
            EOp::Convert(t) => {
                w.u8(if v5 { 0xa8 } else { 0xf7 }).bytes(&uleb_fixed(t.as_ref().map(&upos).unwrap_or(0), 3));
            }
            EOp::Reinterpret(t) => {
                w.u8(if v5 { 0xa9 } else { 0xf9 }).bytes(&uleb_fixed(t.as_ref().map(&upos).unwrap_or(0), 3));
            }
            EOp::ImplicitPointer(t, o) => {
                w.u8(if v5 { 0xa0 } else { 0xf2 });
                if cfg.version == 2 {
                    w.uint(spos(t), cfg.address_size);
                } else {
                    w.word(spos(t), cfg.format64);
                }
                w.sleb(*o);
            }
            EOp::ParameterRef(t) => {
                w.u8(0xfa).u32(upos(t) as u32);
            }
            EOp::VariableValue(t) => {
                w.u8(0xfd).word(spos(t), cfg.format64);
            }
            EOp::EntryValue(inner) => {
                let b = encode_expr(inner, ui, cfg, pos);
                w.u8(if v5 { 0xa3 } else { 0xf3 }).uleb(b.len() as u64).bytes(&b);
            }
            EOp::Branch(_, bra) => {
                w.u8(if *bra { 0x28 } else { 0x2f }).u16(branch_disp as u16);
            }
        }
        w.buf
    };
    // every operation encoded once (nested expressions would otherwise be encoded 2^depth times); only branches are
    // encoded again, with their displacement
    let first: Vec<Vec<u8>> = ops.iter().map(|o| enc_one(o, 0)).collect();
    let mut starts = vec![0usize];
    for b in &first {
        starts.push(starts.last().unwrap() + b.len());
    }
    let mut out = Vec::new();
    for (i, op) in ops.iter().enumerate() {
        match op {
            EOp::Branch(t, _) => {
                let disp = (starts[(*t).min(ops.len())] as i64 - starts[i + 1] as i64) as i16;
                out.extend(enc_one(op, disp));
            }
            _ => out.extend_from_slice(&first[i]),
        }
    }
    out
}

/// ULEB128 of exactly `width` bytes (over-long encoding; value must fit 7*width bits).
fn uleb_fixed(v: u64, width: usize) -> Vec<u8> {
    debug_assert!(v < 1 << (7 * width));
    (0..width).map(|i| ((v >> (7 * i)) & 0x7f) as u8 | if i + 1 < width { 0x80 } else { 0 }).collect()
}

fn strx_fits(form: u16, idx: u64) -> bool {
    match form {
        F_STRX1 | F_ADDRX1 => idx < 0x100,
        F_STRX2 | F_ADDRX2 => idx < 0x1_0000,
        F_STRX3 | F_ADDRX3 => idx < 0x100_0000,
        _ => true,
    }
}

/// Assemble all sections.
pub fn assemble(d: &FDwarf) -> Assembled {
    let mut pools = Pools { strs: vec![b'!', 0], str_index: BTreeMap::new(), line_strs: vec![b'?', 0], line_str_index: BTreeMap::new() };
    let big = d.big;
    // ---- per-unit side tables: string offsets, addresses
    let mut str_offsets = W::new(big);
    let mut addr = W::new(big);
    let mut str_tables: Vec<(u64, Vec<Vec<u8>>)> = Vec::new(); // (base, strings)
    let mut addr_tables: Vec<(u64, Vec<u64>)> = Vec::new();
    for u in &d.units {
        // collect indexed strings / addresses in order of first use
        let mut strs: Vec<Vec<u8>> = Vec::new();
        let mut addrs: Vec<u64> = Vec::new();
        for die in &u.dies {
            for (_, v) in &die.attrs {
                match v {
                    FVal::Str(s, StrForm::Strx(_)) if !strs.contains(s) => strs.push(s.clone()),
                    FVal::Addr(a, Some(_)) if !addrs.contains(a) => addrs.push(*a),
                    _ => {}
                }
            }
        }
        let mut scan_le = |e: &LE| match e {
            LE::BaseAddressx(i) | LE::StartxLength(i, _) => {
                while addrs.len() <= *i as usize {
                    addrs.push(0x7000 + addrs.len() as u64 * 0x10);
                }
            }
            LE::StartxEndx(i, j) => {
                while addrs.len() <= (*i).max(*j) as usize {
                    addrs.push(0x7000 + addrs.len() as u64 * 0x10);
                }
            }
            _ => {}
        };
        for l in &u.ranges {
            l.iter().for_each(&mut scan_le);
        }
        for l in &u.locs {
            l.iter().for_each(|x| scan_le(&x.0));
        }
        fn scan_ops(ops: &[EOp], addrs: &mut Vec<u64>) {
            for o in ops {
                match o {
                    EOp::Plain(MOp::Addrx(i, _)) | EOp::Plain(MOp::Constx(i, _)) => {
                        while addrs.len() <= *i as usize {
                            addrs.push(0x7000 + addrs.len() as u64 * 0x10);
                        }
                    }
                    EOp::EntryValue(inner) => scan_ops(inner, addrs),
                    _ => {}
                }
            }
        }
        for die in &u.dies {
            for (_, v) in &die.attrs {
                if let FVal::Expr(ops, _) = v {
                    scan_ops(ops, &mut addrs);
                }
            }
        }
        for l in &u.locs {
            for (_, ops) in l {
                scan_ops(ops, &mut addrs);
            }
        }
        // .debug_str_offsets contribution
        let cfg = u.cfg(big);
        let sbase;
        if u.version >= 5 {
            let tok = str_offsets.begin_length(u.format64);
            str_offsets.u16(5).u16(0);
            sbase = str_offsets.len() as u64;
            for s in &strs {
                let o = pools.add(s, false);
                str_offsets.word(o, u.format64);
            }
            str_offsets.end_length(tok);
        } else {
            sbase = str_offsets.len() as u64;
            for s in &strs {
                let o = pools.add(s, false);
                str_offsets.word(o, u.format64);
            }
        }
        str_tables.push((sbase, strs));
        let abase;
        if u.version >= 5 {
            let tok = addr.begin_length(u.format64);
            addr.u16(5).u8(u.address_size).u8(0);
            abase = addr.len() as u64;
            for a in &addrs {
                addr.uint(*a, u.address_size);
            }
            addr.end_length(tok);
        } else {
            abase = addr.len() as u64;
            for a in &addrs {
                addr.uint(*a, u.address_size);
            }
        }
        let _ = cfg;
        addr_tables.push((abase, addrs));
    }
    // ---- line programs
    let mut line = W::new(big);
    let mut line_offsets: Vec<Option<u64>> = Vec::new();
    for u in &d.units {
        match &u.line {
            Some(l) => {
                line_offsets.push(Some(line.len() as u64));
                let mut pw = W::new(big);
                for op in &l.ops {
                    crate::linemodel::encode_lop(op, &l.h, &mut pw);
                }
                let (bytes, _) = build_line(&l.h, big, &pw.buf);
                line.bytes(&bytes);
            }
            None => line_offsets.push(None),
        }
    }
    // ---- lists and .debug_info: two passes (entry positions feed expression operands; all operand widths are fixed)
    let mut positions: Option<BTreeMap<Target, (usize, usize)>> = None;
    let mut result: Option<(BuiltInfo, Sections)> = None;
    for _pass in 0..2 {
        let mut ranges_old = W::new(big);
        let mut rnglists = W::new(big);
        let mut loc_old = W::new(big);
        let mut loclists = W::new(big);
        // per unit: list offsets (absolute section offsets), and bases for indexed forms
        let mut range_offs: Vec<Vec<u64>> = Vec::new();
        let mut loc_offs: Vec<Vec<u64>> = Vec::new();
        let mut rng_bases: Vec<u64> = Vec::new();
        let mut loc_bases: Vec<u64> = Vec::new();
        for (ui, u) in d.units.iter().enumerate() {
            let cfg = u.cfg(big);
            let word = if u.format64 { 8 } else { 4 };
            if u.version >= 5 {
                // rnglists table with an offset array
                let mut offs = Vec::new();
                let mut base = 0;
                if !u.ranges.is_empty() {
                    let tok = rnglists.begin_length(u.format64);
                    rnglists.u16(5).u8(u.address_size).u8(0).u32(u.ranges.len() as u32);
                    base = rnglists.len() as u64;
                    let table_at = rnglists.len();
                    for _ in &u.ranges {
                        rnglists.word(0, u.format64);
                    }
                    for (i, l) in u.ranges.iter().enumerate() {
                        let o = rnglists.len() as u64;
                        offs.push(o);
                        rnglists.patch(table_at + i * word, o - base, word as u8);
                        let le: Vec<(LE, Vec<u8>)> = l.iter().map(|e| (e.clone(), Vec::new())).collect();
                        encode_list(&le, ListFmt::V5, false, &cfg, &mut rnglists);
                    }
                    rnglists.end_length(tok);
                }
                range_offs.push(offs);
                rng_bases.push(base);
                let mut offs = Vec::new();
                let mut base = 0;
                if !u.locs.is_empty() {
                    let tok = loclists.begin_length(u.format64);
                    loclists.u16(5).u8(u.address_size).u8(0).u32(u.locs.len() as u32);
                    base = loclists.len() as u64;
                    let table_at = loclists.len();
                    for _ in &u.locs {
                        loclists.word(0, u.format64);
                    }
                    for (i, l) in u.locs.iter().enumerate() {
                        let o = loclists.len() as u64;
                        offs.push(o);
                        loclists.patch(table_at + i * word, o - base, word as u8);
                        let le: Vec<(LE, Vec<u8>)> = l.iter().map(|(e, ops)| (e.clone(), encode_expr(ops, ui, &cfg, positions.as_ref()))).collect();
                        encode_list(&le, ListFmt::V5, true, &cfg, &mut loclists);
                    }
                    loclists.end_length(tok);
                }
                loc_offs.push(offs);
                loc_bases.push(base);
            } else {
                let mut offs = Vec::new();
                for l in &u.ranges {
                    offs.push(ranges_old.len() as u64);
                    let le: Vec<(LE, Vec<u8>)> = l.iter().map(|e| (e.clone(), Vec::new())).collect();
                    encode_list(&le, ListFmt::Legacy, false, &cfg, &mut ranges_old);
                }
                range_offs.push(offs);
                rng_bases.push(0);
                let mut offs = Vec::new();
                for l in &u.locs {
                    offs.push(loc_old.len() as u64);
                    let le: Vec<(LE, Vec<u8>)> = l.iter().map(|(e, ops)| (e.clone(), encode_expr(ops, ui, &cfg, positions.as_ref()))).collect();
                    encode_list(&le, if u.split.is_some() { ListFmt::GnuDwoLoc } else { ListFmt::Legacy }, true, &cfg, &mut loc_old);
                }
                loc_offs.push(offs);
                loc_bases.push(0);
            }
        }
        // ---- units
        let mut specs: Vec<UnitSpec> = Vec::new();
        for (ui, u) in d.units.iter().enumerate() {
            let cfg = u.cfg(big);
            let secoff_form = if u.version >= 4 {
                F_SEC_OFFSET
            } else if u.format64 {
                F_DATA8
            } else {
                F_DATA4
            };
            let mut abbrevs: Vec<Abbrev> = Vec::new();
            fn build(u: &FUnit, ui: usize, i: usize, abbrevs: &mut Vec<Abbrev>, ctx: &mut dyn FnMut(usize, &FDie) -> Vec<(u16, u16, i64, AV)>) -> DieSpec {
                let die = &u.dies[i];
                let kids = u.children(i);
                let mut attrs = Vec::new();
                let mut vals = Vec::new();
                if die.sibling && !kids.is_empty() {
                    attrs.push((0x01, F_REF4, 0));
                    vals.push(AV::Sibling);
                }
                for (n, f, ic, v) in ctx(i, die) {
                    attrs.push((n, f, ic));
                    vals.push(v);
                }
                let code = abbrevs.len() as u64 + 1;
                abbrevs.push(Abbrev { code, tag: if i == 0 { if u.partial { 0x3c } else { 0x11 } } else { die.tag }, children: !kids.is_empty(), attrs });
                let idx = abbrevs.len() - 1;
                let children = kids.iter().map(|k| build(u, ui, *k, abbrevs, ctx)).collect();
                DieSpec { id: die_id((ui, i)), abbrev: idx, vals, children }
            }
            let (sbase, strs) = &str_tables[ui];
            let (abase, addrs) = &addr_tables[ui];
            let pos_ref = positions.as_ref();
            let mut ctx = |i: usize, die: &FDie| -> Vec<(u16, u16, i64, AV)> {
                let mut out: Vec<(u16, u16, i64, AV)> = Vec::new();
                out.push((AT_MARKER, F_UDATA, 0, AV::U(marker((ui, i)))));
                if i == 0 {
                    out.push((0x03, F_STRING, 0, AV::Bytes(u.name.clone())));
                    out.push((0x1b, F_STRING, 0, AV::Bytes(u.comp_dir.clone())));
                    if let (Some(id), true) = (u.split, u.version < 5) {
                        out.push((0x2131, F_DATA8, 0, AV::U(id)));
                    }
                    if let (Some(lp), None) = (u.low_pc, u.split) {
                        out.push((0x11, F_ADDR, 0, AV::U(lp)));
                    }
                    if let Some(lo) = line_offsets[ui] {
                        out.push((0x10, secoff_form, 0, AV::U(lo)));
                    }
                    if u.split.is_some() {
                        // the bases are implicit in a .dwo file (or come from the skeleton unit)
                    } else if !strs.is_empty() {
                        out.push((if u.version >= 5 { 0x72 } else { 0x72 }, secoff_form, 0, AV::U(*sbase)));
                    }
                    if u.split.is_none() && !addrs.is_empty() {
                        out.push((if u.version >= 5 { 0x73 } else { 0x2133 }, secoff_form, 0, AV::U(*abase)));
                    }
                    if u.split.is_none() && u.version >= 5 && !u.ranges.is_empty() {
                        out.push((0x74, secoff_form, 0, AV::U(rng_bases[ui])));
                    }
                    if u.split.is_none() && u.version >= 5 && !u.locs.is_empty() {
                        out.push((0x8c, secoff_form, 0, AV::U(loc_bases[ui])));
                    }
                }
                for (name, v) in &die.attrs {
                    let (form, ic, av) = match v {
                        FVal::Str(s, StrForm::Inline) => (F_STRING, 0, AV::Bytes(s.clone())),
                        FVal::Str(s, StrForm::Strp) => (F_STRP, 0, AV::U(pools_add(&mut pools, s, false))),
                        FVal::Str(s, StrForm::LineStrp) => (F_LINE_STRP, 0, AV::U(pools_add(&mut pools, s, true))),
                        FVal::Str(s, StrForm::Strx(f)) => {
                            let idx = strs.iter().position(|x| x == s).unwrap() as u64;
                            (if strx_fits(*f, idx) { *f } else { F_STRX }, 0, AV::U(idx))
                        }
                        FVal::Addr(a, None) => (F_ADDR, 0, AV::U(*a)),
                        FVal::Addr(a, Some(f)) => {
                            let idx = addrs.iter().position(|x| x == a).unwrap() as u64;
                            (if strx_fits(*f, idx) { *f } else { F_ADDRX }, 0, AV::U(idx))
                        }
                        FVal::Const(f, x) => (*f, 0, if *f == F_SDATA { AV::S(*x as i64) } else { AV::U(*x) }),
                        FVal::ImplicitConst(x) => (F_IMPLICIT_CONST, *x, AV::Nothing),
                        FVal::Data16(x) => (F_DATA16, 0, AV::U128(*x)),
                        FVal::Flag(b) => (F_FLAG, 0, AV::U(*b as u64)),
                        FVal::FlagPresent => (F_FLAG_PRESENT, 0, AV::Nothing),
                        FVal::Block(f, b) => (*f, 0, AV::Bytes(b.clone())),
                        FVal::Ref(t, f) => (*f, 0, AV::Ref(die_id(*t))),
                        FVal::Expr(ops, exprloc) => (if *exprloc { F_EXPRLOC } else { F_BLOCK1 }, 0, AV::Bytes(encode_expr(ops, ui, &cfg, pos_ref))),
                        FVal::Ranges(li, indexed) => {
                            if *indexed && u.version >= 5 {
                                (F_RNGLISTX, 0, AV::U(*li as u64))
                            } else {
                                (secoff_form, 0, AV::U(range_offs[ui][*li]))
                            }
                        }
                        FVal::Locs(li, indexed) => {
                            if *indexed && u.version >= 5 {
                                (F_LOCLISTX, 0, AV::U(*li as u64))
                            } else {
                                (secoff_form, 0, AV::U(loc_offs[ui][*li]))
                            }
                        }
                        // gcc emits DW_AT_decl_file as DW_FORM_implicit_const in DWARF 5
                        FVal::FileIndex(f, x) if *f == F_IMPLICIT_CONST => (F_IMPLICIT_CONST, *x as i64, AV::Nothing),
                        FVal::FileIndex(f, x) => (*f, 0, AV::U(*x)),
                        FVal::RefSig8(x) => (F_REF_SIG8, 0, AV::U(*x)),
                    };
                    out.push((*name, form, ic, av));
                }
                out
            };
            let root = build(u, ui, 0, &mut abbrevs, &mut ctx);
            let kind = match (u.split, u.version >= 5) {
                (Some(id), true) => UnitKind::SplitCompile(id),
                _ if u.partial => UnitKind::Partial,
                _ => UnitKind::Compile,
            };
            specs.push(UnitSpec { cfg, kind, abbrevs, abbrev_group: ui, root, trailing_nulls: 0 });
        }
        let built = build_info(&specs, false);
        let mut pos: BTreeMap<Target, (usize, usize)> = BTreeMap::new();
        for (ui, u) in d.units.iter().enumerate() {
            for i in 0..u.dies.len() {
                if let Some((bu, off)) = built.die_pos.get(&die_id((ui, i))) {
                    pos.insert((ui, i), (*off, built.units[*bu].offset + *off));
                }
            }
        }
        let mut sections: Sections = BTreeMap::new();
        sections.insert(".debug_ranges", ranges_old.buf);
        sections.insert(".debug_rnglists", rnglists.buf);
        sections.insert(".debug_loc", loc_old.buf);
        sections.insert(".debug_loclists", loclists.buf);
        if let Some(prev) = &positions {
            debug_assert_eq!(prev, &pos, "layout must be stable between passes");
        }
        positions = Some(pos);
        result = Some((built, sections));
    }
    let (built, mut sections) = result.unwrap();
    sections.insert(".debug_info", built.info.clone());
    sections.insert(".debug_abbrev", built.abbrev.clone());
    sections.insert(".debug_str", pools.strs);
    sections.insert(".debug_line_str", pools.line_strs);
    sections.insert(".debug_str_offsets", str_offsets.buf);
    sections.insert(".debug_addr", addr.buf);
    sections.insert(".debug_line", line.buf);
    let unit_offsets = built.units.iter().map(|u| u.offset).collect();
    Assembled { sections, positions: positions.unwrap(), unit_offsets, addr_bases: addr_tables.iter().map(|t| t.0).collect() }
}

/// The two files of a split compilation: `d` holds exactly one unit with `split = Some(dwo id)`.
/// Returns (sections of the main file with the skeleton unit, sections of the .dwo file under their plain names).
/// The main file carries .debug_addr and, before DWARF 5, .debug_ranges (behind `ranges_pad` bytes, the value of
/// DW_AT_GNU_ranges_base); everything else stays in the .dwo file.
pub fn assemble_split(d: &FDwarf, ranges_pad: usize) -> (Sections, Sections, Assembled) {
    assert!(d.units.len() == 1 && d.units[0].split.is_some());
    let u = &d.units[0];
    let id = u.split.unwrap();
    let asm = assemble(d);
    let mut dwo = asm.sections.clone();
    let mut main: Sections = BTreeMap::new();
    main.insert(".debug_addr", dwo.remove(".debug_addr").unwrap_or_default());
    let v5 = u.version >= 5;
    if !v5 {
        let mut r = vec![0x5au8; ranges_pad];
        r.extend_from_slice(&dwo.remove(".debug_ranges").unwrap_or_default());
        main.insert(".debug_ranges", r);
    }
    // the skeleton unit
    let cfg = u.cfg(d.big);
    let secoff_form = if u.version >= 4 {
        F_SEC_OFFSET
    } else if u.format64 {
        F_DATA8
    } else {
        F_DATA4
    };
    let mut attrs: Vec<(u16, u16, i64)> = Vec::new();
    let mut vals: Vec<AV> = Vec::new();
    attrs.push((if v5 { 0x76 } else { 0x2130 }, F_STRING, 0));
    vals.push(AV::Bytes(b"unit.dwo".to_vec()));
    attrs.push((0x1b, F_STRING, 0));
    vals.push(AV::Bytes(u.comp_dir.clone()));
    if !v5 {
        attrs.push((0x2131, F_DATA8, 0));
        vals.push(AV::U(id));
        attrs.push((0x2132, secoff_form, 0));
        vals.push(AV::U(ranges_pad as u64));
    }
    attrs.push((if v5 { 0x73 } else { 0x2133 }, secoff_form, 0));
    vals.push(AV::U(asm.addr_bases[0]));
    if let Some(lp) = u.low_pc {
        attrs.push((0x11, F_ADDR, 0));
        vals.push(AV::U(lp));
    }
    let abbrevs = vec![Abbrev { code: 1, tag: if v5 { 0x4a } else { 0x11 }, children: false, attrs }];
    let spec = UnitSpec { cfg, kind: if v5 { UnitKind::Skeleton(id) } else { UnitKind::Compile }, abbrevs, abbrev_group: 0, root: DieSpec { id: 0, abbrev: 0, vals, children: vec![] }, trailing_nulls: 0 };
    let built = build_info(std::slice::from_ref(&spec), false);
    main.insert(".debug_info", built.info);
    main.insert(".debug_abbrev", built.abbrev);
    (main, dwo, asm)
}

fn pools_add(p: &mut Pools, s: &[u8], line: bool) -> u64 {
    p.add(s, line)
}

// ---------------------------------------------------------------------------
// generator
// ---------------------------------------------------------------------------

use crate::core::Choices;

pub struct GenOpts {
    pub max_units: usize,
    pub max_dies: usize,
    /// include line programs and file index attributes
    pub lines: bool,
    /// probability (out of 256) that a reference points out of bounds / to a non-entry
    pub bad_refs: u32,
    /// one unit that is the full unit of a split compilation (see FUnit::split)
    pub split: bool,
}

pub const TAGS: [u16; 16] = [0x39, 0x13, 0x24, 0x0f, 0x16, 0x2e, 0x34, 0x05, 0x0d, 0x0b, 0x28, 0x04, 0x1d, 0x48, 0x08, 0x2e];

fn gen_name(ch: &mut Choices) -> Vec<u8> {
    const POOL: [&[u8]; 6] = [b"int", b"main", b"x", b"a_rather_long_identifier_name_for_a_type", b"ns", b"T"];
    if ch.chance(200) {
        POOL[ch.below(POOL.len())].to_vec()
    } else {
        let n = 1 + ch.below(10);
        (0..n).map(|_| b'a' + ch.u8() % 26).collect()
    }
}

fn gen_plain_ops(ch: &mut Choices, cfg: &Cfg, n: usize) -> Vec<EOp> {
    (0..n)
        .map(|_| {
            EOp::Plain(match ch.below(14) {
                0 => MOp::Lit(ch.below(32) as u8),
                1 => MOp::Const(8, ch.pick(&[0u64, 31, 32, 127, 128, 1 << 40])),
                2 => MOp::Const(9, ch.pick(&[-1i64, 63, 64, -65]) as u64),
                3 => MOp::Breg(ch.below(32) as u8, ch.range(-300, 300)),
                4 => MOp::Bregx(ch.pick(&[0u64, 31, 32, 1000]), ch.range(-9, 9)),
                5 => MOp::Fbreg(ch.range(-5000, 5000)),
                6 => MOp::PlusUconst(ch.biased(20)),
                7 => MOp::Plus,
                8 => MOp::Dup,
                9 => MOp::Addr(0x1000 + ch.below(0x1000) as u64),
                10 => MOp::Reg(ch.below(32) as u8),
                11 => MOp::Piece(ch.pick(&[1u64, 4, 8, 200])),
                12 => MOp::StackValue,
                13 if ch.chance(190) => {
                    // every operation without an operand, and the remaining operand kinds: a converter handles each
                    // of them in its own arm
                    const SIMPLE: [MOp; 37] = [
                        MOp::Drop, MOp::Over, MOp::Swap, MOp::Rot, MOp::Abs, MOp::And, MOp::Div, MOp::Minus, MOp::Mod, MOp::Mul, MOp::Neg, MOp::Not, MOp::Or, MOp::Shl, MOp::Shr, MOp::Shra, MOp::Xor, MOp::Eq, MOp::Ge, MOp::Gt, MOp::Le, MOp::Lt, MOp::Ne,
                        MOp::Nop, MOp::PushObjectAddress, MOp::CallFrameCfa, MOp::Tls(false), MOp::XDeref, MOp::Deref, MOp::Uninit, MOp::Pick(0), MOp::Pick(1), MOp::Pick(7), MOp::DerefSize(4), MOp::XDerefSize(2), MOp::Regx(40), MOp::BitPiece(12, 3),
                    ];
                    match ch.below(6) {
                        0 => MOp::ImplicitValue(ch.bytes(3)),
                        1 => MOp::Wasm(ch.below(3) as u8, ch.u32()),
                        _ => SIMPLE[ch.below(SIMPLE.len())].clone(),
                    }
                }
                _ => {
                    if cfg.version >= 5 && ch.bool() {
                        if ch.bool() {
                            MOp::Addrx(ch.below(3) as u64, false)
                        } else {
                            MOp::Constx(ch.below(3) as u64, false)
                        }
                    } else {
                        MOp::Deref
                    }
                }
            })
        })
        .collect()
}

/// Expression with entry references; `pick` chooses targets.
pub fn gen_ref_expr(ch: &mut Choices, cfg: &Cfg, ui: usize, same_unit: &mut dyn FnMut(&mut Choices) -> Target, any_unit: &mut dyn FnMut(&mut Choices) -> Target, depth: u32) -> Vec<EOp> {
    let n = 1 + ch.below(4);
    let mut v = gen_plain_ops(ch, cfg, n);
    let k = ch.below(3);
    for _ in 0..k {
        let at = ch.below(v.len() + 1);
        let op = match ch.below(12) {
            11 => EOp::VariableValue(any_unit(ch)),
            0 => EOp::Call(same_unit(ch), true),
            1 => EOp::Call(same_unit(ch), false),
            2 => EOp::CallRef(any_unit(ch)),
            3 => EOp::ConstType(same_unit(ch), vec![1, 2, 3, 4]),
            4 => EOp::RegvalType(ch.below(40) as u64, same_unit(ch)),
            5 => EOp::DerefType(4, same_unit(ch)),
            6 => EOp::Convert(if ch.bool() { Some(same_unit(ch)) } else { None }),
            7 => EOp::ImplicitPointer(any_unit(ch), ch.range(-4, 40)),
            8 => EOp::ParameterRef(same_unit(ch)),
            9 if depth < 2 => EOp::EntryValue(gen_ref_expr(ch, cfg, ui, same_unit, any_unit, depth + 1)),
            _ => EOp::Reinterpret(if ch.bool() { Some(same_unit(ch)) } else { None }),
        };
        v.insert(at, op);
    }
    if ch.chance(60) {
        let at = ch.below(v.len());
        let target = ch.below(v.len() + 2);
        v.insert(at, EOp::Branch(target, ch.bool()));
    }
    v
}

pub fn gen_fdwarf(ch: &mut Choices, o: &GenOpts) -> FDwarf {
    let big = ch.bool();
    let nunits = 1 + ch.below(o.max_units);
    let counts: Vec<usize> = (0..nunits).map(|_| 1 + ch.count(o.max_dies - 1)).collect();
    let mut units = Vec::new();
    for ui in 0..nunits {
        let version = if o.split { ch.pick(&[4u16, 5, 5, 4]) } else { ch.pick(&[4u16, 5, 5, 3, 2, 4]) };
        let format64 = ch.chance(50);
        let address_size = ch.pick(&[8u8, 4]);
        let cfg = Cfg { big, runtime_endian: true, address_size, format64, version };
        let n = counts[ui];
        let low_pc = match ch.below(3) {
            0 => None,
            1 => Some(0),
            _ => Some(0x10_0000 + ch.below(16) as u64 * 0x1000),
        };
        // lists
        let nr = ch.below(3);
        let nl = ch.below(3);
        let has_base = matches!(low_pc, Some(b) if b != 0);
        let mut ranges = Vec::new();
        for _ in 0..nr {
            ranges.push(gen_list(ch, version, has_base, false).into_iter().map(|x| x.0).collect::<Vec<_>>());
        }
        let counts_c = counts.clone();
        let mut same = |ch: &mut Choices| -> Target { (ui, ch.below(n)) };
        let mut any = |ch: &mut Choices| -> Target {
            let u = ch.below(nunits);
            (u, ch.below(counts_c[u]))
        };
        let mut locs = Vec::new();
        for _ in 0..nl {
            // pre-v5 split units use the DW_LLE kinds (GNU .debug_loc.dwo format), without default locations
            let l = if o.split && version < 5 { gen_list(ch, 5, has_base, true).into_iter().filter(|e| e.0 != LE::DefaultLocation).collect() } else { gen_list(ch, version, has_base, true) };
            let mut out = Vec::new();
            for (e, has_data) in l {
                let ops = if has_data { gen_ref_expr(ch, &cfg, ui, &mut same, &mut any, 0) } else { Vec::new() };
                out.push((e, ops));
            }
            locs.push(out);
        }
        // line program (tame)
        let line = if o.lines && ch.chance(170) {
            let mut h = crate::c04::gen_header(ch);
            h.version = version.max(2);
            h.format64 = format64;
            h.address_size = address_size;
            // a plain header: the exotic ones are exercised by the line part
            h.min_inst_len = 1;
            h.max_ops = 1;
            h.line_base = -5;
            h.line_range = 14;
            h.opcode_base = 13;
            h.std_lengths = crate::linemodel::STD_LENGTHS.to_vec();
            h.header_pad = Vec::new();
            h.dirs = (0..2).map(|i| crate::linemodel::PathVal::Inline(vec![b'd', b'0' + i])).collect();
            h.dir_format = vec![(1, 0x08)];
            h.file_format = vec![(1, 0x08), (2, 0x0f)];
            let nf = 2 + ch.below(3);
            h.files = (0..nf).map(|i| crate::linemodel::FileSpec { path: crate::linemodel::PathVal::Inline(vec![b'f', b'0' + i as u8]), dir: ch.below(2) as u64, mtime: 0, size: 0, md5: [0; 16], source: None }).collect();
            // compilers repeat the primary source file as file 0 and file 1 in DWARF 5: the writer folds them into
            // one entry, so every later file index changes
            if version >= 5 && ch.chance(128) {
                h.files[1] = h.files[0].clone();
            }
            let mut ops = Vec::new();
            if ch.chance(200) {
                ops.push(LOp::SetAddress(0x2000, 0));
                for _ in 0..1 + ch.below(4) {
                    ops.push(LOp::Special(13 + ch.below(200) as u8));
                }
                ops.push(LOp::AdvancePc(4));
                ops.push(LOp::EndSequence(0));
            }
            Some(FLine { h, ops })
        } else {
            None
        };
        let nfiles = line.as_ref().map(|l| l.h.files.len()).unwrap_or(0);
        // entries
        let mut dies = vec![FDie { parent: 0, tag: 0x11, sibling: false, attrs: Vec::new() }];
        for i in 1..n {
            let parent = if ch.chance(120) { 0 } else { ch.below(i) };
            dies.push(FDie { parent, tag: TAGS[ch.below(TAGS.len())], sibling: ch.chance(50), attrs: Vec::new() });
        }
        for i in 0..n {
            let na = ch.below(5);
            let mut attrs: Vec<(u16, FVal)> = Vec::new();
            for _ in 0..na {
                let sform = |ch: &mut Choices| -> StrForm {
                    match ch.below(6) {
                        0 | 1 => StrForm::Inline,
                        2 => StrForm::Strp,
                        3 if !o.split => StrForm::Strp,
                        4 if version >= 5 && !o.split => StrForm::LineStrp,
                        _ => {
                            if version < 5 && o.split {
                                StrForm::Strx(F_GNU_STR_INDEX)
                            } else if version >= 5 {
                                StrForm::Strx(ch.pick(&[F_STRX, F_STRX1, F_STRX2, F_STRX3, F_STRX4]))
                            } else {
                                // before DWARF 5 string indices only occur in split units (no base attribute): not generated here
                                StrForm::Strp
                            }
                        }
                    }
                };
                let in_unit_form = |ch: &mut Choices, t: usize| -> u16 {
                    match ch.below(8) {
                        0 if t <= 1 => F_REF1,
                        1 | 2 => F_REF2,
                        3 => F_REF8,
                        4 => F_REF_UDATA,
                        _ => F_REF4,
                    }
                };
                let mut gen_ref = |ch: &mut Choices| -> FVal {
                    if nunits > 1 && ch.chance(90) {
                        FVal::Ref(any(ch), F_REF_ADDR)
                    } else {
                        let t = same(ch);
                        if ch.chance(40) {
                            FVal::Ref(t, F_REF_ADDR)
                        } else {
                            FVal::Ref(t, in_unit_form(ch, t.1))
                        }
                    }
                };
                let a = match ch.below(16) {
                    0 | 1 => (0x03, FVal::Str(gen_name(ch), sform(ch))),
                    2 | 3 | 4 => (ch.pick(&[0x49u16, 0x49, 0x31, 0x47, 0x1d]), gen_ref(ch)),
                    5 => (0x11, FVal::Addr(0x4000 + ch.below(64) as u64 * 0x10, if ch.chance(if o.split { 220 } else { 100 }) { Some(if version >= 5 { ch.pick(&[F_ADDRX, F_ADDRX1, F_ADDRX2, F_ADDRX4]) } else { F_GNU_ADDR_INDEX }) } else { None })),
                    6 => (0x12, FVal::Const(ch.pick(&[F_DATA1, F_DATA2, F_DATA4, F_DATA8, F_UDATA]), 1 + ch.below(200) as u64)),
                    7 if nfiles > 0 => (ch.pick(&[0x3au16, 0x58]), FVal::FileIndex(if version >= 5 && ch.chance(90) { F_IMPLICIT_CONST } else { ch.pick(&[F_DATA1, F_UDATA, F_DATA2]) }, if version >= 5 { ch.below(nfiles) as u64 } else { ch.below(nfiles + 1) as u64 })),
                    8 => (0x3b, FVal::Const(ch.pick(&[F_DATA1, F_DATA2, F_UDATA, F_SDATA]), ch.below(120) as u64)),
                    9 | 10 => {
                        let mut ops = gen_ref_expr(ch, &cfg, ui, &mut same, &mut any, 0);
                        if ch.chance(5) {
                            // DW_OP_entry_value nested up to and just beyond the depth the converter supports (32), with
                            // a reference innermost
                            let k = ch.pick(&[31usize, 32, 32, 33]);
                            let mut inner = vec![EOp::Call(same(ch), false), EOp::Plain(MOp::Lit(1))];
                            for _ in 0..k {
                                inner = vec![EOp::EntryValue(inner)];
                            }
                            ops = inner;
                        }
                        (ch.pick(&[0x02u16, 0x40, 0x38]), FVal::Expr(ops, version >= 4))
                    }
                    11 if !locs.is_empty() => (0x02, FVal::Locs(ch.below(locs.len()), ch.chance(100))),
                    12 if !ranges.is_empty() => (0x55, FVal::Ranges(ch.below(ranges.len()), ch.chance(100))),
                    13 => (ch.pick(&[0x3cu16, 0x3f, 0x3c]), if version >= 4 && ch.bool() { FVal::FlagPresent } else { FVal::Flag(true) }),
                    14 => (
                        0x1c,
                        match ch.below(5) {
                            0 => FVal::Block(ch.pick(&[F_BLOCK1, F_BLOCK2, F_BLOCK4, F_BLOCK]), ch.bytes(3)),
                            1 => FVal::Const(F_SDATA, ch.range(-500, 500) as u64),
                            2 if version >= 5 => FVal::Data16(0x0102_0304_0506_0708_090a_0b0c_0d0e_0f10),
                            3 if version >= 5 => FVal::ImplicitConst(ch.range(-70, 70)),
                            _ => FVal::Const(F_DATA4, ch.u32() as u64),
                        },
                    ),
                    _ => (0x0b, FVal::Const(ch.pick(&[F_DATA1, F_UDATA]), ch.below(64) as u64)),
                };
                // the root already carries name / comp_dir / low_pc / stmt_list
                if !attrs.iter().any(|x| x.0 == a.0) && !(i == 0 && matches!(a.0, 0x03 | 0x1b | 0x11 | 0x10)) {
                    attrs.push(a);
                }
            }
            let _ = o.bad_refs;
            dies[i].attrs = attrs;
            // a twin: same tag and the same attribute names and forms as an earlier entry, other constants (entries that
            // can share one abbreviation except for their DW_FORM_implicit_const values)
            if i >= 2 && ch.chance(36) {
                let j = 1 + ch.below(i - 1);
                let mut twin = dies[j].attrs.clone();
                for (_, v) in twin.iter_mut() {
                    match v {
                        FVal::ImplicitConst(x) => *x = ch.range(-70, 70),
                        FVal::FileIndex(_, idx) if nfiles > 0 => *idx = if version >= 5 { ch.below(nfiles) as u64 } else { ch.below(nfiles + 1) as u64 },
                        FVal::Const(_, x) => *x = (*x ^ (1 + ch.below(3) as u64)) & 0x7f,
                        _ => {}
                    }
                }
                dies[i].tag = dies[j].tag;
                dies[i].attrs = twin;
            }
        }
        units.push(FUnit { version, format64, address_size, partial: !o.split && ch.chance(40), low_pc, dies, ranges, locs, line, name: format!("unit{}.c", ui).into_bytes(), comp_dir: b"/build".to_vec(), split: if o.split { Some(0x1122_3344_5566_7788 ^ ch.u64()) } else { None } });
    }
    FDwarf { big, units }
}

/// A list that is well-formed for the version. Returns (entry, carries data).
fn gen_list(ch: &mut Choices, version: u16, has_base: bool, loc: bool) -> Vec<(LE, bool)> {
    let n = ch.count(4);
    let mut v = Vec::new();
    let mut based = has_base;
    let mut at = 0x100u64;
    for _ in 0..n {
        let b = at + ch.below(0x40) as u64;
        // now and then an empty range (begin = end): a legal entry that readers skip
        let e = if ch.chance(20) { b } else { b + 1 + ch.below(0x40) as u64 };
        at = e + 1;
        if version >= 5 {
            v.push(match ch.below(8) {
                0 => (LE::BaseAddress(0x20_0000 + ch.below(8) as u64 * 0x1000), false),
                1 => (LE::BaseAddressx(ch.below(3) as u64), false),
                2 => (LE::StartxEndx(ch.below(2) as u64, 2), true),
                3 => (LE::StartxLength(ch.below(3) as u64, 1 + ch.below(0x30) as u64), true),
                4 | 5 => (LE::OffsetPair(b, e), true),
                6 => (LE::StartEnd(0x30_0000 + b, 0x30_0000 + e), true),
                _ => (LE::StartLength(0x40_0000 + b, e - b), true),
            });
        } else if based {
            v.push(if ch.chance(40) { (LE::LegacyBase(0x20_0000 + ch.below(8) as u64 * 0x1000), false) } else { (LE::LegacyPair(b, e), true) });
        } else if ch.chance(60) {
            based = true;
            v.push((LE::LegacyBase(0x20_0000 + ch.below(8) as u64 * 0x1000), false));
        } else {
            v.push((LE::LegacyPair(0x50_0000 + b, 0x50_0000 + e), true));
        }
    }
    if loc && version >= 5 && ch.chance(50) {
        v.push((LE::DefaultLocation, true));
    }
    v
}
