//! Compiler-built corpus: differential checks on DWARF that gcc and clang produced (tools/corpus.sh), the one oracle
//! that does not depend on the harness's own reading of the standard. Used by the thorough tier of C01, C04, C12, C17.
use crate::c12::{convert_dwarf, load_map};
use crate::core::*;
use crate::sem;
use gimli::{EndianSlice, RunTimeEndian};
use std::collections::BTreeMap;
use std::path::{Path, PathBuf};
use std::sync::Mutex;

type Map = BTreeMap<&'static str, Vec<u8>>;

fn intern(s: &str) -> &'static str {
    static TABLE: Mutex<Vec<&'static str>> = Mutex::new(Vec::new());
    let mut t = TABLE.lock().unwrap();
    if let Some(x) = t.iter().find(|x| **x == s) {
        return x;
    }
    let l: &'static str = Box::leak(s.to_string().into_boxed_str());
    t.push(l);
    l
}

/// Every section file of one configuration directory. `.dwo` suffixes are kept.
pub fn load_dir(dir: &Path) -> Map {
    let mut m = Map::new();
    if let Ok(rd) = std::fs::read_dir(dir) {
        for e in rd.flatten() {
            let name = e.file_name().to_string_lossy().to_string();
            if name.starts_with('.') && e.path().is_file() {
                if let Ok(b) = std::fs::read(e.path()) {
                    m.insert(intern(&name), b);
                }
            }
        }
    }
    m
}

fn configs(root: &Path) -> Vec<PathBuf> {
    let mut v: Vec<PathBuf> = Vec::new();
    if root.join(".debug_info").exists() || root.join(".debug_info.dwo").exists() || root.join("package").exists() {
        v.push(root.to_path_buf());
        return v;
    }
    if let Ok(rd) = std::fs::read_dir(root) {
        for e in rd.flatten() {
            if e.path().is_dir() {
                v.push(e.path());
            }
        }
    }
    v.sort();
    v
}

pub struct Outcome {
    pub compared: u64,
    pub refused: u64,
    pub skipped: u64,
    pub notes: Vec<String>,
}

// ---------------------------------------------------------------------------
// C01: robustness on real sections and on truncations of them
// ---------------------------------------------------------------------------

fn c01(dir: &Path, out: &mut Outcome) -> R {
    let map = load_dir(dir);
    if map.is_empty() {
        out.skipped += 1;
        return Ok(());
    }
    crate::c01::exercise_all(&map, false, 8, true, 2_000_000)?;
    // truncations of the largest section
    if let Some((name, full)) = map.iter().max_by_key(|(_, v)| v.len()).map(|(k, v)| (*k, v.clone())) {
        let stride = (full.len() / 24).max(1);
        let mut cut = 0;
        while cut < full.len() {
            let mut m2 = map.clone();
            m2.insert(name, full[..cut].to_vec());
            crate::c01::exercise_all(&m2, false, 8, false, 300_000)?;
            cut += stride;
        }
    }
    out.compared += 1;
    Ok(())
}

// ---------------------------------------------------------------------------
// C12: conversion of real DWARF preserves the semantic dump
// ---------------------------------------------------------------------------

fn c12(dir: &Path, out: &mut Outcome) -> R {
    let map = load_dir(dir);
    if !map.contains_key(".debug_info") {
        out.skipped += 1;
        return Ok(());
    }
    let d0 = {
        let dwarf = load_map(&map, false);
        match sem::dwarf_dump(&dwarf) {
            Ok(d) => d,
            Err(e) => {
                out.notes.push(format!("{}: input not readable: {}", dir.display(), e));
                out.skipped += 1;
                return Ok(());
            }
        }
    };
    for stepwise in [false, true] {
        crate::c12::LINE_ROW_BY_ROW.with(|c| c.set(false));
        crate::c12::INCREMENTAL_WRITE.with(|c| c.set(false));
        match convert_dwarf(&map, false, stepwise) {
            Ok(o) => {
                let dwarf = load_map(&o, false);
                let d1 = match sem::dwarf_dump(&dwarf) {
                    Ok(d) => d,
                    Err(e) => return Err(Failure { sig: "c12/corpus/output-unreadable".into(), detail: format!("{}: {}", dir.display(), e) }),
                };
                if let Some(diff) = sem::diff_dumps(&d0, &d1) {
                    return Err(Failure { sig: format!("c12/corpus/{}", diff.0), detail: format!("{} ({}): {}", dir.display(), if stepwise { "stepwise API" } else { "Dwarf::from" }, diff.1) });
                }
                out.compared += 1;
            }
            Err(e) => {
                out.refused += 1;
                out.notes.push(format!("{}: refused: {}", dir.file_name().unwrap_or_default().to_string_lossy(), e));
            }
        }
    }
    // frame sections
    for (name, eh) in [(".eh_frame", true), (".debug_frame", false)] {
        let Some(bytes) = map.get(name) else { continue };
        let d0 = match crate::c12::dump_frame_bytes(bytes, eh, false, 8, false) {
            Ok(d) => d,
            Err(_) => continue,
        };
        match crate::c12::convert_frame_bytes(bytes, eh, false, 8, false) {
            Ok(o) => {
                let d1 = crate::c12::dump_frame_bytes(&o, eh, false, 8, false).map_err(|e| Failure { sig: "c12/corpus/frame-output-unreadable".into(), detail: format!("{}: {}", dir.display(), e) })?;
                let mut a = d0.clone();
                let mut b = d1.clone();
                a.sort_by_key(|f| (f.initial, f.len));
                b.sort_by_key(|f| (f.initial, f.len));
                if a != b {
                    return Err(Failure { sig: "c12/corpus/frame-meaning-changed".into(), detail: format!("{} {}: {} FDEs before, {} after; first difference {:?}", dir.display(), name, a.len(), b.len(), a.iter().zip(b.iter()).find(|(x, y)| x != y)) });
                }
                out.compared += 1;
            }
            Err(e) => {
                out.refused += 1;
                out.notes.push(format!("{} {}: refused: {}", dir.file_name().unwrap_or_default().to_string_lossy(), name, e));
            }
        }
    }
    Ok(())
}

// ---------------------------------------------------------------------------
// C04: line rows vs llvm-dwarfdump
// ---------------------------------------------------------------------------

#[derive(Debug, PartialEq, Clone)]
struct TextRow {
    address: u64,
    line: u64,
    column: u64,
    file: u64,
    isa: u64,
    discriminator: u64,
    flags: Vec<String>,
}

fn parse_dwarfdump_lines(text: &str) -> Vec<(u64, Vec<TextRow>)> {
    let mut tables: Vec<(u64, Vec<TextRow>)> = Vec::new();
    for l in text.lines() {
        let t = l.trim();
        if let Some(rest) = t.strip_prefix("debug_line[0x") {
            if let Some(hex) = rest.split(']').next() {
                if let Ok(off) = u64::from_str_radix(hex, 16) {
                    tables.push((off, Vec::new()));
                }
            }
            continue;
        }
        if !t.starts_with("0x") {
            continue;
        }
        let parts: Vec<&str> = t.split_whitespace().collect();
        if parts.len() < 6 {
            continue;
        }
        let Ok(address) = u64::from_str_radix(parts[0].trim_start_matches("0x"), 16) else { continue };
        let nums: Vec<Option<u64>> = parts[1..6].iter().map(|p| p.parse::<u64>().ok()).collect();
        if nums.iter().any(|n| n.is_none()) {
            continue;
        }
        let mut flags: Vec<String> = parts[6..].iter().map(|s| s.to_string()).collect();
        flags.sort();
        if let Some(last) = tables.last_mut() {
            last.1.push(TextRow { address, line: nums[0].unwrap(), column: nums[1].unwrap(), file: nums[2].unwrap(), isa: nums[3].unwrap(), discriminator: nums[4].unwrap(), flags });
        }
    }
    tables
}

fn c04(dir: &Path, out: &mut Outcome) -> R {
    let map = load_dir(dir);
    let Some(line) = map.get(".debug_line").or(map.get(".debug_line.dwo")) else {
        out.skipped += 1;
        return Ok(());
    };
    let Ok(text) = std::fs::read_to_string(dir.join("dwarfdump-line.txt")) else {
        out.skipped += 1;
        return Ok(());
    };
    let tables = parse_dwarfdump_lines(&text);
    if tables.is_empty() {
        out.skipped += 1;
        return Ok(());
    }
    let sec = gimli::DebugLine::new(line, RunTimeEndian::Little);
    for (off, want) in &tables {
        let program = match sec.program(gimli::DebugLineOffset(*off as usize), 8, None, None) {
            Ok(p) => p,
            Err(e) => return Err(Failure { sig: "c04/corpus/header".into(), detail: format!("{} table at {:#x}: llvm-dwarfdump lists {} rows, gimli fails with {:?}", dir.display(), off, want.len(), e) }),
        };
        let mut rows = program.rows();
        let mut got: Vec<TextRow> = Vec::new();
        loop {
            match rows.next_row() {
                Ok(Some((_, r))) => {
                    let mut flags = Vec::new();
                    if r.is_stmt() {
                        flags.push("is_stmt".to_string());
                    }
                    if r.basic_block() {
                        flags.push("basic_block".to_string());
                    }
                    if r.end_sequence() {
                        flags.push("end_sequence".to_string());
                    }
                    if r.prologue_end() {
                        flags.push("prologue_end".to_string());
                    }
                    if r.epilogue_begin() {
                        flags.push("epilogue_begin".to_string());
                    }
                    flags.sort();
                    got.push(TextRow {
                        address: r.address(),
                        line: r.line().map(|l| l.get()).unwrap_or(0),
                        column: match r.column() {
                            gimli::ColumnType::LeftEdge => 0,
                            gimli::ColumnType::Column(c) => c.get(),
                        },
                        file: r.file_index(),
                        isa: r.isa(),
                        discriminator: r.discriminator(),
                        flags,
                    });
                }
                Ok(None) => break,
                Err(e) => return Err(Failure { sig: "c04/corpus/rows-error".into(), detail: format!("{} table at {:#x}: {:?} after {} rows", dir.display(), off, e, got.len()) }),
            }
            if got.len() > 1_000_000 {
                break;
            }
        }
        for (i, (g, w)) in got.iter().zip(want.iter()).enumerate() {
            if g != w {
                return Err(Failure { sig: "c04/corpus/row".into(), detail: format!("{} table at {:#x} row #{}: gimli {:?} llvm-dwarfdump {:?}", dir.display(), off, i, g, w) });
            }
        }
        if got.len() != want.len() {
            return Err(Failure { sig: "c04/corpus/row-count".into(), detail: format!("{} table at {:#x}: gimli {} rows, llvm-dwarfdump {}", dir.display(), off, got.len(), want.len()) });
        }
        out.compared += 1;
    }
    Ok(())
}

// ---------------------------------------------------------------------------
// C17: a unit fetched from a package equals the unit in its standalone object; aranges vs llvm-dwarfdump
// ---------------------------------------------------------------------------

fn load_dwo<'a>(map: &'a Map, parent: &gimli::Dwarf<EndianSlice<'a, RunTimeEndian>>) -> gimli::Dwarf<EndianSlice<'a, RunTimeEndian>> {
    let empty: &[u8] = &[];
    let mut d = gimli::Dwarf::load(|id| -> Result<_, gimli::Error> { Ok(EndianSlice::new(id.dwo_name().and_then(|n| map.get(n)).map(|v| &v[..]).unwrap_or(empty), RunTimeEndian::Little)) }).unwrap();
    d.make_dwo(parent);
    d
}

fn c17(dir: &Path, out: &mut Outcome) -> R {
    // aranges
    let map = load_dir(dir);
    if let (Some(ar), Ok(text)) = (map.get(".debug_aranges"), std::fs::read_to_string(dir.join("dwarfdump-aranges.txt"))) {
        // lines like: [0x0000000000001129, 0x00000000000011a2)
        let mut want: Vec<(u64, u64)> = Vec::new();
        for l in text.lines() {
            let t = l.trim();
            if let Some(rest) = t.strip_prefix("[0x") {
                let parts: Vec<&str> = rest.trim_end_matches(')').split(", 0x").collect();
                if parts.len() == 2 {
                    if let (Ok(a), Ok(b)) = (u64::from_str_radix(parts[0], 16), u64::from_str_radix(parts[1], 16)) {
                        want.push((a, b));
                    }
                }
            }
        }
        let sec = gimli::DebugAranges::new(ar, RunTimeEndian::Little);
        let mut got = Vec::new();
        let mut hs = sec.headers();
        while let Ok(Some(h)) = hs.next() {
            let mut es = h.entries();
            while let Ok(Some(e)) = es.next() {
                got.push((e.range().begin, e.range().end));
            }
        }
        if got != want {
            return Err(Failure { sig: "c17/corpus/aranges".into(), detail: format!("{}: gimli {:x?} llvm-dwarfdump {:x?}", dir.display(), got, want) });
        }
        out.compared += 1;
    }
    // packages
    let pk_dir = dir.join("package");
    if !pk_dir.exists() {
        return Ok(());
    }
    let pk = load_dir(&pk_dir);
    let empty: &[u8] = &[];
    let dwp = gimli::DwarfPackage::load(|id| -> Result<_, gimli::Error> { Ok(EndianSlice::new(id.dwo_name().and_then(|n| pk.get(n)).map(|v| &v[..]).unwrap_or(empty), RunTimeEndian::Little)) }, EndianSlice::new(empty, RunTimeEndian::Little)).map_err(|e| Failure { sig: "c17/corpus/package-load".into(), detail: format!("{}: {:?}", dir.display(), e) })?;
    for x in ["a", "b"] {
        let sk = load_dir(&dir.join(format!("skeleton-{}", x)));
        let dwo = load_dir(&dir.join(format!("dwo-{}", x)));
        if sk.is_empty() || dwo.is_empty() {
            continue;
        }
        let parent = load_map(&sk, false);
        let standalone = load_dwo(&dwo, &parent);
        let Ok(Some(h)) = standalone.units().next() else { continue };
        let Ok(unit) = standalone.unit(h) else { continue };
        let Some(id) = unit.dwo_id else {
            out.notes.push(format!("{} dwo-{}: no dwo id", dir.display(), x));
            continue;
        };
        let found = match dwp.find_cu(id, &parent) {
            Ok(Some(d)) => d,
            other => return Err(Failure { sig: "c17/corpus/find_cu".into(), detail: format!("{} dwo-{} id {:#x}: {:?}", dir.display(), x, id.0, other.map(|o| o.is_some())) }),
        };
        let d0 = sem::dwarf_dump(&standalone).map_err(|e| Failure { sig: "c17/corpus/standalone-unreadable".into(), detail: e })?;
        let d1 = sem::dwarf_dump(&found).map_err(|e| Failure { sig: "c17/corpus/package-unit-unreadable".into(), detail: format!("{} dwo-{}: {}", dir.display(), x, e) })?;
        if let Some(diff) = sem::diff_dumps(&d0, &d1) {
            return Err(Failure { sig: format!("c17/corpus/package-unit/{}", diff.0), detail: format!("{} dwo-{}: {}", dir.display(), x, diff.1) });
        }
        out.compared += 1;
    }
    Ok(())
}

/// Run the corpus stage of one property over a corpus root or a single configuration directory.
pub fn corpus_main(id: &str, root: &Path) -> i32 {
    install_panic_hook();
    let mut out = Outcome { compared: 0, refused: 0, skipped: 0, notes: Vec::new() };
    let mut violations = 0;
    let dirs = configs(root);
    for d in &dirs {
        let label = format!("corpus/{}", d.file_name().unwrap_or_default().to_string_lossy());
        let r = catch(&label, || match id.to_ascii_uppercase().as_str() {
            "C01" => c01(d, &mut out),
            "C04" => c04(d, &mut out),
            "C12" => c12(d, &mut out),
            "C17" => c17(d, &mut out),
            _ => Ok(()),
        });
        let r = match r {
            Ok(inner) => inner,
            Err(f) => Err(f),
        };
        if let Err(f) = r {
            violations += 1;
            println!("violation signature: {}", f.sig);
            println!("violation detail: {}", f.detail.chars().take(1500).collect::<String>());
            println!("VIOLATION property={} replay={}", id.to_ascii_uppercase(), d.display());
        }
    }
    let mut reasons: BTreeMap<String, u64> = BTreeMap::new();
    for n in &out.notes {
        if let Some(r) = n.split("refused: ").nth(1) {
            *reasons.entry(r.to_string()).or_default() += 1;
        }
    }
    println!("corpus {}: {} configurations, {} comparisons made, {} conversions refused {:?}, {} skipped, {} violations", id.to_ascii_uppercase(), dirs.len(), out.compared, out.refused, reasons, out.skipped, violations);
    if violations > 0 {
        1
    } else {
        0
    }
}
