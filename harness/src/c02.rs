//! C02 — the DIE forest is reported exactly as encoded, by every navigation API.
use crate::core::*;
use crate::dieasm::*;
use crate::enc::{Cfg, W};
use crate::{ensure, ensure_eq, fail};
use gimli::{DebugAbbrev, DebugInfo, DebugTypes, EndianSlice, RunTimeEndian, UnitHeader, UnitOffset, UnitType};

pub struct C02;

type Rdr<'a> = EndianSlice<'a, RunTimeEndian>;

#[derive(Clone, Debug)]
struct Node {
    tag: u16,
    has_children_flag: bool,
    palette: u8,
    children: Vec<Node>,
}

fn gen_shape(ch: &mut Choices, budget: &mut usize, depth: usize, shape: u8) -> Node {
    *budget = budget.saturating_sub(1);
    let tag = ch.pick(&[0x11u16, 0x2e, 0x34, 0x13, 0x0b, 0x24, 0x39, 0x05, 0x4109, 0xffff]);
    let palette = ch.below(10) as u8;
    let nchildren = if *budget == 0 || depth > 40 {
        0
    } else {
        match shape {
            0 => ch.count(4),                       // random
            1 => 1,                                 // deep chain
            2 => {
                if depth == 0 {
                    ch.count(20) + 2
                } else {
                    0
                }
            } // wide
            3 => 0,                                 // leaf only
            _ => ch.count(3),
        }
    };
    let mut children = Vec::new();
    for _ in 0..nchildren {
        if *budget == 0 {
            break;
        }
        children.push(gen_shape(ch, budget, depth + 1, shape));
    }
    // an entry without children may still be declared DW_CHILDREN_yes (empty child list)
    let has_children_flag = !children.is_empty() || ch.chance(50);
    Node { tag, has_children_flag, palette, children }
}

#[derive(Clone, Copy, PartialEq, Debug)]
enum SibMode {
    None,
    AllParents,
    Some,
    /// also on entries without children (legal on any entry: it then designates the very next entry)
    Any,
}

struct ForestCase {
    units: Vec<UnitSpec>,
    in_types: bool,
    /// a (possibly empty) prefix of junk-free extra abbreviations is included in the tables
    scheme: u8,
}

fn attrs_for(palette: u8, sib: Option<u16>) -> Vec<(u16, u16, i64)> {
    let mut v: Vec<(u16, u16, i64)> = match palette {
        0 => vec![],
        1 => vec![(0x03, F_STRING, 0)],
        2 => vec![(0x3b, F_UDATA, 0), (0x0b, F_DATA1, 0)],
        3 => vec![(0x49, F_REF4, 0), (0x03, F_STRING, 0)],
        4 => vec![(0x3f, F_FLAG_PRESENT, 0), (0x1c, F_IMPLICIT_CONST, -7), (0x02, F_EXPRLOC, 0)],
        // DW_FORM_indirect after a fixed-size attribute and after a block (skipping entries must resolve the form at
        // the right place)
        6 => vec![(0x3a, F_DATA2, 0), (0x0b, F_INDIRECT, 0), (0x03, F_STRING, 0)],
        7 => vec![(0x1c, F_BLOCK1, 0), (0x3b, F_INDIRECT, 0), (0x0b, F_DATA1, 0)],
        // references into a supplementary file: a fixed four bytes, eight bytes, and the offset size of the unit's format
        8 => vec![(0x31, F_REF_SUP4, 0), (0x3a, F_DATA2, 0), (0x47, F_REF_SUP8, 0)],
        9 => vec![(0x03, F_STRP_SUP, 0), (0x31, F_GNU_REF_ALT, 0), (0x0b, F_DATA1, 0), (0x6e, F_GNU_STRP_ALT, 0)],
        _ => vec![(0x03, F_STRP, 0), (0x3a, F_DATA2, 0), (0x49, F_REF_UDATA, 0)],
    };
    if let Some(f) = sib {
        // put the sibling attribute first or last
        if palette % 2 == 0 {
            v.insert(0, (0x01, f, 0));
        } else {
            v.push((0x01, f, 0));
        }
    }
    v
}

fn vals_for(ch: &mut Choices, attrs: &[(u16, u16, i64)], nids: usize) -> Vec<AV> {
    attrs
        .iter()
        .map(|(name, form, _)| match (*name, *form) {
            (0x01, _) => AV::Sibling,
            (_, F_INDIRECT) => match ch.below(6) {
                // (a vendor form: its code takes two LEB128 bytes)
                4 => AV::Indirect(F_GNU_REF_ALT, Box::new(AV::U(ch.biased(24)))),
                5 => AV::Indirect(F_GNU_STRP_ALT, Box::new(AV::U(ch.biased(24)))),
                0 => AV::Indirect(F_DATA4, Box::new(AV::U(ch.u32() as u64))),
                1 => AV::Indirect(F_UDATA, Box::new(AV::U(ch.biased(40)))),
                2 => AV::Indirect(F_STRING, Box::new(AV::Bytes(vec![b'q'; ch.below(5)]))),
                _ => AV::Indirect(F_DATA1, Box::new(AV::U(ch.u8() as u64))),
            },
            (_, F_BLOCK1) => {
                let n = ch.below(7);
                AV::Bytes(ch.bytes(n))
            }
            (_, F_STRING) => {
                let n = ch.below(6);
                AV::Bytes((0..n).map(|_| b'a' + ch.u8() % 26).collect())
            }
            (_, F_EXPRLOC) => {
                let n = ch.below(4);
                AV::Bytes(ch.bytes(n))
            }
            (0x49, _) => AV::Ref(ch.below(nids.max(1))),
            (_, F_UDATA) => AV::U(ch.biased(32)),
            (_, F_DATA1) => AV::U(ch.u8() as u64),
            (_, F_DATA2) => AV::U(ch.u16() as u64),
            (_, F_STRP) => AV::U(ch.biased(20)),
            (_, F_REF_SUP4) => AV::U(ch.u32() as u64),
            (_, F_REF_SUP8) => AV::U(ch.biased(48)),
            (_, F_STRP_SUP) | (_, F_GNU_REF_ALT) | (_, F_GNU_STRP_ALT) => AV::U(ch.biased(24)),
            _ => AV::Nothing,
        })
        .collect()
}

fn gen_forest(ch: &mut Choices) -> ForestCase {
    let big = ch.bool();
    let in_types = ch.chance(40);
    let nunits = 1 + ch.below(3);
    let scheme = ch.below(6) as u8;
    let sib_mode = [SibMode::None, SibMode::AllParents, SibMode::Some, SibMode::Any][ch.below(4)];
    let sib_form = ch.pick(&[F_REF4, F_REF4, F_REF2, F_REF8, F_REF_UDATA, F_REF1, F_REF_ADDR]);
    let share_abbrevs = ch.bool();
    let mut next_id = 0usize;
    let mut units = Vec::new();
    // first pass: shapes, to know the number of ids
    let mut shapes = Vec::new();
    let mut total_nodes = 0usize;
    for _ in 0..nunits {
        let shape = ch.below(5) as u8;
        let mut budget = 1 + ch.below(40);
        let n = gen_shape(ch, &mut budget, 0, shape);
        fn count(n: &Node) -> usize {
            1 + n.children.iter().map(count).sum::<usize>()
        }
        total_nodes += count(&n);
        shapes.push(n);
    }
    let mut shared_abbrevs: Vec<Abbrev> = Vec::new();
    for (ui, shape) in shapes.iter().enumerate() {
        let mut cfg = Cfg::decode(ch);
        cfg.big = big;
        cfg.runtime_endian = true;
        if in_types {
            cfg.version = cfg.version.min(4);
        }
        let kind = if in_types {
            UnitKind::Type { sig: ch.u64(), type_die: Some(next_id) }
        } else if cfg.version >= 5 {
            match ch.below(6) {
                0 => UnitKind::Partial,
                1 => UnitKind::Type { sig: ch.u64(), type_die: Some(next_id) },
                2 => UnitKind::Skeleton(ch.u64()),
                3 => UnitKind::SplitCompile(ch.u64()),
                4 => UnitKind::SplitType { sig: ch.u64(), type_die: Some(next_id) },
                _ => UnitKind::Compile,
            }
        } else {
            UnitKind::Compile
        };
        let mut abbrevs: Vec<Abbrev> = if share_abbrevs { shared_abbrevs.clone() } else { Vec::new() };
        fn build(n: &Node, ch: &mut Choices, abbrevs: &mut Vec<Abbrev>, next_id: &mut usize, sib_mode: SibMode, sib_form: u16, total: usize) -> DieSpec {
            let id = *next_id;
            *next_id += 1;
            let sib = if match sib_mode {
                SibMode::None => false,
                SibMode::AllParents => n.has_children_flag,
                SibMode::Some => n.has_children_flag && ch.bool(),
                SibMode::Any => id != 0 && ch.chance(170),
            } {
                Some(sib_form)
            } else {
                None
            };
            let attrs = attrs_for(n.palette, sib);
            let key = (n.tag, n.has_children_flag, attrs.clone());
            let idx = match abbrevs.iter().position(|a| (a.tag, a.children, a.attrs.clone()) == key) {
                Some(i) => i,
                None => {
                    abbrevs.push(Abbrev { code: 0, tag: n.tag, children: n.has_children_flag, attrs: attrs.clone() });
                    abbrevs.len() - 1
                }
            };
            let vals = vals_for(ch, &attrs, total);
            let children = n.children.iter().map(|c| build(c, ch, abbrevs, next_id, sib_mode, sib_form, total)).collect();
            DieSpec { id, abbrev: idx, vals, children }
        }
        let root = build(shape, ch, &mut abbrevs, &mut next_id, sib_mode, sib_form, total_nodes);
        if share_abbrevs {
            shared_abbrevs = abbrevs.clone();
        }
        units.push(UnitSpec { cfg, kind, abbrevs, abbrev_group: if share_abbrevs { 0 } else { ui }, root, trailing_nulls: if ch.chance(40) { 1 + ch.below(3) } else { 0 } });
    }
    if share_abbrevs {
        // every unit uses the final shared list (indices are stable: the list only grows)
        for u in units.iter_mut() {
            u.abbrevs = shared_abbrevs.clone();
        }
    }
    // assign codes per table according to the scheme, and choose the declaration order
    let mut seen_groups = std::collections::BTreeMap::new();
    for ui in 0..units.len() {
        let g = units[ui].abbrev_group;
        if let Some(src) = seen_groups.get(&g) {
            let src: usize = *src;
            let a = units[src].abbrevs.clone();
            units[ui].abbrevs = a;
            continue;
        }
        seen_groups.insert(g, ui);
        let n = units[ui].abbrevs.len();
        let mut codes: Vec<u64> = Vec::new();
        match scheme {
            0 | 1 => codes = (1..=n as u64).collect(),
            2 => {
                // sparse below 2^32
                let mut c = 0u64;
                for _ in 0..n {
                    c += 1 + ch.biased(20) + if ch.chance(30) { 1 << 24 } else { 0 };
                    codes.push(c.min(u32::MAX as u64 - 1));
                }
                codes.dedup();
                while codes.len() < n {
                    let last = *codes.last().unwrap_or(&0);
                    codes.push(last + 1);
                }
            }
            3 => {
                // huge codes
                for i in 0..n {
                    codes.push(match i % 4 {
                        0 => (1u64 << 63) + i as u64,
                        1 => u64::MAX - i as u64,
                        2 => (1u64 << 32) + i as u64,
                        _ => (1u64 << 32) + 1 + (i as u64) * (1 << 33),
                    });
                }
            }
            4 => {
                // dense prefix, sparse part, then dense continuation declared after the sparse ones
                for i in 0..n {
                    codes.push(if i % 3 == 1 { 1000 + i as u64 * 17 } else { 0 });
                }
                let mut next = 1u64;
                for c in codes.iter_mut() {
                    if *c == 0 {
                        *c = next;
                        next += 1;
                    }
                }
            }
            _ => {
                // codes that alias modulo 2^32 with small sequential codes
                for i in 0..n {
                    codes.push(if i % 2 == 0 { i as u64 / 2 + 1 } else { (1u64 << 32) + i as u64 / 2 + 1 });
                }
            }
        }
        for (a, c) in units[ui].abbrevs.iter_mut().zip(codes.iter()) {
            a.code = *c;
        }
    }
    ForestCase { units, in_types, scheme }
}

/// Emit the abbreviation table of a unit in a (possibly permuted) declaration order, returning the bytes.
/// (dieasm emits in list order; permutation is applied to the list itself before assembling.)
fn permute_abbrevs(units: &mut [UnitSpec], ch: &mut Choices) {
    // permute each group's table identically for all units of the group, fixing up DIE abbrev indices
    let n = units.iter().map(|u| u.abbrevs.len()).max().unwrap_or(0);
    if n < 2 {
        return;
    }
    let rot = 1 + ch.below(n - 1);
    for u in units.iter_mut() {
        let len = u.abbrevs.len();
        if len < 2 {
            continue;
        }
        let r = rot % len;
        u.abbrevs.rotate_left(r);
        fn fix(d: &mut DieSpec, len: usize, r: usize) {
            d.abbrev = (d.abbrev + len - r) % len;
            for c in d.children.iter_mut() {
                fix(c, len, r);
            }
        }
        fix(&mut u.root, len, r);
    }
}

fn subtree_end(entries: &[EntryRec], i: usize) -> usize {
    // index just past the subtree of entry i (including its terminating null)
    if !entries[i].children {
        return i + 1;
    }
    let d = entries[i].depth;
    let mut j = i + 1;
    while j < entries.len() {
        if entries[j].id.is_none() && entries[j].depth == d + 1 {
            return j + 1;
        }
        j += 1;
    }
    entries.len()
}

fn children_of(entries: &[EntryRec], i: usize) -> Vec<usize> {
    (0..entries.len()).filter(|j| entries[*j].parent == Some(i) && entries[*j].id.is_some()).collect()
}

fn check_unit(header: &UnitHeader<Rdr>, rec: &UnitRec, spec: &UnitSpec, da: &DebugAbbrev<Rdr>, in_types: bool, section: &[u8], cx: &mut Ctx) -> R {
    let cfg = spec.cfg;
    // ---- header accessors
    ensure_eq!(header.offset().0, rec.offset, "c02/header/offset");
    ensure_eq!(header.unit_length(), rec.unit_length as usize, "c02/header/unit_length");
    ensure_eq!(header.length_including_self(), rec.total_len, "c02/header/length_including_self");
    ensure_eq!(header.header_size(), rec.header_size, "c02/header/header_size", "{:?} v{}", spec.kind, cfg.version);
    ensure_eq!(header.size_of_header(), rec.header_size, "c02/header/size_of_header", "{:?} v{}", spec.kind, cfg.version);
    ensure_eq!(header.root_offset().0, rec.header_size, "c02/header/root_offset");
    ensure_eq!(header.version(), cfg.version, "c02/header/version");
    ensure_eq!(header.format(), cfg.format(), "c02/header/format");
    ensure_eq!(header.address_size(), cfg.address_size, "c02/header/address_size");
    ensure_eq!(header.encoding(), cfg.encoding(), "c02/header/encoding");
    ensure_eq!(header.debug_abbrev_offset().0, rec.abbrev_offset, "c02/header/debug_abbrev_offset");
    ensure_eq!(header.section(), if in_types { gimli::SectionId::DebugTypes } else { gimli::SectionId::DebugInfo }, "c02/header/section");
    if in_types {
        ensure_eq!(header.debug_types_offset().map(|o| o.0), Some(rec.offset), "c02/header/debug_types_offset");
        ensure_eq!(header.debug_info_offset().map(|o| o.0), None, "c02/header/debug_info_offset");
    } else {
        ensure_eq!(header.debug_info_offset().map(|o| o.0), Some(rec.offset), "c02/header/debug_info_offset");
        ensure_eq!(header.debug_types_offset().map(|o| o.0), None, "c02/header/debug_types_offset");
    }
    let want_type = match spec.kind {
        UnitKind::Compile => "Compilation".to_string(),
        UnitKind::Partial => "Partial".to_string(),
        UnitKind::Skeleton(id) => format!("Skeleton({})", id),
        UnitKind::SplitCompile(id) => format!("SplitCompilation({})", id),
        UnitKind::Type { sig, .. } => format!("Type({},{})", sig, rec.type_offset.unwrap_or(0)),
        UnitKind::SplitType { sig, .. } => format!("SplitType({},{})", sig, rec.type_offset.unwrap_or(0)),
    };
    let got_type = match header.type_() {
        UnitType::Compilation => "Compilation".to_string(),
        UnitType::Partial => "Partial".to_string(),
        UnitType::Skeleton(id) => format!("Skeleton({})", id.0),
        UnitType::SplitCompilation(id) => format!("SplitCompilation({})", id.0),
        UnitType::Type { type_signature, type_offset } => format!("Type({},{})", type_signature.0, type_offset.0),
        UnitType::SplitType { type_signature, type_offset } => format!("SplitType({},{})", type_signature.0, type_offset.0),
    };
    ensure_eq!(got_type, want_type, "c02/header/type");
    // offset conversions and bounds
    for probe in [0usize, rec.header_size.saturating_sub(1), rec.header_size, rec.total_len - 1, rec.total_len, rec.total_len + 1] {
        let inb = probe >= rec.header_size && probe < rec.total_len;
        ensure_eq!(UnitOffset(probe).is_in_bounds(header), inb, "c02/header/is_in_bounds", "offset {} header {} total {}", probe, rec.header_size, rec.total_len);
        ensure_eq!(UnitOffset(probe).to_unit_section_offset(header).0, rec.offset + probe, "c02/header/to_unit_section_offset");
        if !in_types {
            ensure_eq!(UnitOffset(probe).to_debug_info_offset(header).map(|o| o.0), Some(rec.offset + probe), "c02/header/to_debug_info_offset");
            let back = gimli::DebugInfoOffset(rec.offset + probe).to_unit_offset(header).map(|o| o.0);
            ensure_eq!(back, if inb { Some(probe) } else { None }, "c02/header/DebugInfoOffset::to_unit_offset", "probe {}", probe);
            // a unit of .debug_info has no position in .debug_types, and the other way round
            ensure_eq!(UnitOffset(probe).to_debug_types_offset(header).map(|o| o.0), None, "c02/header/to_debug_types_offset-of-info-unit");
            ensure_eq!(gimli::DebugTypesOffset(rec.offset + probe).to_unit_offset(header).map(|o| o.0), None, "c02/header/DebugTypesOffset::to_unit_offset-of-info-unit");
            ensure_eq!(gimli::DebugInfoOffset(rec.offset + probe).to_unit_section_offset(header).map(|o| o.0), Some(rec.offset + probe), "c02/header/DebugInfoOffset::to_unit_section_offset");
        } else {
            ensure_eq!(UnitOffset(probe).to_debug_types_offset(header).map(|o| o.0), Some(rec.offset + probe), "c02/header/to_debug_types_offset");
            let back = gimli::DebugTypesOffset(rec.offset + probe).to_unit_offset(header).map(|o| o.0);
            ensure_eq!(back, if inb { Some(probe) } else { None }, "c02/header/DebugTypesOffset::to_unit_offset", "probe {}", probe);
            ensure_eq!(gimli::DebugTypesOffset(rec.offset + probe).to_unit_section_offset(header).map(|o| o.0), Some(rec.offset + probe), "c02/header/DebugTypesOffset::to_unit_section_offset");
            ensure_eq!(UnitOffset(probe).to_debug_info_offset(header).map(|o| o.0), None, "c02/header/to_debug_info_offset-of-types-unit");
            ensure_eq!(gimli::DebugInfoOffset(rec.offset + probe).to_unit_offset(header).map(|o| o.0), None, "c02/header/DebugInfoOffset::to_unit_offset-of-types-unit");
        }
        // the section-relative offset type converts back by the same bounds
        let uso = UnitOffset(probe).to_unit_section_offset(header);
        ensure_eq!(uso.to_unit_offset(header).map(|o| o.0), if inb { Some(probe) } else { None }, "c02/header/UnitSectionOffset::to_unit_offset", "probe {}", probe);
    }
    // ---- byte ranges of the unit: views of exactly the section bytes between two unit offsets
    {
        let mut marks: Vec<usize> = vec![rec.header_size, rec.total_len - 1];
        marks.extend(rec.entries.iter().map(|e| e.offset));
        marks.extend(rec.entries.iter().map(|e| e.end).filter(|e| *e < rec.total_len));
        marks.sort();
        marks.dedup();
        let pick: Vec<usize> = if marks.len() > 6 { vec![marks[0], marks[1], marks[marks.len() / 2], marks[marks.len() - 2], marks[marks.len() - 1]] } else { marks.clone() };
        let view = |r: &Rdr| -> (usize, usize) { ((r.slice().as_ptr() as usize).wrapping_sub(section.as_ptr() as usize), r.len()) };
        for (i, a) in pick.iter().enumerate() {
            let got = header.range_from(UnitOffset(*a)..).map_err(|e| Failure { sig: "c02/header/range_from".into(), detail: format!("{}..: {:?}", a, e) })?;
            ensure_eq!(view(&got), (rec.offset + a, rec.total_len - a), "c02/header/range_from-view", "unit at {:#x}, from unit offset {}", rec.offset, a);
            let got = header.range_to(..UnitOffset(*a)).map_err(|e| Failure { sig: "c02/header/range_to".into(), detail: format!("..{}: {:?}", a, e) })?;
            ensure_eq!(view(&got), (rec.offset + rec.header_size, a - rec.header_size), "c02/header/range_to-view", "unit at {:#x}, to unit offset {}", rec.offset, a);
            for b in &pick[i..] {
                let got = header.range(UnitOffset(*a)..UnitOffset(*b)).map_err(|e| Failure { sig: "c02/header/range".into(), detail: format!("{}..{}: {:?}", a, b, e) })?;
                ensure_eq!(view(&got), (rec.offset + a, b - a), "c02/header/range-view", "unit at {:#x}, unit offsets {}..{}", rec.offset, a, b);
                ensure_eq!(got.slice(), &section[rec.offset + a..rec.offset + b], "c02/header/range-bytes");
            }
        }
        // offsets outside the entries are refused
        for bad in [0usize, rec.header_size - 1, rec.total_len, rec.total_len + 7] {
            ensure!(header.range_from(UnitOffset(bad)..).is_err(), "c02/header/range_from-out-of-bounds", "unit offset {} (header {}, total {})", bad, rec.header_size, rec.total_len);
            ensure!(header.range_to(..UnitOffset(bad)).is_err(), "c02/header/range_to-out-of-bounds", "unit offset {}", bad);
            ensure!(header.range(UnitOffset(rec.header_size)..UnitOffset(bad)).is_err() || bad == rec.header_size, "c02/header/range-out-of-bounds", "unit offset {}", bad);
        }
    }
    if rec.offset > 0 && !in_types {
        ensure_eq!(gimli::DebugInfoOffset(rec.offset - 1).to_unit_offset(header).map(|o| o.0), None, "c02/header/to_unit_offset-before-unit");
    }

    // ---- abbreviations
    let abbrevs = header.abbreviations(da).map_err(|e| Failure { sig: "c02/abbrev/rejected".into(), detail: format!("{:?} codes {:?}", e, spec.abbrevs.iter().map(|a| a.code).collect::<Vec<_>>()) })?;
    for a in &spec.abbrevs {
        let Some(d) = abbrevs.get(a.code) else { fail!("c02/abbrev/get-missing", "code {:#x} declared but get() returns None (codes {:?})", a.code, spec.abbrevs.iter().map(|a| a.code).collect::<Vec<_>>()) };
        ensure_eq!(d.code(), a.code, "c02/abbrev/get-wrong-code", "asked {:#x}", a.code);
        ensure_eq!(d.tag().0, a.tag, "c02/abbrev/tag", "code {:#x}", a.code);
        ensure_eq!(d.has_children(), a.children, "c02/abbrev/children", "code {:#x}", a.code);
        let got: Vec<(u16, u16)> = d.attributes().iter().map(|s| (s.name().0, s.form().0)).collect();
        let want: Vec<(u16, u16)> = a.attrs.iter().map(|s| (s.0, s.1)).collect();
        ensure_eq!(got, want, "c02/abbrev/attributes", "code {:#x}", a.code);
        for probe in [a.code.wrapping_sub(1), a.code.wrapping_add(1), a.code ^ (1 << 32), a.code.wrapping_add(1 << 32), a.code | (1 << 63)] {
            if probe != a.code && !spec.abbrevs.iter().any(|b| b.code == probe) {
                ensure!(abbrevs.get(probe).is_none(), "c02/abbrev/get-phantom", "code {:#x} is not declared but get() returns the declaration with code {:#x}", probe, abbrevs.get(probe).map(|d| d.code()).unwrap_or(0));
            }
        }
    }
    ensure!(abbrevs.get(0).is_none(), "c02/abbrev/get-zero", "");

    let ents = &rec.entries;
    let canon = |e: &EntryRec| -> (usize, isize, u16, bool, usize, bool) { (e.offset, e.depth, e.tag, e.children, e.nattrs, e.id.is_none()) };

    // ---- (1) raw reading
    {
        let mut raw = header.entries_raw(&abbrevs, None).map_err(|e| Failure { sig: "c02/raw/open".into(), detail: format!("{e:?}") })?;
        let mut entry = gimli::DebuggingInformationEntry::null();
        for (i, e) in ents.iter().enumerate() {
            ensure!(!raw.is_empty(), "c02/raw/ended-early", "after {} of {} entries", i, ents.len());
            ensure_eq!(raw.next_offset().0, e.offset, "c02/raw/next_offset", "entry #{}", i);
            ensure_eq!(raw.next_depth(), e.depth, "c02/raw/next_depth", "entry #{}", i);
            let ok = raw.read_entry(&mut entry).map_err(|er| Failure { sig: "c02/raw/read_entry".into(), detail: format!("entry #{} at {:#x}: {:?}", i, e.offset, er) })?;
            ensure_eq!(!ok, e.id.is_none(), "c02/raw/null-flag", "entry #{}", i);
            ensure_eq!(entry.is_null(), e.id.is_none(), "c02/raw/is_null", "entry #{}", i);
            ensure_eq!(entry.offset().0, e.offset, "c02/raw/entry-offset", "entry #{}", i);
            ensure_eq!(entry.depth(), e.depth, "c02/raw/entry-depth", "entry #{}", i);
            if ok {
                ensure_eq!((entry.tag().0, entry.has_children(), entry.attrs().len()), (e.tag, e.children, e.nattrs), "c02/raw/entry-fields", "entry #{} at {:#x}", i, e.offset);
            }
            ensure_eq!(raw.next_offset().0, e.end, "c02/raw/advance", "entry #{}", i);
        }
        ensure!(raw.is_empty(), "c02/raw/trailing-data", "cursor not at the end of the unit after all {} entries", ents.len());
        // the same walk without decoding attributes: read_abbreviation + skip_attributes
        let mut raw = header.entries_raw(&abbrevs, None).map_err(|er| Failure { sig: "c02/raw/open".into(), detail: format!("{er:?}") })?;
        for (i, e) in ents.iter().enumerate() {
            ensure_eq!(raw.next_offset().0, e.offset, "c02/raw-skip/next_offset", "entry #{}", i);
            ensure_eq!(raw.next_depth(), e.depth, "c02/raw-skip/next_depth", "entry #{}", i);
            match raw.read_abbreviation().map_err(|er| Failure { sig: "c02/raw-skip/read_abbreviation".into(), detail: format!("entry #{} at {:#x}: {:?}", i, e.offset, er) })? {
                Some(ab) => {
                    ensure!(e.id.is_some(), "c02/raw-skip/null-flag", "entry #{}", i);
                    ensure_eq!((ab.code(), ab.tag().0, ab.has_children()), (e.abbrev_code, e.tag, e.children), "c02/raw-skip/abbreviation", "entry #{}", i);
                    raw.skip_attributes(ab.attributes()).map_err(|er| Failure { sig: "c02/raw-skip/skip_attributes".into(), detail: format!("entry #{} at {:#x}: {:?}", i, e.offset, er) })?;
                }
                None => ensure!(e.id.is_none(), "c02/raw-skip/null-flag", "entry #{}", i),
            }
            ensure_eq!(raw.next_offset().0, e.end, "c02/raw-skip/advance", "entry #{} at {:#x}", i, e.offset);
        }
        ensure!(raw.is_empty(), "c02/raw-skip/trailing-data", "");
    }
    // ---- (2) next_dfs and (3) next_entry
    {
        let mut cur = header.entries(&abbrevs);
        for (i, e) in ents.iter().enumerate().filter(|(_, e)| e.id.is_some()) {
            match cur.next_dfs() {
                Ok(Some(entry)) => {
                    let got = (entry.offset().0, entry.depth(), entry.tag().0, entry.has_children(), entry.attrs().len(), false);
                    ensure_eq!(got, canon(e), "c02/dfs/entry", "entry #{}", i);
                }
                other => fail!("c02/dfs/ended-early", "at entry #{}: {:?}", i, other.map(|o| o.map(|e| e.offset().0))),
            }
            ensure_eq!(cur.depth(), e.depth, "c02/dfs/cursor-depth");
            ensure_eq!(cur.offset().0, e.offset, "c02/dfs/cursor-offset");
        }
        match cur.next_dfs() {
            Ok(None) => {}
            other => fail!("c02/dfs/extra-entry", "{:?}", other.map(|o| o.map(|e| e.offset().0))),
        }
        let mut cur = header.entries(&abbrevs);
        for (i, e) in ents.iter().enumerate() {
            ensure_eq!(cur.next_offset().0, e.offset, "c02/next_entry/next_offset", "entry #{}", i);
            ensure_eq!(cur.next_depth(), e.depth, "c02/next_entry/next_depth", "entry #{}", i);
            let more = cur.next_entry().map_err(|er| Failure { sig: "c02/next_entry/error".into(), detail: format!("{er:?}") })?;
            ensure!(more, "c02/next_entry/ended-early", "at entry #{}", i);
            ensure_eq!(cur.current().is_none(), e.id.is_none(), "c02/next_entry/null", "entry #{}", i);
            if let Some(c) = cur.current() {
                ensure_eq!((c.offset().0, c.depth(), c.tag().0), (e.offset, e.depth, e.tag), "c02/next_entry/entry", "entry #{}", i);
            }
        }
        ensure_eq!(cur.next_entry().ok(), Some(false), "c02/next_entry/end");
    }
    // ---- (4) sibling stepping from every parent
    for (pi, p) in ents.iter().enumerate().filter(|(_, e)| e.id.is_some()) {
        let kids = children_of(ents, pi);
        let mut cur = header.entries_at_offset(&abbrevs, UnitOffset(p.offset)).map_err(|e| Failure { sig: "c02/sibling/entries_at_offset".into(), detail: format!("{e:?}") })?;
        ensure_eq!(cur.next_entry().ok(), Some(true), "c02/sibling/position");
        ensure_eq!(cur.current().map(|c| c.offset().0), Some(p.offset), "c02/sibling/positioned-entry");
        if !p.children {
            continue;
        }
        // step into the child list
        ensure_eq!(cur.next_entry().ok(), Some(true), "c02/sibling/first-child");
        let mut got = Vec::new();
        if let Some(c) = cur.current() {
            got.push(c.offset().0);
            loop {
                match cur.next_sibling() {
                    Ok(Some(s)) => got.push(s.offset().0),
                    Ok(None) => break,
                    Err(e) => fail!("c02/sibling/error", "{:?}", e),
                }
                if got.len() > ents.len() {
                    fail!("c02/sibling/unbounded", "parent at {:#x}", p.offset);
                }
            }
        }
        let want: Vec<usize> = kids.iter().map(|k| ents[*k].offset).collect();
        ensure_eq!(got, want, "c02/sibling/children", "children of the entry at {:#x} (depth {})", p.offset, p.depth);
        // after the list is exhausted next_sibling keeps returning None
        ensure!(matches!(cur.next_sibling(), Ok(None)), "c02/sibling/after-end", "");
    }
    // ---- (5) tree iterator, full recursive walk, from the root and from every entry (6)
    fn walk<'a>(node: gimli::EntriesTreeNode<'_, '_, Rdr<'a>>, out: &mut Vec<(usize, isize)>, depth: isize, limit: usize) -> gimli::Result<()> {
        out.push((node.entry().offset().0, depth));
        if out.len() > limit {
            return Ok(());
        }
        let mut it = node.children();
        while let Some(c) = it.next()? {
            walk(c, out, depth + 1, limit)?;
        }
        Ok(())
    }
    for (i, e) in ents.iter().enumerate() {
        let Some(_) = e.id else {
            // positioned read at a null entry
            match header.entry(&abbrevs, UnitOffset(e.offset)) {
                Err(gimli::Error::NoEntryAtGivenOffset(_)) => {}
                other => fail!("c02/positioned/null-entry", "entry() at the null at {:#x}: {:?}", e.offset, other.map(|x| x.offset().0)),
            }
            continue;
        };
        // header.entry
        let got = header.entry(&abbrevs, UnitOffset(e.offset)).map_err(|er| Failure { sig: "c02/positioned/entry-error".into(), detail: format!("at {:#x}: {:?}", e.offset, er) })?;
        ensure_eq!((got.offset().0, got.tag().0, got.has_children(), got.attrs().len()), (e.offset, e.tag, e.children, e.nattrs), "c02/positioned/entry", "at {:#x}", e.offset);
        // entries_raw(Some)
        let mut raw = header.entries_raw(&abbrevs, Some(UnitOffset(e.offset))).map_err(|er| Failure { sig: "c02/positioned/raw-open".into(), detail: format!("{er:?}") })?;
        let mut ent = gimli::DebuggingInformationEntry::null();
        raw.read_entry(&mut ent).map_err(|er| Failure { sig: "c02/positioned/raw-read".into(), detail: format!("{er:?}") })?;
        ensure_eq!((ent.offset().0, ent.tag().0, raw.next_offset().0), (e.offset, e.tag, e.end), "c02/positioned/raw", "at {:#x}", e.offset);
        // subtree through the tree API
        let end = subtree_end(ents, i);
        let want: Vec<(usize, isize)> = ents[i..end].iter().filter(|x| x.id.is_some()).map(|x| (x.offset, x.depth - e.depth)).collect();
        let mut tree = header.entries_tree(&abbrevs, Some(UnitOffset(e.offset))).map_err(|er| Failure { sig: "c02/tree/open".into(), detail: format!("{er:?}") })?;
        let root = tree.root().map_err(|er| Failure { sig: "c02/tree/root".into(), detail: format!("at {:#x}: {:?}", e.offset, er) })?;
        let mut got = Vec::new();
        walk(root, &mut got, 0, ents.len() + 4).map_err(|er| Failure { sig: "c02/tree/walk-error".into(), detail: format!("{er:?}") })?;
        ensure_eq!(got, want, "c02/tree/subtree", "subtree of the entry at {:#x}", e.offset);
        // the same tree object walked again (after a complete walk, then after a direct-children-only walk) reports
        // the same forest
        if i == 0 || e.children {
            let root = tree.root().map_err(|er| Failure { sig: "c02/tree/root-again".into(), detail: format!("at {:#x}: {:?}", e.offset, er) })?;
            let mut again = Vec::new();
            walk(root, &mut again, 0, ents.len() + 4).map_err(|er| Failure { sig: "c02/tree/walk-again-error".into(), detail: format!("{er:?}") })?;
            ensure_eq!(again, want, "c02/tree/subtree-again", "second walk of the tree rooted at {:#x}", e.offset);
            {
                let root = tree.root().map_err(|er| Failure { sig: "c02/tree/root-again".into(), detail: format!("{er:?}") })?;
                let mut it = root.children();
                let _ = it.next();
            }
            let root = tree.root().map_err(|er| Failure { sig: "c02/tree/root-again".into(), detail: format!("{er:?}") })?;
            let mut third = Vec::new();
            walk(root, &mut third, 0, ents.len() + 4).map_err(|er| Failure { sig: "c02/tree/walk-again-error".into(), detail: format!("{er:?}") })?;
            ensure_eq!(third, want, "c02/tree/subtree-again", "walk after a partial traversal of the tree rooted at {:#x}", e.offset);
        }
        if i == 0 {
            // default root
            let mut tree = header.entries_tree(&abbrevs, None).map_err(|er| Failure { sig: "c02/tree/open".into(), detail: format!("{er:?}") })?;
            let root = tree.root().map_err(|er| Failure { sig: "c02/tree/root".into(), detail: format!("{er:?}") })?;
            let mut got2 = Vec::new();
            walk(root, &mut got2, 0, ents.len() + 4).map_err(|er| Failure { sig: "c02/tree/walk-error".into(), detail: format!("{er:?}") })?;
            ensure_eq!(got2, got, "c02/tree/default-root");
        }
        // partial walk: only direct children, skipping grandchildren (exercises the sibling fast path of the tree)
        if e.children {
            let mut tree = header.entries_tree(&abbrevs, Some(UnitOffset(e.offset))).map_err(|er| Failure { sig: "c02/tree/open".into(), detail: format!("{er:?}") })?;
            let root = tree.root().map_err(|er| Failure { sig: "c02/tree/root".into(), detail: format!("{er:?}") })?;
            let mut it = root.children();
            let mut kids = Vec::new();
            loop {
                match it.next() {
                    Ok(Some(c)) => kids.push(c.entry().offset().0),
                    Ok(None) => break,
                    Err(er) => fail!("c02/tree/children-error", "{:?}", er),
                }
                if kids.len() > ents.len() {
                    fail!("c02/tree/unbounded", "");
                }
            }
            let want: Vec<usize> = children_of(ents, i).iter().map(|k| ents[*k].offset).collect();
            ensure_eq!(kids, want, "c02/tree/direct-children", "children of {:#x} without descending", e.offset);
            // the same list when every child's subtree is entered and abandoned part-way (first grandchild, and its
            // first child): what was visited below must not change which siblings follow
            let mut tree = header.entries_tree(&abbrevs, Some(UnitOffset(e.offset))).map_err(|er| Failure { sig: "c02/tree/open".into(), detail: format!("{er:?}") })?;
            let root = tree.root().map_err(|er| Failure { sig: "c02/tree/root".into(), detail: format!("{er:?}") })?;
            let mut it = root.children();
            let mut kids = Vec::new();
            loop {
                match it.next() {
                    Ok(Some(c)) => {
                        kids.push(c.entry().offset().0);
                        let mut gi = c.children();
                        if let Ok(Some(g)) = gi.next() {
                            let mut ggi = g.children();
                            let _ = ggi.next();
                        }
                    }
                    Ok(None) => break,
                    Err(er) => fail!("c02/tree/children-error", "{:?}", er),
                }
                if kids.len() > ents.len() {
                    fail!("c02/tree/unbounded", "");
                }
            }
            ensure_eq!(kids, want, "c02/tree/children-after-partial-descent", "children of {:#x} when each child's subtree is entered and abandoned part-way", e.offset);
        }
    }
    // positioned reads outside the entries
    ensure!(header.entries_at_offset(&abbrevs, UnitOffset(rec.total_len)).is_err(), "c02/positioned/end-offset-accepted", "");
    ensure!(header.entries_raw(&abbrevs, Some(UnitOffset(rec.header_size.saturating_sub(1)))).is_err(), "c02/positioned/header-offset-accepted", "");
    let _ = cx;
    Ok(())
}

fn check_forest(f: &ForestCase, cx: &mut Ctx) -> R {
    let mut built = build_info(&f.units, f.in_types);
    // a sibling form that is too narrow for the unit would make the input ill-formed: widen it
    let mut widened;
    let mut f = f;
    let too_narrow = |u: &UnitSpec, r: &UnitRec| u.abbrevs.iter().any(|a| a.attrs.iter().any(|x| x.0 == 0x01 && ((x.1 == F_REF1 && r.total_len > 0xff) || (x.1 == F_REF2 && r.total_len > 0xffff))));
    if f.units.iter().zip(built.units.iter()).any(|(u, r)| too_narrow(u, r)) {
        widened = ForestCase { units: f.units.clone(), in_types: f.in_types, scheme: f.scheme };
        for u in widened.units.iter_mut() {
            for a in u.abbrevs.iter_mut() {
                for x in a.attrs.iter_mut() {
                    if x.0 == 0x01 {
                        x.1 = F_REF4;
                    }
                }
            }
        }
        built = build_info(&widened.units, widened.in_types);
        f = &widened;
        cx.label("sibling-form-widened");
    }
    let endian = if f.units[0].cfg.big { RunTimeEndian::Big } else { RunTimeEndian::Little };
    let da = DebugAbbrev::new(&built.abbrev, endian);
    let mut headers: Vec<UnitHeader<Rdr>> = Vec::new();
    if f.in_types {
        let dt = DebugTypes::new(&built.info, endian);
        crate::std_iter_agrees!(dt.units(), |h: &UnitHeader<Rdr>| format!("{:?} len {}", h.offset(), h.unit_length()), "c02/units/std-iterator");
        let mut it = dt.units();
        loop {
            match it.next() {
                Ok(Some(h)) => headers.push(h),
                Ok(None) => break,
                Err(e) => fail!("c02/units/error", "{:?} after {} units", e, headers.len()),
            }
            if headers.len() > f.units.len() {
                break;
            }
        }
    } else {
        let di = DebugInfo::new(&built.info, endian);
        crate::std_iter_agrees!(di.units(), |h: &UnitHeader<Rdr>| format!("{:?} len {}", h.offset(), h.unit_length()), "c02/units/std-iterator");
        let mut it = di.units();
        loop {
            match it.next() {
                Ok(Some(h)) => headers.push(h),
                Ok(None) => break,
                Err(e) => fail!("c02/units/error", "{:?} after {} units", e, headers.len()),
            }
            if headers.len() > f.units.len() {
                break;
            }
        }
        // header_from_offset agrees with iteration
        for (i, rec) in built.units.iter().enumerate() {
            let h = di.header_from_offset(gimli::DebugInfoOffset(rec.offset)).map_err(|e| Failure { sig: "c02/header_from_offset".into(), detail: format!("{e:?}") })?;
            ensure_eq!(Some(&h), headers.get(i), "c02/header_from_offset/differs", "unit {}", i);
        }
    }
    ensure_eq!(headers.len(), f.units.len(), "c02/units/count");
    let mut total_entries = 0;
    let mut max_depth = 0;
    let mut branching = false;
    for (i, h) in headers.iter().enumerate() {
        check_unit(h, &built.units[i], &f.units[i], &da, f.in_types, if f.in_types { &built.info[..] } else { &built.info[..] }, cx)?;
        let ents = &built.units[i].entries;
        total_entries += ents.iter().filter(|e| e.id.is_some()).count();
        max_depth = max_depth.max(ents.iter().map(|e| e.depth).max().unwrap_or(0));
        for (pi, p) in ents.iter().enumerate() {
            if p.id.is_some() && children_of(ents, pi).iter().filter(|k| ents[**k].children && !children_of(ents, **k).is_empty()).count() >= 2 {
                branching = true;
            }
        }
    }
    if total_entries >= 5 && max_depth >= 3 && branching {
        cx.nt();
    }
    cx.label(match f.scheme {
        0 => "codes:sequential",
        1 => "codes:permuted",
        2 => "codes:sparse",
        3 => "codes:huge",
        4 => "codes:dense-sparse-dense",
        _ => "codes:alias-mod-2^32",
    });
    if f.in_types {
        cx.label(".debug_types");
    }
    for u in &f.units {
        cx.label(match u.kind {
            UnitKind::Compile => "unit:compile",
            UnitKind::Partial => "unit:partial",
            UnitKind::Type { .. } => "unit:type",
            UnitKind::Skeleton(_) => "unit:skeleton",
            UnitKind::SplitCompile(_) => "unit:split_compile",
            UnitKind::SplitType { .. } => "unit:split_type",
        });
        if u.abbrevs.iter().any(|a| a.attrs.iter().any(|x| x.0 == 0x01)) {
            cx.label("has DW_AT_sibling");
        }
    }
    Ok(())
}

/// Duplicate abbreviation codes must be rejected wherever the duplicate sits.
fn check_duplicate(ch: &mut Choices, cx: &mut Ctx) -> R {
    let n = 2 + ch.below(6);
    let mut codes: Vec<u64> = Vec::new();
    for i in 0..n {
        codes.push(match ch.below(4) {
            0 => i as u64 + 1,
            1 if ch.bool() => 1 + ch.below(8) as u64,
            1 => 100 + ch.below(50) as u64,
            2 => (1u64 << 40) + ch.below(4) as u64,
            _ => codes.len() as u64 + 1,
        });
    }
    // make sure there is at least one duplicate
    let a = ch.below(n);
    let mut b = ch.below(n);
    if a == b {
        b = (b + 1) % n;
    }
    codes[b] = codes[a];
    let list: Vec<Abbrev> = codes.iter().enumerate().map(|(i, c)| Abbrev { code: *c, tag: 0x11 + i as u16, children: false, attrs: vec![] }).collect();
    let mut w = W::new(false);
    encode_abbrevs(&list, &mut w);
    let da = DebugAbbrev::new(&w.buf, RunTimeEndian::Little);
    cx.sample_with(|| format!("abbreviation codes {:?} (duplicate) must be rejected", codes));
    match da.abbreviations(gimli::DebugAbbrevOffset(0)) {
        Err(gimli::Error::DuplicateAbbreviationCode(c)) => {
            ensure!(codes.iter().filter(|x| **x == c).count() >= 2, "c02/duplicate/wrong-code-reported", "reported {:#x}, codes {:?}", c, codes);
            Ok(())
        }
        other => fail!("c02/duplicate/accepted", "codes {:?} -> {:?}", codes, other.map(|_| "Ok")),
    }
}

/// Alphabet of the exhaustive abbreviation-code enumeration: small codes (the sequential fast path and its
/// boundary with the sparse map) and two huge ones.
const CODE_ALPHABET: [u64; 8] = [1, 2, 3, 4, 5, 6, 1 << 40, u64::MAX];

fn code_sequence(mut idx: u64, len: usize) -> Vec<u64> {
    let k = CODE_ALPHABET.len() as u64;
    let mut v = Vec::with_capacity(len);
    for _ in 0..len {
        v.push(CODE_ALPHABET[(idx % k) as usize]);
        idx /= k;
    }
    v
}

/// One declaration order of abbreviation codes: rejected exactly when a code repeats; otherwise every code maps to
/// its own declaration and nothing else is found.
fn check_code_sequence(codes: &[u64], cx: &mut Ctx) -> R {
    let list: Vec<Abbrev> = codes.iter().enumerate().map(|(i, c)| Abbrev { code: *c, tag: 0x100 + i as u16, children: i % 2 == 1, attrs: vec![] }).collect();
    let mut w = W::new(false);
    encode_abbrevs(&list, &mut w);
    let da = DebugAbbrev::new(&w.buf, RunTimeEndian::Little);
    let dup = codes.iter().enumerate().any(|(i, c)| codes[..i].contains(c));
    cx.say(|| format!("abbreviation codes in declaration order {:x?}; duplicate: {}", codes, dup));
    match da.abbreviations(gimli::DebugAbbrevOffset(0)) {
        Err(gimli::Error::DuplicateAbbreviationCode(c)) => {
            ensure!(dup, "c02/abbrev-order/rejected-without-duplicate", "codes {:x?} reported duplicate {:#x}", codes, c);
            ensure!(codes.iter().filter(|x| **x == c).count() >= 2, "c02/duplicate/wrong-code-reported", "reported {:#x}, codes {:x?}", c, codes);
            cx.nt();
        }
        Err(e) => fail!("c02/abbrev-order/error", "codes {:x?} -> {:?}", codes, e),
        Ok(t) => {
            ensure!(!dup, "c02/duplicate/accepted", "codes {:x?} accepted although a code repeats", codes);
            for (i, c) in codes.iter().enumerate() {
                match t.get(*c) {
                    Some(a) => {
                        ensure!(a.code() == *c && a.tag() == gimli::DwTag(0x100 + i as u16) && a.has_children() == (i % 2 == 1), "c02/abbrev/get-wrong", "codes {:x?}: get({:#x}) returned code {:#x} tag {:#x}", codes, c, a.code(), a.tag().0);
                    }
                    None => fail!("c02/abbrev/get-missing", "codes {:x?}: get({:#x}) found nothing", codes, c),
                }
            }
            for c in CODE_ALPHABET.iter().chain([0u64, 7, 8, (1 << 40) + 1, (1 << 32) + 1, u64::MAX - 1].iter()) {
                if !codes.contains(c) {
                    ensure!(t.get(*c).is_none(), "c02/abbrev/get-phantom", "codes {:x?}: get({:#x}) found a declaration", codes, c);
                }
            }
            if codes.len() >= 3 {
                cx.nt();
            }
        }
    }
    Ok(())
}

impl Prop for C02 {
    fn id(&self) -> &'static str {
        "C02"
    }
    fn exhaustive(&self, tier: Tier, dev: bool, shard: usize, nshards: usize, ex: &mut Exhaust) {
        let k = CODE_ALPHABET.len() as u64;
        let maxlen = match (tier, dev) {
            (Tier::Quick, true) => 4,
            (Tier::Quick, false) => 5,
            (Tier::Thorough, true) => 5,
            (Tier::Thorough, false) => 7,
        };
        let mut total = 0u64;
        let mut nt = 0u64;
        for len in 1..=maxlen {
            let count = k.pow(len as u32);
            let mut idx = shard as u64;
            while idx < count {
                let codes = code_sequence(idx, len);
                let mut cx = Ctx::new(ex.known, false, ex.dev);
                let r = catch("enum-abbrev-codes", || check_code_sequence(&codes, &mut cx)).and_then(|r| r);
                total += 1;
                if cx.nontrivial {
                    nt += 1;
                }
                if let Err(e) = r {
                    let mut data = vec![len as u8];
                    data.extend_from_slice(&idx.to_le_bytes());
                    ex.fail("enum-abbrev-codes", &data, e);
                    if ex.stop {
                        return;
                    }
                }
                idx += nshards as u64;
            }
        }
        ex.tally(total, nt, "exhaustive-abbreviation-code-orders");
        ex.complete(&format!("all declaration orders of length<={} over the codes {{1..6, 2^40, 2^64-1}}", maxlen));
    }
    fn replay_special(&self, mode: &str, data: &[u8], cx: &mut Ctx) -> R {
        if mode != "enum-abbrev-codes" || data.len() < 9 {
            fail!("replay/unknown-mode", "{}", mode);
        }
        let mut a = [0u8; 8];
        a.copy_from_slice(&data[1..9]);
        check_code_sequence(&code_sequence(u64::from_le_bytes(a), data[0] as usize), cx)
    }
    fn rule(&self) -> &'static str {
        "random forests: 1-3 units per section (.debug_info with every DWARF 5 unit type and v2-4 compile units; .debug_types with v2-4 type units), each a generated tree of 1-40 entries (shapes: random, deep chain, wide, leaf-only, empty child lists, trailing null padding), units differing in version/format/address size, shared or separate abbreviation tables, abbreviation code schemes {sequential, permuted declaration order, sparse, huge >= 2^63, dense-sparse-dense, aliasing modulo 2^32}, DW_AT_sibling none / on all parents / on a subset in forms ref1/2/4/8/udata. Oracle: the assembler's record (offset, depth, tag, children flag, attribute count, parent) per entry. Compared: raw read_entry with next_offset/next_depth, the same walk with read_abbreviation + skip_attributes (attributes incl. DW_FORM_indirect after fixed-size and block forms), next_dfs, next_entry incl. nulls, next_sibling from every parent, full and children-only walks of the tree iterator from every entry, entry()/entries_raw/entries_tree/entries_at_offset positioned at every entry and null, header accessors and offset conversions, Abbreviations::get for present and absent (+-1, +-2^32, |2^63) codes; separate mode: tables with a duplicated code must be rejected; exhaustive mode: every declaration order of up to 5 (thorough: 7) codes over {1..6, 2^40, 2^64-1} is rejected exactly when a code repeats and otherwise maps every code to its own declaration. Non-trivial = >=5 entries, depth >=3 and a node with >=2 children that themselves have children; distinct by choice string. Later additions: palettes with the supplementary-file forms; sibling pointers on entries without children; the std Iterator view of the unit-header iterators. Round-8 additions: indirect attributes whose actual form is a vendor form (two-byte form code); unit offset conversions in both unit sections."
    }
    fn assumptions(&self) -> Vec<&'static str> {
        vec![
            "forests are well formed: sibling attributes point at the next sibling or at the null that ends the list; no extra nulls inside child lists",
            "positioned reads at non-entry offsets are left to C01 (no panic), not compared here",
        ]
    }
    fn max_len(&self) -> usize {
        700
    }
    fn cases(&self, tier: Tier, dev: bool) -> u64 {
        match (tier, dev) {
            (Tier::Quick, false) => 60_000,
            (Tier::Quick, true) => 6_000,
            (Tier::Thorough, false) => 3_000_000,
            (Tier::Thorough, true) => 200_000,
        }
    }
    fn run_case(&self, ch: &mut Choices, cx: &mut Ctx) -> R {
        if ch.chance(16) {
            cx.label("mode:duplicate-codes");
            return check_duplicate(ch, cx);
        }
        let mut f = gen_forest(ch);
        if f.scheme == 1 {
            permute_abbrevs(&mut f.units, ch);
        }
        cx.sample_with(|| {
            format!(
                "{} units{}: {}",
                f.units.len(),
                if f.in_types { " in .debug_types" } else { "" },
                f.units.iter().map(|u| format!("[{} {:?} codes {:?} root {}]", u.cfg.describe(), u.kind, u.abbrevs.iter().map(|a| a.code).collect::<Vec<_>>(), shape_str(&u.root, &u.abbrevs))).collect::<Vec<_>>().join(" ")
            )
        });
        check_forest(&f, cx)
    }
}

fn shape_str(d: &DieSpec, ab: &[Abbrev]) -> String {
    let a = &ab[d.abbrev];
    if d.children.is_empty() {
        format!("{:x}{}", a.tag, if a.children { "()" } else { "" })
    } else {
        format!("{:x}({})", a.tag, d.children.iter().map(|c| shape_str(c, ab)).collect::<Vec<_>>().join(","))
    }
}
