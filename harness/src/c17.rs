//! C17 — accelerated lookups and section plumbing agree with exhaustive scans.
use crate::core::*;
use crate::enc::{mask, W};
use crate::{ensure, ensure_eq, fail};
use gimli::{EndianSlice, Reader, RunTimeEndian, Section, SectionId};
use std::collections::BTreeMap;

pub struct C17;

// ---------------------------------------------------------------------------
// (a) package indexes and DwarfPackage
// ---------------------------------------------------------------------------

#[derive(Clone, Debug)]
struct IndexModel {
    version: u16,
    /// (DW_SECT number as written, gimli SectionId of the dwo section)
    columns: Vec<(u32, SectionId)>,
    keys: Vec<u64>,
    slot_count: u32,
    /// per unit, per column: (offset, size)
    rows: Vec<Vec<(u32, u32)>>,
    /// slot -> row (1-based) after placement
    slots: Vec<(u64, u32)>,
}

fn v2_columns() -> Vec<(u32, SectionId)> {
    vec![(1, SectionId::DebugInfo), (2, SectionId::DebugTypes), (3, SectionId::DebugAbbrev), (4, SectionId::DebugLine), (5, SectionId::DebugLoc), (6, SectionId::DebugStrOffsets), (7, SectionId::DebugMacinfo), (8, SectionId::DebugMacro)]
}

fn v5_columns() -> Vec<(u32, SectionId)> {
    vec![(1, SectionId::DebugInfo), (3, SectionId::DebugAbbrev), (4, SectionId::DebugLine), (5, SectionId::DebugLocLists), (6, SectionId::DebugStrOffsets), (7, SectionId::DebugMacro), (8, SectionId::DebugRngLists)]
}

fn gen_keys(ch: &mut Choices, n: usize, slot_count: u32) -> Vec<u64> {
    let m = slot_count as u64 - 1;
    let mut keys: Vec<u64> = Vec::new();
    let mut attempts = 0;
    while keys.len() < n {
        attempts += 1;
        if attempts > 8 * n + 8 {
            // exhausted choice strings produce the same draw again and again: fall back to a fresh key
            let k = (1u64 << 62) + keys.len() as u64 + 1;
            if !keys.contains(&k) {
                keys.push(k);
            }
            continue;
        }
        let k = match ch.below(6) {
            // same primary hash as an earlier key
            0 if !keys.is_empty() => {
                let base = keys[ch.below(keys.len())];
                (base & m) | ((ch.u64() & !m) | (1 << 40))
            }
            // same primary and secondary hash as an earlier key
            1 if !keys.is_empty() => {
                let base = keys[ch.below(keys.len())];
                let hi = (base >> 32) & m;
                (base & m) | (hi << 32) | ((ch.u64() & 0x00ff_ff00) << 8 & !m & 0xffff_ffff) | ((ch.below(0xffff) as u64 + 1) << 48 & !(m << 32))
            }
            2 => 1 + ch.below(8) as u64,
            _ => ch.u64() | 1 << 63,
        };
        if k != 0 && !keys.contains(&k) {
            keys.push(k);
        }
    }
    keys
}

fn gen_index(ch: &mut Choices, version: u16, contributions: &mut BTreeMap<SectionId, Vec<u8>>, tag: u8) -> IndexModel {
    let all = if version == 2 { v2_columns() } else { v5_columns() };
    let mut columns: Vec<(u32, SectionId)> = all.iter().filter(|_| ch.chance(150)).copied().collect();
    if columns.is_empty() {
        columns.push(all[ch.below(all.len())]);
    }
    if ch.bool() {
        let r = ch.below(columns.len());
        columns.rotate_left(r);
    }
    let n = ch.below(7);
    let min_slots = (n as u32 + 1).next_power_of_two();
    let slot_count = if n == 0 && ch.bool() { 0 } else { min_slots << ch.below(2) };
    let keys = if slot_count == 0 { Vec::new() } else { gen_keys(ch, n, slot_count) };
    // contributions: appended to the shared package sections
    let mut rows = Vec::new();
    for ui in 0..keys.len() {
        let mut row = Vec::new();
        for (_, sid) in &columns {
            let sec = contributions.entry(*sid).or_default();
            let size = ch.below(24) as u32;
            let off = sec.len() as u32;
            for k in 0..size {
                sec.push(if k == 0 { tag } else if k == 1 { ui as u8 } else { 0x40 + (k as u8 & 0x3f) });
            }
            row.push((off, size));
        }
        rows.push(row);
    }
    // placement per the DWARF package file format
    let mut slots = vec![(0u64, 0u32); slot_count as usize];
    if slot_count > 0 {
        let m = slot_count as u64 - 1;
        for (ui, k) in keys.iter().enumerate() {
            let mut h = k & m;
            let h2 = ((k >> 32) & m) | 1;
            while slots[h as usize].0 != 0 {
                h = (h + h2) & m;
            }
            slots[h as usize] = (*k, ui as u32 + 1);
        }
    }
    IndexModel { version, columns, keys, slot_count, rows, slots }
}

fn encode_index(ix: &IndexModel, big: bool) -> Vec<u8> {
    let mut w = W::new(big);
    if ix.version == 2 {
        w.u32(2);
    } else {
        w.u16(5).u16(0);
    }
    w.u32(ix.columns.len() as u32).u32(ix.keys.len() as u32).u32(ix.slot_count);
    for s in &ix.slots {
        w.u64(s.0);
    }
    for s in &ix.slots {
        w.u32(s.1);
    }
    for c in &ix.columns {
        w.u32(c.0);
    }
    for r in &ix.rows {
        for c in r {
            w.u32(c.0);
        }
    }
    for r in &ix.rows {
        for c in r {
            w.u32(c.1);
        }
    }
    w.buf
}

fn index_section_name(s: gimli::IndexSectionId) -> SectionId {
    s.section_id()
}

fn check_index<'a>(ix: &IndexModel, idx: &gimli::UnitIndex<EndianSlice<'a, RunTimeEndian>>, ch: &mut Choices, cx: &mut Ctx, what: &str) -> R {
    ensure_eq!(idx.version(), ix.version, format!("c17/index/{}/version", what));
    ensure_eq!(idx.section_count(), ix.columns.len() as u32, format!("c17/index/{}/section-count", what));
    ensure_eq!(idx.unit_count(), ix.keys.len() as u32, format!("c17/index/{}/unit-count", what));
    ensure_eq!(idx.slot_count(), ix.slot_count, format!("c17/index/{}/slot-count", what));
    for (ui, k) in ix.keys.iter().enumerate() {
        ensure_eq!(idx.find(*k), Some(ui as u32 + 1), format!("c17/index/{}/find-present", what), "key {:#x} (slots {:x?})", k, ix.slots);
        let got: Vec<(SectionId, u32, u32)> = match idx.sections(ui as u32 + 1) {
            Ok(it) => it.map(|s| (index_section_name(s.section), s.offset, s.size)).collect(),
            Err(e) => fail!(format!("c17/index/{}/sections-error", what), "row {}: {:?}", ui + 1, e),
        };
        let want: Vec<(SectionId, u32, u32)> = ix.columns.iter().zip(ix.rows[ui].iter()).map(|(c, r)| (c.1, r.0, r.1)).collect();
        ensure_eq!(got, want, format!("c17/index/{}/sections", what), "row {}", ui + 1);
    }
    ensure!(idx.sections(0).is_err(), format!("c17/index/{}/row-zero", what), "");
    ensure!(idx.sections(ix.keys.len() as u32 + 1).is_err(), format!("c17/index/{}/row-past-end", what), "");
    // absent keys: random, and ones that walk occupied chains
    let m = (ix.slot_count as u64).saturating_sub(1);
    let mut walked = false;
    for i in 0..12 {
        let k = if i < 8 && !ix.keys.is_empty() {
            let base = ix.keys[ch.below(ix.keys.len())];
            (base & m) | ((ch.u64() | 1 << 50) & !m)
        } else {
            ch.u64() | 1
        };
        if k == 0 || ix.keys.contains(&k) {
            continue;
        }
        if ix.slot_count > 0 && ix.slots[(k & m) as usize].0 != 0 {
            walked = true;
        }
        ensure_eq!(idx.find(k), None, format!("c17/index/{}/find-absent", what), "key {:#x} (slots {:x?})", k, ix.slots);
    }
    // a chain of length >= 2 exists when two keys share the primary hash
    let chain = ix.keys.iter().enumerate().any(|(i, a)| ix.keys[..i].iter().any(|b| a & m == b & m));
    if chain && walked {
        cx.nt();
    }
    Ok(())
}

fn check_package(ch: &mut Choices, cx: &mut Ctx) -> R {
    cx.label("package indexes");
    let big = ch.bool();
    let endian = if big { RunTimeEndian::Big } else { RunTimeEndian::Little };
    let version = ch.pick(&[2u16, 5]);
    let mut contributions: BTreeMap<SectionId, Vec<u8>> = BTreeMap::new();
    let cu = gen_index(ch, version, &mut contributions, 0xc0);
    let tu = gen_index(ch, version, &mut contributions, 0x70);
    cx.sample_with(|| format!("v{} {} cu index {:x?} tu index {:x?}", version, if big { "BE" } else { "LE" }, cu, tu));
    let cu_bytes = encode_index(&cu, big);
    let tu_bytes = encode_index(&tu, big);
    let str_bytes = b"package strings\0".to_vec();
    let empty: Vec<u8> = Vec::new();
    let get = |id: SectionId| -> &[u8] {
        match id {
            SectionId::DebugCuIndex => &cu_bytes,
            SectionId::DebugTuIndex => &tu_bytes,
            SectionId::DebugStr => &str_bytes,
            other => contributions.get(&other).unwrap_or(&empty),
        }
    };
    let dwp = match gimli::DwarfPackage::load(|id| -> Result<_, gimli::Error> { Ok(EndianSlice::new(get(id), endian)) }, EndianSlice::new(&[], endian)) {
        Ok(p) => p,
        Err(e) => fail!("c17/package/load", "{:?}", e),
    };
    check_index(&cu, &dwp.cu_index, ch, cx, "cu")?;
    check_index(&tu, &dwp.tu_index, ch, cx, "tu")?;
    // the parent supplies .debug_addr and .debug_ranges
    let parent_addr = vec![0xaau8; 5];
    let parent_ranges = vec![0xbbu8; 7];
    let parent: gimli::Dwarf<EndianSlice<RunTimeEndian>> = gimli::Dwarf::load(|id| -> Result<_, gimli::Error> {
        Ok(EndianSlice::new(
            match id {
                SectionId::DebugAddr => &parent_addr,
                SectionId::DebugRanges => &parent_ranges,
                _ => &empty,
            },
            endian,
        ))
    })
    .unwrap();
    let check_unit = |ix: &IndexModel, ui: usize, d: &gimli::Dwarf<EndianSlice<RunTimeEndian>>, what: &str| -> R {
        let slice_of = |sid: SectionId| -> Vec<u8> {
            match ix.columns.iter().position(|c| c.1 == sid) {
                Some(ci) => {
                    let (o, s) = ix.rows[ui][ci];
                    contributions[&sid][o as usize..(o + s) as usize].to_vec()
                }
                None => Vec::new(),
            }
        };
        let pairs: Vec<(SectionId, Vec<u8>)> = vec![
            (SectionId::DebugAbbrev, d.debug_abbrev.reader().slice().to_vec()),
            (SectionId::DebugInfo, d.debug_info.reader().slice().to_vec()),
            (SectionId::DebugLine, d.debug_line.reader().slice().to_vec()),
            (SectionId::DebugStrOffsets, d.debug_str_offsets.reader().slice().to_vec()),
            (SectionId::DebugMacinfo, d.debug_macinfo.reader().slice().to_vec()),
            (SectionId::DebugMacro, d.debug_macro.reader().slice().to_vec()),
            (SectionId::DebugTypes, d.debug_types.reader().slice().to_vec()),
            (SectionId::DebugRngLists, d.ranges.debug_rnglists().reader().slice().to_vec()),
        ];
        for (sid, got) in pairs {
            ensure_eq!(got, slice_of(sid), format!("c17/package/{}/contribution", what), "unit {} section {:?}", ui, sid);
        }
        ensure_eq!(d.debug_str.reader().slice(), &str_bytes[..], format!("c17/package/{}/debug_str", what));
        ensure_eq!(d.debug_addr.reader().slice(), &parent_addr[..], format!("c17/package/{}/debug_addr-from-parent", what));
        ensure_eq!(d.ranges.debug_ranges().reader().slice(), &parent_ranges[..], format!("c17/package/{}/debug_ranges-from-parent", what));
        // location lists: through the offset id plumbing
        for sid in [SectionId::DebugLoc, SectionId::DebugLocLists] {
            if let Some(ci) = ix.columns.iter().position(|c| c.1 == sid) {
                let (o, s) = ix.rows[ui][ci];
                if s > 0 {
                    let whole = EndianSlice::new(&contributions[&sid][..], endian);
                    let mut part = whole;
                    part.skip(o as usize).unwrap();
                    let got = d.lookup_offset_id(part.offset_id());
                    ensure_eq!(got.map(|g| (g.1, g.2)), Some((sid, 0usize)), format!("c17/package/{}/loc-contribution", what), "unit {} section {:?} offset {}", ui, sid, o);
                }
            }
        }
        Ok(())
    };
    for (ui, k) in cu.keys.iter().enumerate() {
        match dwp.find_cu(gimli::DwoId(*k), &parent) {
            Ok(Some(d)) => check_unit(&cu, ui, &d, "find_cu")?,
            other => fail!("c17/package/find_cu", "key {:#x}: {:?}", k, other.map(|o| o.is_some())),
        }
        match dwp.cu_sections(ui as u32 + 1, &parent) {
            Ok(d) => check_unit(&cu, ui, &d, "cu_sections")?,
            Err(e) => fail!("c17/package/cu_sections", "row {}: {:?}", ui + 1, e),
        }
    }
    for (ui, k) in tu.keys.iter().enumerate() {
        match dwp.find_tu(gimli::DebugTypeSignature(*k), &parent) {
            Ok(Some(d)) => check_unit(&tu, ui, &d, "find_tu")?,
            other => fail!("c17/package/find_tu", "signature {:#x}: {:?}", k, other.map(|o| o.is_some())),
        }
        match dwp.tu_sections(ui as u32 + 1, &parent) {
            Ok(d) => check_unit(&tu, ui, &d, "tu_sections")?,
            Err(e) => fail!("c17/package/tu_sections", "row {}: {:?}", ui + 1, e),
        }
    }
    // keys of one index are absent from the other
    for k in &cu.keys {
        if !tu.keys.contains(k) {
            ensure!(matches!(dwp.find_tu(gimli::DebugTypeSignature(*k), &parent), Ok(None)), "c17/package/find_tu-absent", "key {:#x}", k);
        }
    }
    for k in &tu.keys {
        if !cu.keys.contains(k) {
            ensure!(matches!(dwp.find_cu(gimli::DwoId(*k), &parent), Ok(None)), "c17/package/find_cu-absent", "key {:#x}", k);
        }
    }
    Ok(())
}

// ---------------------------------------------------------------------------
// (b) address ranges, (c) public names, (d) string offset / address tables
// ---------------------------------------------------------------------------

fn check_aranges(ch: &mut Choices, cx: &mut Ctx) -> R {
    cx.label("aranges");
    let big = ch.bool();
    let endian = if big { RunTimeEndian::Big } else { RunTimeEndian::Little };
    let nsets = 1 + ch.below(3);
    let mut w = W::new(big);
    let mut model: Vec<(bool, u8, u64, Vec<(u64, u64)>)> = Vec::new();
    let mut starts: Vec<usize> = Vec::new();
    for _ in 0..nsets {
        let format64 = ch.chance(100);
        let a = ch.pick(&[8u8, 4, 2, 1]);
        let m = mask(a);
        let info_off = ch.biased(if format64 { 40 } else { 30 });
        let n = ch.below(6);
        let mut tuples = Vec::new();
        for _ in 0..n {
            tuples.push(match ch.below(6) {
                0 => (0, 0), // interior null tuple
                1 => (0, 1 + ch.below(8) as u64),
                2 => (m - 1, 1), // tombstone
                _ => ((0x10 + ch.below(0x60) as u64 * 4) & (m >> 1), 1 + ch.below(0x20) as u64),
            });
        }
        let start = w.len();
        starts.push(start);
        let tok = w.begin_length(format64);
        w.u16(2).word(info_off, format64).u8(a).u8(0);
        // the first tuple is aligned to twice the address size, measured from the start of the set
        while (w.len() - start) % (2 * a as usize) != 0 {
            w.u8(0);
        }
        for t in &tuples {
            w.uint(t.0, a).uint(t.1, a);
        }
        if ch.chance(220) {
            w.uint(0, a).uint(0, a);
        }
        w.end_length(tok);
        model.push((format64, a, info_off, tuples));
    }
    cx.sample_with(|| format!("{} aranges sets {:x?}", if big { "BE" } else { "LE" }, model));
    let sec = gimli::DebugAranges::new(&w.buf, endian);
    crate::std_iter_agrees!(sec.headers(), |h: &gimli::ArangeHeader<EndianSlice<RunTimeEndian>>| format!("{:?}", h.offset()), "c17/aranges/headers-std-iterator");
    let mut hs = sec.headers();
    for (si, (format64, a, info_off, tuples)) in model.iter().enumerate() {
        let h = match hs.next() {
            Ok(Some(h)) => h,
            other => fail!("c17/aranges/header", "set {}: {:?}", si, other.map(|o| o.is_some())),
        };
        ensure_eq!(h.offset().0, starts[si], "c17/aranges/offset", "set {}", si);
        // the positioned lookup of a set = the set the scan found there
        match sec.header(gimli::DebugArangesOffset(starts[si])) {
            Ok(h2) => ensure!(h2 == h, "c17/aranges/header-at-offset", "set {}: {:?} vs {:?}", si, h2, h),
            Err(e) => fail!("c17/aranges/header-at-offset", "set {}: {:?}", si, e),
        }
        ensure_eq!(h.encoding().address_size, *a, "c17/aranges/address-size", "set {}", si);
        ensure_eq!(h.encoding().format == gimli::Format::Dwarf64, *format64, "c17/aranges/format", "set {}", si);
        ensure_eq!(h.debug_info_offset().0 as u64, *info_off, "c17/aranges/info-offset", "set {}", si);
        let tomb = mask(*a) - 1;
        let want_raw: Vec<(u64, u64)> = tuples.iter().copied().filter(|t| *t != (0, 0)).collect();
        let want: Vec<(u64, u64, u64)> = want_raw.iter().filter(|t| t.0 < tomb).map(|t| (t.0, t.1, t.0 + t.1)).collect();
        crate::std_iter_agrees!(h.entries(), |e: &gimli::ArangeEntry| format!("{:#x}+{:#x}", e.address(), e.length()), "c17/aranges/entries-std-iterator");
        let mut got = Vec::new();
        let mut it = h.entries();
        loop {
            match it.next() {
                Ok(Some(e)) => got.push((e.address(), e.length(), e.range().end)),
                Ok(None) => break,
                Err(e) => fail!("c17/aranges/entries-error", "set {}: {:?}", si, e),
            }
            if got.len() > 100 {
                break;
            }
        }
        ensure_eq!(got, want, "c17/aranges/entries", "set {} (format64 {} address size {}): tuples present {:x?}", si, format64, a, tuples);
        let mut got_raw = Vec::new();
        let mut it = h.entries();
        while let Ok(Some(e)) = it.next_raw() {
            got_raw.push((e.address(), e.length()));
            if got_raw.len() > 100 {
                break;
            }
        }
        ensure_eq!(got_raw, want_raw, "c17/aranges/raw-entries", "set {}", si);
        if *format64 || tuples.contains(&(0, 0)) {
            cx.nt();
        }
    }
    ensure!(matches!(hs.next(), Ok(None)), "c17/aranges/extra-set", "");
    Ok(())
}

fn check_pubnames(ch: &mut Choices, cx: &mut Ctx) -> R {
    cx.label("pubnames/pubtypes");
    let big = ch.bool();
    let endian = if big { RunTimeEndian::Big } else { RunTimeEndian::Little };
    let nsets = 1 + ch.below(3);
    let mut w = W::new(big);
    let mut model: Vec<(u64, u64, Vec<u8>)> = Vec::new();
    for _ in 0..nsets {
        let format64 = ch.chance(100);
        let unit_off = ch.biased(if format64 { 40 } else { 30 });
        let unit_len = ch.biased(30);
        let tok = w.begin_length(format64);
        w.u16(2).word(unit_off, format64).word(unit_len, format64);
        for _ in 0..ch.below(5) {
            let die = 1 + ch.biased(28);
            let n = ch.below(8);
            let name: Vec<u8> = (0..n).map(|_| b'a' + ch.u8() % 26).collect();
            w.word(die, format64).cstr(&name);
            model.push((unit_off, die, name));
        }
        w.word(0, format64);
        w.end_length(tok);
        if format64 {
            cx.nt();
        }
    }
    cx.sample_with(|| format!("{} {} sets: {:x?}", if big { "BE" } else { "LE" }, nsets, model));
    let pn = gimli::DebugPubNames::new(&w.buf, endian);
    let mut got = Vec::new();
    let mut it = pn.items();
    loop {
        match it.next() {
            Ok(Some(e)) => got.push((e.unit_header_offset().0 as u64, e.die_offset().0 as u64, e.name().slice().to_vec())),
            Ok(None) => break,
            Err(e) => fail!("c17/pubnames/error", "{:?}", e),
        }
    }
    ensure_eq!(got, model, "c17/pubnames/items");
    let pt = gimli::DebugPubTypes::new(&w.buf, endian);
    let mut got = Vec::new();
    let mut it = pt.items();
    loop {
        match it.next() {
            Ok(Some(e)) => got.push((e.unit_header_offset().0 as u64, e.die_offset().0 as u64, e.name().slice().to_vec())),
            Ok(None) => break,
            Err(e) => fail!("c17/pubtypes/error", "{:?}", e),
        }
    }
    ensure_eq!(got, model, "c17/pubtypes/items");
    Ok(())
}

fn check_tables(ch: &mut Choices, cx: &mut Ctx) -> R {
    cx.label("string offset and address tables");
    let big = ch.bool();
    let endian = if big { RunTimeEndian::Big } else { RunTimeEndian::Little };
    let n = 1 + ch.below(12);
    for format64 in [false, true] {
        let mut w = W::new(big);
        let pad = ch.below(20);
        for i in 0..pad {
            w.u8(0xe0 + i as u8);
        }
        let vals: Vec<u64> = (0..n).map(|_| ch.biased(if format64 { 50 } else { 32 })).collect();
        for v in &vals {
            w.word(*v, format64);
        }
        let sec = gimli::DebugStrOffsets::from(EndianSlice::new(&w.buf, endian));
        let fmt = if format64 { gimli::Format::Dwarf64 } else { gimli::Format::Dwarf32 };
        for (i, v) in vals.iter().enumerate() {
            let got = sec.get_str_offset(fmt, gimli::DebugStrOffsetsBase(pad), gimli::DebugStrOffsetsIndex(i));
            ensure_eq!(got.map(|o| o.0 as u64).map_err(|e| format!("{:?}", e)), Ok(*v), "c17/str_offsets/get", "index {} format64 {}", i, format64);
        }
        ensure!(sec.get_str_offset(fmt, gimli::DebugStrOffsetsBase(pad), gimli::DebugStrOffsetsIndex(n)).is_err(), "c17/str_offsets/past-end", "");
    }
    for a in [1u8, 2, 4, 8] {
        let mut w = W::new(big);
        let pad = ch.below(20);
        for i in 0..pad {
            w.u8(0xd0 + i as u8);
        }
        let vals: Vec<u64> = (0..n).map(|_| ch.biased(8 * a as u32)).collect();
        for v in &vals {
            w.uint(*v, a);
        }
        let sec = gimli::DebugAddr::from(EndianSlice::new(&w.buf, endian));
        for (i, v) in vals.iter().enumerate() {
            let got = sec.get_address(a, gimli::DebugAddrBase(pad), gimli::DebugAddrIndex(i));
            ensure_eq!(got.map_err(|e| format!("{:?}", e)), Ok(*v), "c17/addr/get", "index {} size {}", i, a);
        }
        ensure!(sec.get_address(a, gimli::DebugAddrBase(pad), gimli::DebugAddrIndex(n)).is_err(), "c17/addr/past-end", "");
    }
    // a .debug_addr section made of several sets with their DWARF 5 headers: the scan reports every set where it is,
    // and the indexed lookup from a set's base (what DW_AT_addr_base holds) returns the scanned entries
    {
        let mut w = W::new(big);
        let nsets = 1 + ch.below(3);
        let mut model: Vec<(usize, bool, u8, u64, Vec<u64>)> = Vec::new();
        for _ in 0..nsets {
            let format64 = ch.chance(90);
            let a = ch.pick(&[8u8, 4, 2, 1, 8, 4]);
            let k = ch.below(6);
            let vals: Vec<u64> = (0..k).map(|_| ch.biased(8 * a as u32)).collect();
            let start = w.len();
            let tok = w.begin_length(format64);
            w.u16(5).u8(a).u8(0);
            for v in &vals {
                w.uint(*v, a);
            }
            w.end_length(tok);
            let unit_length = (w.len() - start - if format64 { 12 } else { 4 }) as u64;
            model.push((start, format64, a, unit_length, vals));
        }
        let sec = gimli::DebugAddr::from(EndianSlice::new(&w.buf, endian));
        crate::std_iter_agrees!(sec.headers(), |h: &gimli::AddrHeader<EndianSlice<RunTimeEndian>>| format!("{:?}", h.offset()), "c17/addr/sets/headers-std-iterator");
        let mut hs = sec.headers();
        for (si, (start, format64, a, unit_length, vals)) in model.iter().enumerate() {
            let h = match hs.next() {
                Ok(Some(h)) => h,
                other => fail!("c17/addr/sets/header", "set {}: {:?}", si, other.map(|o| o.is_some())),
            };
            ensure_eq!(h.offset().0, *start, "c17/addr/sets/offset", "set {} of {:?}", si, model.iter().map(|m| (m.0, m.1, m.2, m.4.len())).collect::<Vec<_>>());
            ensure_eq!(h.length() as u64, *unit_length, "c17/addr/sets/length", "set {}", si);
            ensure_eq!((h.encoding().format == gimli::Format::Dwarf64, h.encoding().address_size, h.encoding().version), (*format64, *a, 5), "c17/addr/sets/encoding", "set {}", si);
            crate::std_iter_agrees!(h.entries(), |v: &u64| format!("{:#x}", v), "c17/addr/sets/entries-std-iterator");
            let mut got = Vec::new();
            let mut it = h.entries();
            loop {
                match it.next() {
                    Ok(Some(v)) => got.push(v),
                    Ok(None) => break,
                    Err(e) => fail!("c17/addr/sets/entries-error", "set {}: {:?}", si, e),
                }
            }
            ensure_eq!(&got, vals, "c17/addr/sets/entries", "set {}", si);
            let base = h.offset().0 + if *format64 { 16 } else { 8 };
            for (i, v) in vals.iter().enumerate() {
                ensure_eq!(sec.get_address(*a, gimli::DebugAddrBase(base), gimli::DebugAddrIndex(i)).map_err(|e| format!("{:?}", e)), Ok(*v), "c17/addr/sets/indexed-from-scanned-base", "set {} index {}", si, i);
            }
        }
        ensure!(matches!(hs.next(), Ok(None)), "c17/addr/sets/extra", "");
        if nsets > 1 {
            cx.label("address table section with several sets");
        }
    }
    // a version 5 split unit carries no DW_AT_str_offsets_base: its indexed strings are found behind the header of
    // the .debug_str_offsets.dwo table (8 bytes in the 32-bit format, 16 in the 64-bit one)
    for format64 in [false, true] {
        let strings: Vec<Vec<u8>> = (0..3 + ch.below(3)).map(|i| format!("s{}_{}", i, ch.below(1000)).into_bytes()).collect();
        let mut st = W::new(big);
        let mut offs = Vec::new();
        for x in &strings {
            offs.push(st.len() as u64);
            st.cstr(x);
        }
        let mut so = W::new(big);
        let tok = so.begin_length(format64);
        so.u16(5).u16(0);
        for o in &offs {
            so.word(*o, format64);
        }
        so.end_length(tok);
        let pick = ch.below(strings.len());
        let mut ab = W::new(big);
        ab.uleb(1).uleb(0x11).u8(0).uleb(0x03).uleb(0x25).uleb(0).uleb(0).u8(0);
        let mut info = W::new(big);
        let tok = info.begin_length(format64);
        info.u16(5).u8(0x01).u8(8).word(0, format64);
        info.uleb(1).u8(pick as u8);
        info.end_length(tok);
        let empty: Vec<u8> = Vec::new();
        let load = |id: SectionId| -> Result<EndianSlice<RunTimeEndian>, gimli::Error> {
            Ok(EndianSlice::new(
                match id {
                    SectionId::DebugInfo => &info.buf,
                    SectionId::DebugAbbrev => &ab.buf,
                    SectionId::DebugStr => &st.buf,
                    SectionId::DebugStrOffsets => &so.buf,
                    _ => &empty,
                },
                endian,
            ))
        };
        let mut dwarf = gimli::Dwarf::load(load).map_err(|e| Failure { sig: "c17/dwo-strings/load".into(), detail: format!("{e:?}") })?;
        dwarf.file_type = gimli::DwarfFileType::Dwo;
        let header = dwarf.units().next().map_err(|e| Failure { sig: "c17/dwo-strings/units".into(), detail: format!("{e:?}") })?.ok_or_else(|| Failure { sig: "c17/dwo-strings/no-unit".into(), detail: String::new() })?;
        let enc = header.encoding();
        let unit = dwarf.unit(header).map_err(|e| Failure { sig: "c17/dwo-strings/unit".into(), detail: format!("{:?} (format64 {})", e, format64) })?;
        ensure_eq!(unit.name.map(|n| n.slice().to_vec()), Some(strings[pick].clone()), "c17/dwo-strings/unit-name", "index {} format64 {}", pick, format64);
        for (i, want) in strings.iter().enumerate() {
            let got = dwarf.attr_string(&unit, gimli::AttributeValue::DebugStrOffsetsIndex(gimli::DebugStrOffsetsIndex(i)));
            ensure_eq!(got.map(|r| r.slice().to_vec()).map_err(|e| format!("{:?}", e)), Ok(want.clone()), "c17/dwo-strings/attr_string", "index {} format64 {}", i, format64);
        }
        ensure_eq!(gimli::DebugStrOffsetsBase::<usize>::default_for_encoding_and_file(enc, gimli::DwarfFileType::Dwo).0, if format64 { 16 } else { 8 }, "c17/dwo-strings/default-base", "format64 {}", format64);
        ensure_eq!(gimli::DebugStrOffsetsBase::<usize>::default_for_encoding_and_file(enc, gimli::DwarfFileType::Main).0, 0, "c17/dwo-strings/default-base-main");
    }
    cx.nt();
    Ok(())
}


// ---------------------------------------------------------------------------
// (f) .debug_names
// ---------------------------------------------------------------------------

#[derive(Clone, Debug)]
struct NAbbrev {
    code: u64,
    tag: u16,
    /// (DW_IDX, DW_FORM)
    attrs: Vec<(u16, u16)>,
}

#[derive(Clone, Debug)]
struct NEntry {
    abbrev: usize,
    /// one value per attribute: numeric value (index / die offset / hash), or for DW_IDX_parent the index of the
    /// parent entry in the flattened entry list (u64::MAX = no parent, flag_present)
    vals: Vec<u64>,
}

#[derive(Clone, Debug)]
struct NName {
    str_off: u64,
    hash: u32,
    entries: Vec<NEntry>,
}

fn reference_djb(bytes: &[u8]) -> u32 {
    let mut h: u32 = 5381;
    for b in bytes {
        let c = if b.is_ascii_uppercase() { b + 32 } else { *b };
        h = h.wrapping_mul(33).wrapping_add(c as u32);
    }
    h
}

/// Simple case folding (Unicode CaseFolding.txt, statuses C and S) at points chosen across the table: capital letters of
/// several scripts, the letters whose folding is not their lowercase form (micro sign, long s, final sigma, Greek symbol
/// variants, Kelvin/Angstrom/Ohm signs, Cherokee small letters, capital sharp s, titlecase digraphs) and letters that have
/// only a full folding and therefore stay as they are; the dotted capital I and the dotless small i fold to 'i'
/// (DWARF 5 section 6.1.1.4.5 adds this to the simple folding).
const FOLD_PAIRS: [(u32, u32); 72] = [
    (0x41, 0x61), (0x5a, 0x7a), (0x61, 0x61), (0x7a, 0x7a), (0x30, 0x30), (0x5f, 0x5f),
    (0xb5, 0x3bc), (0xc0, 0xe0), (0xd6, 0xf6), (0xd7, 0xd7), (0xd8, 0xf8), (0xde, 0xfe), (0xdf, 0xdf), (0xe0, 0xe0), (0xff, 0xff),
    (0x100, 0x101), (0x12e, 0x12f), (0x130, 0x69), (0x131, 0x69), (0x132, 0x133), (0x139, 0x13a), (0x149, 0x149), (0x178, 0xff), (0x179, 0x17a), (0x17f, 0x73),
    (0x181, 0x253), (0x1c4, 0x1c6), (0x1c5, 0x1c6), (0x1c6, 0x1c6), (0x1f0, 0x1f0),
    (0x345, 0x3b9), (0x370, 0x371), (0x386, 0x3ac), (0x391, 0x3b1), (0x3a9, 0x3c9), (0x3c2, 0x3c3), (0x3c3, 0x3c3), (0x3cf, 0x3d7), (0x3d0, 0x3b2), (0x3d1, 0x3b8), (0x3d5, 0x3c6), (0x3d6, 0x3c0),
    (0x3f0, 0x3ba), (0x3f1, 0x3c1), (0x3f4, 0x3b8), (0x3f5, 0x3b5),
    (0x400, 0x450), (0x410, 0x430), (0x42f, 0x44f), (0x430, 0x430), (0x531, 0x561), (0x556, 0x586), (0x587, 0x587),
    (0x10a0, 0x2d00), (0x13f8, 0x13f0), (0x1c80, 0x432), (0x1e9b, 0x1e61), (0x1e9e, 0xdf), (0x1f88, 0x1f80), (0x1fbe, 0x3b9),
    (0x2126, 0x3c9), (0x212a, 0x6b), (0x212b, 0xe5), (0x2160, 0x2170), (0x24b6, 0x24d0), (0x2c00, 0x2c30), (0xa640, 0xa641), (0xab70, 0x13a0),
    (0xff21, 0xff41), (0x10400, 0x10428), (0x1e900, 0x1e922), (0x4e2d, 0x4e2d),
];

/// The hash of a name is the DJB hash of its simple-case-folded UTF-8 bytes.
fn check_case_folding(cx: &mut Ctx) -> R {
    cx.label("case folding table");
    for (c, f) in FOLD_PAIRS {
        let (Some(c), Some(f)) = (char::from_u32(c), char::from_u32(f)) else { fail!("c17/harness/fold-table", "{:#x}", c) };
        for (pre, post) in [("", ""), ("x", "y"), ("Ab_", "Z9")] {
            let name = format!("{}{}{}", pre, c, post);
            let folded = format!("{}{}{}", pre, f, post);
            ensure_eq!(gimli::case_folding_djb_hash(&name), reference_djb(folded.as_bytes()), "c17/names/case-folding", "name {:?} (U+{:04X}) must hash like {:?} (U+{:04X})", name, c as u32, folded, f as u32);
        }
    }
    // and a name mixing several of them
    let name: String = FOLD_PAIRS.iter().filter_map(|p| char::from_u32(p.0)).collect();
    let folded: String = FOLD_PAIRS.iter().filter_map(|p| char::from_u32(p.1)).collect();
    ensure_eq!(gimli::case_folding_djb_hash(&name), reference_djb(folded.as_bytes()), "c17/names/case-folding", "all table characters in one name");
    cx.nt();
    Ok(())
}

fn form_len(form: u16, v: u64) -> usize {
    match form {
        0x0b | 0x11 | 0x0c => 1,
        0x05 | 0x12 => 2,
        0x06 | 0x13 => 4,
        0x07 | 0x14 => 8,
        0x0f | 0x15 => crate::enc::uleb_len(v),
        _ => 0, // flag_present
    }
}

fn write_form(w: &mut W, form: u16, v: u64) {
    match form {
        0x0b | 0x11 | 0x0c => {
            w.u8(v as u8);
        }
        0x05 | 0x12 => {
            w.u16(v as u16);
        }
        0x06 | 0x13 => {
            w.u32(v as u32);
        }
        0x07 | 0x14 => {
            w.u64(v);
        }
        0x0f | 0x15 => {
            w.uleb(v);
        }
        _ => {}
    }
}

fn check_names(ch: &mut Choices, cx: &mut Ctx) -> R {
    cx.label(".debug_names");
    let big = ch.bool();
    let endian = if big { RunTimeEndian::Big } else { RunTimeEndian::Little };
    let format64 = ch.chance(80);
    let word = if format64 { 8 } else { 4 };
    let ncu = 1 + ch.below(3);
    let nltu = ch.below(3);
    let nftu = ch.below(3);
    let cus: Vec<u64> = (0..ncu).map(|i| 0x100 * i as u64 + ch.below(16) as u64).collect();
    let ltus: Vec<u64> = (0..nltu).map(|i| 0x1000 + 0x40 * i as u64).collect();
    let ftus: Vec<u64> = (0..nftu).map(|_| ch.u64() | 1).collect();
    let bucket_count: u32 = ch.pick(&[0u32, 1, 2, 3, 5, 8]);
    // abbreviations: every legal (index, form) pairing gets used over time
    let nab = 1 + ch.below(4);
    let mut abbrevs: Vec<NAbbrev> = Vec::new();
    for i in 0..nab {
        let mut attrs: Vec<(u16, u16)> = Vec::new();
        if ch.chance(200) {
            attrs.push((3, ch.pick(&[0x13u16, 0x11, 0x12, 0x14, 0x15])));
        }
        if ch.chance(120) {
            attrs.push((1, ch.pick(&[0x0bu16, 0x05, 0x06, 0x0f])));
        }
        if nltu + nftu > 0 && ch.chance(90) {
            attrs.push((2, ch.pick(&[0x0bu16, 0x05, 0x0f])));
        }
        if ch.chance(140) {
            attrs.push((4, ch.pick(&[0x13u16, 0x19, 0x13])));
        }
        if ch.chance(50) {
            attrs.push((5, 0x07));
        }
        if ch.bool() {
            attrs.reverse();
        }
        abbrevs.push(NAbbrev { code: if ch.chance(40) { 0x80 + i as u64 } else { i as u64 + 1 }, tag: ch.pick(&[0x2eu16, 0x34, 0x13, 0x39, 0x24]), attrs });
    }
    // the abbreviation table may list its codes in any order (DWARF 5 imposes none)
    if ch.chance(110) {
        abbrevs.reverse();
    }
    // names with generated strings; hashes are the reference DJB hash, occasionally forced to collide
    let nn = ch.below(9);
    let mut strs: Vec<u8> = vec![0];
    let mut names: Vec<(Vec<u8>, NName)> = Vec::new();
    for i in 0..nn {
        let n = 1 + ch.below(6);
        let s: Vec<u8> = (0..n).map(|_| ch.pick(&[b'a', b'B', b'c', b'_', b'Z', b'9'])).collect();
        let mut hash = reference_djb(&s);
        if i > 0 && ch.chance(50) {
            hash = names[ch.below(i)].1.hash; // a genuine hash collision between different strings
        }
        let off = strs.len() as u64;
        strs.extend_from_slice(&s);
        strs.push(0);
        names.push((s, NName { str_off: off, hash, entries: Vec::new() }));
    }
    if bucket_count > 0 {
        // the name table is grouped by bucket
        names.sort_by_key(|n| n.1.hash % bucket_count);
    }
    // entries
    let mut flat: Vec<(usize, usize)> = Vec::new(); // (name index, entry index)
    for ni in 0..names.len() {
        let ne = 1 + ch.below(3);
        for _ in 0..ne {
            let ab = ch.below(abbrevs.len());
            let mut vals = Vec::new();
            for (idx, form) in &abbrevs[ab].attrs {
                vals.push(match idx {
                    1 => ch.below(ncu) as u64,
                    2 => ch.below(nltu + nftu) as u64,
                    3 => match form {
                        0x11 => ch.below(256) as u64,
                        0x12 => ch.below(65536) as u64,
                        _ => ch.biased(31),
                    },
                    4 => {
                        if *form == 0x19 || flat.is_empty() {
                            u64::MAX
                        } else {
                            ch.below(flat.len()) as u64
                        }
                    }
                    _ => ch.u64(),
                });
            }
            names[ni].1.entries.push(NEntry { abbrev: ab, vals });
            flat.push((ni, names[ni].1.entries.len() - 1));
        }
    }
    // layout of the entry pool (parent references need entry offsets: two passes, ref4 has a fixed size)
    let mut entry_offsets: Vec<Vec<u64>> = Vec::new();
    let mut series_offsets: Vec<u64> = Vec::new();
    {
        let mut at = 0u64;
        for (_, n) in &names {
            series_offsets.push(at);
            let mut offs = Vec::new();
            for e in &n.entries {
                offs.push(at);
                let ab = &abbrevs[e.abbrev];
                at += crate::enc::uleb_len(ab.code) as u64;
                for ((idx, form), v) in ab.attrs.iter().zip(e.vals.iter()) {
                    at += if *idx == 4 { if *form == 0x19 { 0 } else { 4 } } else { form_len(*form, *v) as u64 };
                }
            }
            at += 1;
            entry_offsets.push(offs);
        }
    }
    let parent_offset = |flat_idx: u64| -> u64 {
        let (ni, ei) = flat[flat_idx as usize];
        entry_offsets[ni][ei]
    };
    let mut pool = W::new(big);
    for (_, n) in &names {
        for e in &n.entries {
            let ab = &abbrevs[e.abbrev];
            pool.uleb(ab.code);
            for ((idx, form), v) in ab.attrs.iter().zip(e.vals.iter()) {
                if *idx == 4 {
                    if *form != 0x19 {
                        // a ref4 parent attribute without a parent cannot be expressed: such entries were given flag_present
                        pool.u32(if *v == u64::MAX { 0 } else { parent_offset(*v) as u32 });
                    }
                } else {
                    write_form(&mut pool, *form, *v);
                }
            }
        }
        pool.u8(0);
    }
    let mut ab = W::new(big);
    for a in &abbrevs {
        ab.uleb(a.code).uleb(a.tag as u64);
        for (i, f) in &a.attrs {
            ab.uleb(*i as u64).uleb(*f as u64);
        }
        ab.uleb(0).uleb(0);
    }
    if ch.chance(200) {
        ab.u8(0);
    }
    let aug: Vec<u8> = if ch.bool() { b"LLVM0700".to_vec() } else if ch.bool() { b"abc".to_vec() } else { Vec::new() };
    let mut w = W::new(big);
    let lead = if ch.chance(60) {
        // an earlier, empty index in front
        let tok = w.begin_length(false);
        w.u16(5).u16(0).u32(0).u32(0).u32(0).u32(0).u32(0).u32(0).u32(0);
        w.end_length(tok);
        true
    } else {
        false
    };
    let tok = w.begin_length(format64);
    w.u16(5).u16(0).u32(ncu as u32).u32(nltu as u32).u32(nftu as u32).u32(bucket_count).u32(names.len() as u32).u32(ab.buf.len() as u32).u32(aug.len() as u32);
    w.bytes(&aug);
    while aug.len() % 4 != 0 && (w.len() % 4) != 0 {
        w.u8(0);
    }
    // the augmentation string is padded to a multiple of 4 relative to its own start
    for c in &cus {
        w.word(*c, format64);
    }
    for t in &ltus {
        w.word(*t, format64);
    }
    for t in &ftus {
        w.u64(*t);
    }
    if bucket_count > 0 {
        for b in 0..bucket_count {
            let first = names.iter().position(|n| n.1.hash % bucket_count == b);
            w.u32(first.map(|i| i as u32 + 1).unwrap_or(0));
        }
        for (_, n) in &names {
            w.u32(n.hash);
        }
    }
    for (_, n) in &names {
        w.word(n.str_off, format64);
    }
    for so in &series_offsets {
        w.word(*so, format64);
    }
    w.bytes(&ab.buf).bytes(&pool.buf);
    w.end_length(tok);
    let _ = word;
    cx.sample_with(|| format!("{} {} cus {:x?} local tus {:x?} foreign tus {:x?} buckets {} abbrevs {:?} names {:?}", if big { "BE" } else { "LE" }, if format64 { "dwarf64" } else { "dwarf32" }, cus, ltus, ftus, bucket_count, abbrevs, names.iter().map(|n| (String::from_utf8_lossy(&n.0).to_string(), n.1.hash, &n.1.entries)).collect::<Vec<_>>()));
    // ---- read
    let sec = gimli::DebugNames::new(&w.buf, endian);
    let debug_str = gimli::DebugStr::new(&strs, endian);
    let mut hs = sec.headers();
    if lead {
        match hs.next() {
            Ok(Some(h)) => ensure_eq!(h.name_count(), 0, "c17/names/leading-index"),
            other => fail!("c17/names/leading-header", "{:?}", other.map(|o| o.is_some())),
        }
    }
    let h = match hs.next() {
        Ok(Some(h)) => h,
        other => fail!("c17/names/header", "{:?}", other.map(|o| o.is_some())),
    };
    ensure_eq!((h.version(), h.format() == gimli::Format::Dwarf64, h.compile_unit_count(), h.local_type_unit_count(), h.foreign_type_unit_count(), h.bucket_count(), h.name_count(), h.abbrev_table_size()), (5, format64, ncu as u32, nltu as u32, nftu as u32, bucket_count, names.len() as u32, ab.buf.len() as u32), "c17/names/header-fields");
    ensure_eq!(h.augmentation_string().map(|s| s.slice().to_vec()), if aug.is_empty() { None } else { Some(aug.clone()) }, "c17/names/augmentation");
    let index = match h.index() {
        Ok(i) => i,
        Err(e) => fail!("c17/names/index", "{:?}", e),
    };
    ensure!(matches!(hs.next(), Ok(None)), "c17/names/extra-index", "");
    for (i, c) in cus.iter().enumerate() {
        ensure_eq!(index.compile_unit(i as u32).map(|o| o.0 as u64).map_err(|e| format!("{:?}", e)), Ok(*c), "c17/names/compile_unit", "{}", i);
    }
    ensure_eq!(index.default_compile_unit().map(|o| o.map(|x| x.0 as u64)).map_err(|e| format!("{:?}", e)), Ok(if ncu == 1 { Some(cus[0]) } else { None }), "c17/names/default_compile_unit");
    let tu_model = |i: usize| -> String {
        if i < nltu {
            format!("Local({})", ltus[i])
        } else {
            format!("Foreign({})", ftus[i - nltu])
        }
    };
    let tu_str = |t: gimli::NameTypeUnit<usize>| -> String {
        match t {
            gimli::NameTypeUnit::Local(o) => format!("Local({})", o.0),
            gimli::NameTypeUnit::Foreign(s) => format!("Foreign({})", s.0),
        }
    };
    for i in 0..nltu + nftu {
        ensure_eq!(index.type_unit(i as u32).map(tu_str).map_err(|e| format!("{:?}", e)), Ok(tu_model(i)), "c17/names/type_unit", "{}", i);
    }
    ensure_eq!(index.type_unit_count(), (nltu + nftu) as u32, "c17/names/type_unit_count");
    ensure_eq!((index.local_type_unit_count(), index.foreign_type_unit_count(), index.name_count()), (nltu as u32, nftu as u32, names.len() as u32), "c17/names/index-counts");
    // the abbreviation table as parsed: every declaration with its code, tag and (index, form) list, found by code
    {
        let tab = index.abbreviations();
        let got: Vec<(u64, u16, Vec<(u16, u16)>)> = tab.abbreviations().iter().map(|a| (a.code(), a.tag().0, a.attributes().iter().map(|x| (x.name().0, x.form().0)).collect())).collect();
        let want: Vec<(u64, u16, Vec<(u16, u16)>)> = abbrevs.iter().map(|a| (a.code, a.tag, a.attrs.clone())).collect();
        ensure_eq!(got, want, "c17/names/abbreviation-table");
        for a in &abbrevs {
            ensure_eq!(tab.get(a.code).map(|x| (x.code(), x.tag().0)), Some((a.code, a.tag)), "c17/names/abbreviation-get", "code {}", a.code);
        }
        ensure!(tab.get(0x7777).is_none(), "c17/names/abbreviation-get-phantom", "");
    }
    ensure_eq!(index.has_hash_table(), bucket_count > 0, "c17/names/has_hash_table");
    // the name table
    let listed: Vec<u32> = index.names().map(|n| n.0).collect();
    ensure_eq!(listed, (0..names.len() as u32).collect::<Vec<_>>(), "c17/names/names");
    for (ni, (s, n)) in names.iter().enumerate() {
        let nti = gimli::NameTableIndex(ni as u32);
        ensure_eq!(index.name_string_offset(nti).map(|o| o.0 as u64).map_err(|e| format!("{:?}", e)), Ok(n.str_off), "c17/names/name_string_offset", "{}", ni);
        ensure_eq!(index.name_string(nti, &debug_str).map(|r| r.slice().to_vec()).map_err(|e| format!("{:?}", e)), Ok(s.clone()), "c17/names/name_string", "{}", ni);
        let mut it = match index.name_entries(nti) {
            Ok(it) => it,
            Err(e) => fail!("c17/names/name_entries", "{}: {:?}", ni, e),
        };
        for (ei, me) in n.entries.iter().enumerate() {
            let e = match it.next() {
                Ok(Some(e)) => e,
                other => fail!("c17/names/entry-missing", "name {} entry {}: {:?}", ni, ei, other.map(|o| o.is_some())),
            };
            let mab = &abbrevs[me.abbrev];
            ensure_eq!((e.offset.0 as u64, e.abbrev_code, e.tag.0), (entry_offsets[ni][ei], mab.code, mab.tag), "c17/names/entry", "name {} entry {}", ni, ei);
            ensure_eq!(e.attrs.iter().map(|a| (a.name().0, a.form().0)).collect::<Vec<_>>(), mab.attrs.clone(), "c17/names/entry-attributes", "name {} entry {}", ni, ei);
            // accessors against the model
            let val = |idx: u16| mab.attrs.iter().position(|a| a.0 == idx).map(|p| me.vals[p]);
            let form = |idx: u16| mab.attrs.iter().find(|a| a.0 == idx).map(|a| a.1);
            ensure_eq!(e.compile_unit(&index).map(|o| o.map(|x| x.0 as u64)).map_err(|e| format!("{:?}", e)), Ok(val(1).map(|v| cus[v as usize])), "c17/names/entry-compile_unit", "name {} entry {}", ni, ei);
            ensure_eq!(e.type_unit(&index).map(|o| o.map(tu_str)).map_err(|e| format!("{:?}", e)), Ok(val(2).map(|v| tu_model(v as usize))), "c17/names/entry-type_unit", "name {} entry {}", ni, ei);
            ensure_eq!(e.die_offset().map(|o| o.map(|x| x.0 as u64)).map_err(|e| format!("{:?}", e)), Ok(val(3)), "c17/names/entry-die_offset", "name {} entry {}", ni, ei);
            let want_parent = match (val(4), form(4)) {
                (None, _) => None,
                (Some(_), Some(0x19)) => Some(None),
                (Some(u64::MAX), _) => Some(Some(0)),
                (Some(v), _) => Some(Some(parent_offset(v))),
            };
            ensure_eq!(e.parent().map(|o| o.map(|p| p.map(|x| x.0 as u64))).map_err(|e| format!("{:?}", e)), Ok(want_parent), "c17/names/entry-parent", "name {} entry {}", ni, ei);
            ensure_eq!(e.type_hash().map_err(|e| format!("{:?}", e)), Ok(val(5)), "c17/names/entry-type_hash", "name {} entry {}", ni, ei);
            // name_entry(offset) finds the same entry
            match index.name_entry(e.offset) {
                Ok(e2) => ensure_eq!(e2, e, "c17/names/name_entry", "name {} entry {}", ni, ei),
                Err(x) => fail!("c17/names/name_entry-error", "{:?}", x),
            }
        }
        ensure!(matches!(it.next(), Ok(None)), "c17/names/entry-extra", "name {}", ni);
    }
    // hash lookups
    if bucket_count > 0 {
        for b in 0..bucket_count {
            let want: Vec<(u32, u32)> = names.iter().enumerate().filter(|(_, n)| n.1.hash % bucket_count == b).map(|(i, n)| (i as u32, n.1.hash)).collect();
            match index.find_by_bucket(b) {
                Ok(None) => ensure!(want.is_empty(), "c17/names/bucket-empty", "bucket {} should list {:?}", b, want),
                Ok(Some(mut it)) => {
                    let mut got = Vec::new();
                    loop {
                        match it.next() {
                            Ok(Some((i, h))) => got.push((i.0, h)),
                            Ok(None) => break,
                            Err(e) => fail!("c17/names/bucket-error", "{:?}", e),
                        }
                        if got.len() > 100 {
                            break;
                        }
                    }
                    ensure_eq!(got, want, "c17/names/bucket", "bucket {}", b);
                }
                Err(e) => fail!("c17/names/find_by_bucket", "{:?}", e),
            }
        }
        let mut probes: Vec<u32> = names.iter().map(|n| n.1.hash).collect();
        for n in names.iter().take(3) {
            probes.push(n.1.hash.wrapping_add(bucket_count)); // same bucket, different hash
        }
        probes.push(ch.u32());
        let mut collision = false;
        for p in probes {
            let want: Vec<u32> = names.iter().enumerate().filter(|(_, n)| n.1.hash == p).map(|(i, _)| i as u32).collect();
            if want.len() >= 2 {
                collision = true;
            }
            let mut got = Vec::new();
            match index.find_by_hash(p) {
                Ok(mut it) => loop {
                    match it.next() {
                        Ok(Some(i)) => got.push(i.0),
                        Ok(None) => break,
                        Err(e) => fail!("c17/names/hash-error", "{:?}", e),
                    }
                    if got.len() > 100 {
                        break;
                    }
                },
                Err(e) => fail!("c17/names/find_by_hash", "{:?}", e),
            }
            ensure_eq!(got, want, "c17/names/find_by_hash", "hash {:#x} (buckets {})", p, bucket_count);
        }
        if collision || names.len() >= 4 {
            cx.nt();
        }
    }
    // the hash function against the reference, ASCII
    for (s, _) in names.iter().take(4) {
        let st = String::from_utf8_lossy(s).to_string();
        ensure_eq!(gimli::case_folding_djb_hash(&st), reference_djb(s), "c17/names/djb-hash", "{:?}", st);
    }
    Ok(())
}

// ---------------------------------------------------------------------------
// (e) section loader wiring
// ---------------------------------------------------------------------------

const ALL_IDS: [SectionId; 22] = [
    SectionId::DebugAbbrev,
    SectionId::DebugAddr,
    SectionId::DebugAranges,
    SectionId::DebugCuIndex,
    SectionId::DebugFrame,
    SectionId::EhFrame,
    SectionId::EhFrameHdr,
    SectionId::DebugInfo,
    SectionId::DebugLine,
    SectionId::DebugLineStr,
    SectionId::DebugLoc,
    SectionId::DebugLocLists,
    SectionId::DebugMacinfo,
    SectionId::DebugMacro,
    SectionId::DebugNames,
    SectionId::DebugPubNames,
    SectionId::DebugPubTypes,
    SectionId::DebugRanges,
    SectionId::DebugRngLists,
    SectionId::DebugStr,
    SectionId::DebugStrOffsets,
    SectionId::DebugTypes,
];

fn check_wiring(cx: &mut Ctx) -> R {
    cx.label("loader wiring");
    let endian = RunTimeEndian::Little;
    // one distinct buffer per section id: the loader hands out the buffer of the id it is asked for
    let bufs: BTreeMap<&'static str, Vec<u8>> = ALL_IDS.iter().map(|id| (id.name(), format!("<{}>", id.name()).into_bytes())).collect();
    let tu_name = SectionId::DebugTuIndex.name();
    let _ = tu_name;
    let load = |id: SectionId| -> Result<EndianSlice<RunTimeEndian>, gimli::Error> { Ok(EndianSlice::new(bufs.get(id.name()).map(|v| &v[..]).unwrap_or(&[]), endian)) };
    let dwarf = gimli::Dwarf::load(load).unwrap();
    let expect = |sid: SectionId| -> &[u8] { &bufs[sid.name()] };
    ensure_eq!(dwarf.debug_abbrev.reader().slice(), expect(SectionId::DebugAbbrev), "c17/wiring/dwarf/debug_abbrev");
    ensure_eq!(dwarf.debug_addr.reader().slice(), expect(SectionId::DebugAddr), "c17/wiring/dwarf/debug_addr");
    ensure_eq!(dwarf.debug_aranges.reader().slice(), expect(SectionId::DebugAranges), "c17/wiring/dwarf/debug_aranges");
    ensure_eq!(dwarf.debug_info.reader().slice(), expect(SectionId::DebugInfo), "c17/wiring/dwarf/debug_info");
    ensure_eq!(dwarf.debug_line.reader().slice(), expect(SectionId::DebugLine), "c17/wiring/dwarf/debug_line");
    ensure_eq!(dwarf.debug_line_str.reader().slice(), expect(SectionId::DebugLineStr), "c17/wiring/dwarf/debug_line_str");
    ensure_eq!(dwarf.debug_macinfo.reader().slice(), expect(SectionId::DebugMacinfo), "c17/wiring/dwarf/debug_macinfo");
    ensure_eq!(dwarf.debug_macro.reader().slice(), expect(SectionId::DebugMacro), "c17/wiring/dwarf/debug_macro");
    ensure_eq!(dwarf.debug_names.reader().slice(), expect(SectionId::DebugNames), "c17/wiring/dwarf/debug_names");
    ensure_eq!(dwarf.debug_str.reader().slice(), expect(SectionId::DebugStr), "c17/wiring/dwarf/debug_str");
    ensure_eq!(dwarf.debug_str_offsets.reader().slice(), expect(SectionId::DebugStrOffsets), "c17/wiring/dwarf/debug_str_offsets");
    ensure_eq!(dwarf.debug_types.reader().slice(), expect(SectionId::DebugTypes), "c17/wiring/dwarf/debug_types");
    ensure_eq!(dwarf.ranges.debug_ranges().reader().slice(), expect(SectionId::DebugRanges), "c17/wiring/dwarf/debug_ranges");
    ensure_eq!(dwarf.ranges.debug_rnglists().reader().slice(), expect(SectionId::DebugRngLists), "c17/wiring/dwarf/debug_rnglists");
    // every buffer the offset-id lookup knows about is attributed to its own section (this reaches the location
    // list sections, whose readers are not exposed); macinfo/macro/names are not covered by lookup_offset_id
    for sid in [SectionId::DebugAbbrev, SectionId::DebugAddr, SectionId::DebugAranges, SectionId::DebugInfo, SectionId::DebugLine, SectionId::DebugLineStr, SectionId::DebugLoc, SectionId::DebugLocLists, SectionId::DebugRanges, SectionId::DebugRngLists, SectionId::DebugStr, SectionId::DebugStrOffsets, SectionId::DebugTypes] {
        let r = EndianSlice::new(expect(sid), endian);
        let got = dwarf.lookup_offset_id(r.offset_id());
        ensure_eq!(got, Some((false, sid, 0usize)), "c17/wiring/dwarf/lookup_offset_id", "{:?}", sid);
    }
    // DwarfSections
    let secs: gimli::DwarfSections<EndianSlice<RunTimeEndian>> = gimli::DwarfSections::load(load).unwrap();
    ensure_eq!(secs.debug_abbrev.reader().slice(), expect(SectionId::DebugAbbrev), "c17/wiring/sections/debug_abbrev");
    ensure_eq!(secs.debug_addr.reader().slice(), expect(SectionId::DebugAddr), "c17/wiring/sections/debug_addr");
    ensure_eq!(secs.debug_aranges.reader().slice(), expect(SectionId::DebugAranges), "c17/wiring/sections/debug_aranges");
    ensure_eq!(secs.debug_info.reader().slice(), expect(SectionId::DebugInfo), "c17/wiring/sections/debug_info");
    ensure_eq!(secs.debug_line.reader().slice(), expect(SectionId::DebugLine), "c17/wiring/sections/debug_line");
    ensure_eq!(secs.debug_line_str.reader().slice(), expect(SectionId::DebugLineStr), "c17/wiring/sections/debug_line_str");
    ensure_eq!(secs.debug_macinfo.reader().slice(), expect(SectionId::DebugMacinfo), "c17/wiring/sections/debug_macinfo");
    ensure_eq!(secs.debug_macro.reader().slice(), expect(SectionId::DebugMacro), "c17/wiring/sections/debug_macro");
    ensure_eq!(secs.debug_names.reader().slice(), expect(SectionId::DebugNames), "c17/wiring/sections/debug_names");
    ensure_eq!(secs.debug_str.reader().slice(), expect(SectionId::DebugStr), "c17/wiring/sections/debug_str");
    ensure_eq!(secs.debug_str_offsets.reader().slice(), expect(SectionId::DebugStrOffsets), "c17/wiring/sections/debug_str_offsets");
    ensure_eq!(secs.debug_types.reader().slice(), expect(SectionId::DebugTypes), "c17/wiring/sections/debug_types");
    ensure_eq!(secs.debug_loc.reader().slice(), expect(SectionId::DebugLoc), "c17/wiring/sections/debug_loc");
    ensure_eq!(secs.debug_loclists.reader().slice(), expect(SectionId::DebugLocLists), "c17/wiring/sections/debug_loclists");
    ensure_eq!(secs.debug_ranges.reader().slice(), expect(SectionId::DebugRanges), "c17/wiring/sections/debug_ranges");
    ensure_eq!(secs.debug_rnglists.reader().slice(), expect(SectionId::DebugRngLists), "c17/wiring/sections/debug_rnglists");
    let borrowed = secs.borrow(|s| *s);
    for sid in [SectionId::DebugLoc, SectionId::DebugLocLists, SectionId::DebugRanges, SectionId::DebugInfo, SectionId::DebugStr] {
        let r = EndianSlice::new(expect(sid), endian);
        ensure_eq!(borrowed.lookup_offset_id(r.offset_id()), Some((false, sid, 0usize)), "c17/wiring/sections/borrow", "{:?}", sid);
    }
    // every way of turning loaded sections into a `Dwarf` must keep each section in its own field
    let fields = |d: &gimli::Dwarf<EndianSlice<RunTimeEndian>>, bufs: &BTreeMap<&'static str, Vec<u8>>, sup: bool, what: &str| -> R {
        let e = |sid: SectionId| -> &[u8] { &bufs[sid.name()] };
        for (got, sid) in [
            (d.debug_abbrev.reader().slice(), SectionId::DebugAbbrev),
            (d.debug_addr.reader().slice(), SectionId::DebugAddr),
            (d.debug_aranges.reader().slice(), SectionId::DebugAranges),
            (d.debug_info.reader().slice(), SectionId::DebugInfo),
            (d.debug_line.reader().slice(), SectionId::DebugLine),
            (d.debug_line_str.reader().slice(), SectionId::DebugLineStr),
            (d.debug_macinfo.reader().slice(), SectionId::DebugMacinfo),
            (d.debug_macro.reader().slice(), SectionId::DebugMacro),
            (d.debug_names.reader().slice(), SectionId::DebugNames),
            (d.debug_str.reader().slice(), SectionId::DebugStr),
            (d.debug_str_offsets.reader().slice(), SectionId::DebugStrOffsets),
            (d.debug_types.reader().slice(), SectionId::DebugTypes),
            (d.ranges.debug_ranges().reader().slice(), SectionId::DebugRanges),
            (d.ranges.debug_rnglists().reader().slice(), SectionId::DebugRngLists),
        ] {
            ensure_eq!(got, e(sid), format!("c17/wiring/{}/field", what), "{:?}", sid);
        }
        for sid in [SectionId::DebugLoc, SectionId::DebugLocLists] {
            // the location list sections are not exposed: through the offset-id lookup (of the file that holds them)
            let r = EndianSlice::new(e(sid), endian);
            ensure_eq!(d.lookup_offset_id(r.offset_id()), Some((false, sid, 0usize)), format!("c17/wiring/{}/lookup_offset_id", what), "{:?}", sid);
        }
        let _ = sup;
        Ok(())
    };
    let sup_bufs0: BTreeMap<&'static str, Vec<u8>> = ALL_IDS.iter().map(|id| (id.name(), format!("<sup {}>", id.name()).into_bytes())).collect();
    let load_sup0 = |id: SectionId| -> Result<EndianSlice<RunTimeEndian>, gimli::Error> { Ok(EndianSlice::new(sup_bufs0.get(id.name()).map(|v| &v[..]).unwrap_or(&[]), endian)) };
    fields(&dwarf, &bufs, false, "dwarf")?;
    fields(&borrowed, &bufs, false, "sections-borrow")?;
    {
        let sup_secs: gimli::DwarfSections<EndianSlice<RunTimeEndian>> = gimli::DwarfSections::load(load_sup0).unwrap();
        let both = secs.borrow_with_sup(Some(&sup_secs), |s| *s);
        fields(&both, &bufs, false, "sections-borrow_with_sup")?;
        let Some(sup) = both.sup() else { fail!("c17/wiring/sections-borrow_with_sup/no-sup", "") };
        fields(sup, &sup_bufs0, true, "sections-borrow_with_sup-sup")?;
        ensure!(secs.borrow_with_sup(None, |s| *s).sup().is_none(), "c17/wiring/sections-borrow_with_sup/phantom-sup", "");
    }
    {
        // owned sections, then Dwarf::borrow (with a supplementary file)
        let mut owned: gimli::Dwarf<Vec<u8>> = gimli::Dwarf::load(|id: SectionId| -> Result<Vec<u8>, gimli::Error> { Ok(bufs.get(id.name()).cloned().unwrap_or_default()) }).unwrap();
        owned.load_sup(|id: SectionId| -> Result<Vec<u8>, gimli::Error> { Ok(sup_bufs0.get(id.name()).cloned().unwrap_or_default()) }).unwrap();
        owned.file_type = gimli::DwarfFileType::Dwo;
        // (the closure notes every buffer it is handed: each section's buffer exactly once, the location list
        // sections among them, and the borrowed file attributes each buffer to the section whose data it holds)
        let seen: std::cell::RefCell<Vec<&[u8]>> = std::cell::RefCell::new(Vec::new());
        let b = owned.borrow(|v| {
            seen.borrow_mut().push(&v[..]);
            EndianSlice::new(&v[..], endian)
        });
        {
            let seen = seen.borrow();
            for sid in [SectionId::DebugAbbrev, SectionId::DebugAddr, SectionId::DebugAranges, SectionId::DebugInfo, SectionId::DebugLine, SectionId::DebugLineStr, SectionId::DebugLoc, SectionId::DebugLocLists, SectionId::DebugRanges, SectionId::DebugRngLists, SectionId::DebugStr, SectionId::DebugStrOffsets, SectionId::DebugTypes] {
                let want = &bufs[sid.name()][..];
                let n = seen.iter().filter(|x| **x == want).count();
                ensure_eq!(n, 1, "c17/wiring/dwarf-borrow/buffers-handed-out", "{:?}: its buffer was passed to the borrow function {} times", sid, n);
                let slice = seen.iter().find(|x| **x == want).unwrap();
                ensure_eq!(b.lookup_offset_id(EndianSlice::new(slice, endian).offset_id()), Some((false, sid, 0usize)), "c17/wiring/dwarf-borrow/lookup_offset_id", "{:?}", sid);
            }
        }
        // offset ids are addresses: compare contents through the fields, and the lists through fresh lookups
        let e = |sid: SectionId| -> &[u8] { &bufs[sid.name()] };
        for (got, sid) in [
            (b.debug_abbrev.reader().slice(), SectionId::DebugAbbrev),
            (b.debug_addr.reader().slice(), SectionId::DebugAddr),
            (b.debug_aranges.reader().slice(), SectionId::DebugAranges),
            (b.debug_info.reader().slice(), SectionId::DebugInfo),
            (b.debug_line.reader().slice(), SectionId::DebugLine),
            (b.debug_line_str.reader().slice(), SectionId::DebugLineStr),
            (b.debug_macinfo.reader().slice(), SectionId::DebugMacinfo),
            (b.debug_macro.reader().slice(), SectionId::DebugMacro),
            (b.debug_names.reader().slice(), SectionId::DebugNames),
            (b.debug_str.reader().slice(), SectionId::DebugStr),
            (b.debug_str_offsets.reader().slice(), SectionId::DebugStrOffsets),
            (b.debug_types.reader().slice(), SectionId::DebugTypes),
            (b.ranges.debug_ranges().reader().slice(), SectionId::DebugRanges),
            (b.ranges.debug_rnglists().reader().slice(), SectionId::DebugRngLists),
        ] {
            ensure_eq!(got, e(sid), "c17/wiring/dwarf-borrow/field", "{:?}", sid);
        }
        ensure_eq!(b.file_type, gimli::DwarfFileType::Dwo, "c17/wiring/dwarf-borrow/file_type");
        let Some(sup) = b.sup() else { fail!("c17/wiring/dwarf-borrow/no-sup", "") };
        ensure_eq!(sup.debug_str.reader().slice(), &sup_bufs0[SectionId::DebugStr.name()][..], "c17/wiring/dwarf-borrow/sup-debug_str");
        ensure_eq!(sup.debug_info.reader().slice(), &sup_bufs0[SectionId::DebugInfo.name()][..], "c17/wiring/dwarf-borrow/sup-debug_info");
        ensure_eq!(sup.debug_line_str.reader().slice(), &sup_bufs0[SectionId::DebugLineStr.name()][..], "c17/wiring/dwarf-borrow/sup-debug_line_str");
    }
    {
        // owned package sections, then DwarfPackageSections::borrow
        let owned: gimli::DwarfPackageSections<Vec<u8>> = gimli::DwarfPackageSections::load(|id: SectionId| -> Result<Vec<u8>, gimli::Error> { Ok(bufs.get(id.name()).cloned().unwrap_or_default()) }).unwrap();
        // the index sections must parse: give the borrow empty indexes (an empty section is a valid empty index)
        let mut owned = owned;
        owned.cu_index = gimli::DebugCuIndex::from(Vec::new());
        owned.tu_index = gimli::DebugTuIndex::from(Vec::new());
        let empty = EndianSlice::new(&[][..], endian);
        match owned.borrow(|v| EndianSlice::new(&v[..], endian), empty) {
            Ok(pkb) => {
                let e = |sid: SectionId| -> &[u8] { &bufs[sid.name()] };
                for (got, sid) in [
                    (pkb.debug_abbrev.reader().slice(), SectionId::DebugAbbrev),
                    (pkb.debug_info.reader().slice(), SectionId::DebugInfo),
                    (pkb.debug_line.reader().slice(), SectionId::DebugLine),
                    (pkb.debug_macinfo.reader().slice(), SectionId::DebugMacinfo),
                    (pkb.debug_macro.reader().slice(), SectionId::DebugMacro),
                    (pkb.debug_str.reader().slice(), SectionId::DebugStr),
                    (pkb.debug_str_offsets.reader().slice(), SectionId::DebugStrOffsets),
                    (pkb.debug_loc.reader().slice(), SectionId::DebugLoc),
                    (pkb.debug_loclists.reader().slice(), SectionId::DebugLocLists),
                    (pkb.debug_rnglists.reader().slice(), SectionId::DebugRngLists),
                    (pkb.debug_types.reader().slice(), SectionId::DebugTypes),
                ] {
                    ensure_eq!(got, e(sid), "c17/wiring/package-borrow/field", "{:?}", sid);
                }
            }
            Err(e) => fail!("c17/wiring/package-borrow/rejected", "{:?}", e),
        }
    }
    // supplementary object file
    let sup_bufs: BTreeMap<&'static str, Vec<u8>> = ALL_IDS.iter().map(|id| (id.name(), format!("<sup {}>", id.name()).into_bytes())).collect();
    let mut with_sup = gimli::Dwarf::load(load).unwrap();
    with_sup.load_sup(|id: SectionId| -> Result<EndianSlice<RunTimeEndian>, gimli::Error> { Ok(EndianSlice::new(sup_bufs.get(id.name()).map(|v| &v[..]).unwrap_or(&[]), endian)) }).unwrap();
    let sup = with_sup.sup().unwrap();
    ensure_eq!(sup.debug_str.reader().slice(), &sup_bufs[SectionId::DebugStr.name()][..], "c17/wiring/sup/debug_str");
    ensure_eq!(sup.debug_info.reader().slice(), &sup_bufs[SectionId::DebugInfo.name()][..], "c17/wiring/sup/debug_info");
    let r = EndianSlice::new(&sup_bufs[SectionId::DebugStr.name()][..], endian);
    ensure_eq!(with_sup.lookup_offset_id(r.offset_id()), Some((true, SectionId::DebugStr, 0usize)), "c17/wiring/sup/lookup_offset_id");
    // package sections: the .dwo names
    let pk: gimli::DwarfPackageSections<EndianSlice<RunTimeEndian>> = gimli::DwarfPackageSections::load(load).unwrap();
    ensure_eq!(pk.cu_index.reader().slice(), expect(SectionId::DebugCuIndex), "c17/wiring/package/cu_index");
    ensure_eq!(pk.debug_abbrev.reader().slice(), expect(SectionId::DebugAbbrev), "c17/wiring/package/debug_abbrev");
    ensure_eq!(pk.debug_info.reader().slice(), expect(SectionId::DebugInfo), "c17/wiring/package/debug_info");
    ensure_eq!(pk.debug_line.reader().slice(), expect(SectionId::DebugLine), "c17/wiring/package/debug_line");
    ensure_eq!(pk.debug_macinfo.reader().slice(), expect(SectionId::DebugMacinfo), "c17/wiring/package/debug_macinfo");
    ensure_eq!(pk.debug_macro.reader().slice(), expect(SectionId::DebugMacro), "c17/wiring/package/debug_macro");
    ensure_eq!(pk.debug_str.reader().slice(), expect(SectionId::DebugStr), "c17/wiring/package/debug_str");
    ensure_eq!(pk.debug_str_offsets.reader().slice(), expect(SectionId::DebugStrOffsets), "c17/wiring/package/debug_str_offsets");
    ensure_eq!(pk.debug_loc.reader().slice(), expect(SectionId::DebugLoc), "c17/wiring/package/debug_loc");
    ensure_eq!(pk.debug_loclists.reader().slice(), expect(SectionId::DebugLocLists), "c17/wiring/package/debug_loclists");
    ensure_eq!(pk.debug_rnglists.reader().slice(), expect(SectionId::DebugRngLists), "c17/wiring/package/debug_rnglists");
    ensure_eq!(pk.debug_types.reader().slice(), expect(SectionId::DebugTypes), "c17/wiring/package/debug_types");
    // Section::id / names
    macro_rules! ids {
        ($($t:ident => $id:ident),*) => {$(
            ensure_eq!(<gimli::$t<EndianSlice<RunTimeEndian>> as Section<_>>::id(), SectionId::$id, "c17/wiring/section-id", stringify!($t));
            ensure_eq!(<gimli::$t<EndianSlice<RunTimeEndian>> as Section<_>>::section_name(), SectionId::$id.name(), "c17/wiring/section-name", stringify!($t));
        )*};
    }
    ids!(DebugAbbrev => DebugAbbrev, DebugAddr => DebugAddr, DebugAranges => DebugAranges, DebugCuIndex => DebugCuIndex, DebugTuIndex => DebugTuIndex, DebugFrame => DebugFrame, EhFrame => EhFrame, EhFrameHdr => EhFrameHdr, DebugInfo => DebugInfo, DebugLine => DebugLine, DebugLineStr => DebugLineStr, DebugLoc => DebugLoc, DebugLocLists => DebugLocLists, DebugMacinfo => DebugMacinfo, DebugMacro => DebugMacro, DebugNames => DebugNames, DebugPubNames => DebugPubNames, DebugPubTypes => DebugPubTypes, DebugRanges => DebugRanges, DebugRngLists => DebugRngLists, DebugStr => DebugStr, DebugStrOffsets => DebugStrOffsets, DebugTypes => DebugTypes);
    for id in ALL_IDS {
        if let Some(d) = id.dwo_name() {
            // the package index sections keep their names; everything else gets the .dwo suffix
            let want = if matches!(id, SectionId::DebugCuIndex | SectionId::DebugTuIndex) { id.name().to_string() } else { format!("{}.dwo", id.name()) };
            ensure_eq!(d, want, "c17/wiring/dwo-name", "{:?}", id);
        }
    }
    cx.nt();
    Ok(())
}

impl Prop for C17 {
    fn id(&self) -> &'static str {
        "C17"
    }
    fn rule(&self) -> &'static str {
        "(a) generated .debug_cu_index and .debug_tu_index pairs (versions 2 and 5, every non-empty subset and rotation of the version's section-kind columns, 0-6 units, slot counts the smallest power of two above the unit count or twice that - i.e. up to full-minus-one - and 0, keys that share the primary hash or both hashes with an earlier key) placed by the format's open-addressing rule, with per-unit contributions appended to shared package sections: find(key) = model row for every present key and None for 12 absent keys incl. ones that walk occupied chains, sections(row) = the model's (section, offset, size) list, rows 0 and count+1 are errors, and DwarfPackage::find_cu/find_tu/cu_sections/tu_sections return exactly the unit's byte ranges of every section kind (location list sections via lookup_offset_id), the package's string section and the parent's .debug_addr/.debug_ranges; keys of one index are absent from the other; (b) .debug_aranges with 1-3 sets x 32/64-bit x address size 1/2/4/8 with header padding, interior (0,0) tuples, zero-address and tombstone tuples, with and without terminator: headers and entries (cooked and raw) equal the model; (c) .debug_pubnames/.debug_pubtypes with 1-3 sets in both formats: exactly the (unit, die offset, name) triples; (d) .debug_str_offsets / .debug_addr lookups at generated bases for both formats / four address sizes = table[base + index], past-the-end is an error; (e) generated .debug_names indexes (both formats, 1-3 CUs, 0-2 local and foreign type units, bucket counts 0/1/2/3/5/8, 0-8 names with genuine hash collisions, 1-4 abbreviations over every legal (index, form) pairing incl. parent by ref4 or flag_present, 1-3 entries per name, optional augmentation string and a leading empty index): header fields, unit tables, names(), string offsets and strings, every entry's offset/code/tag/attributes and the compile_unit/type_unit/die_offset/parent/type_hash accessors, name_entry(offset), find_by_bucket for every bucket and find_by_hash for every present hash plus same-bucket and random absent hashes all equal the model; case_folding_djb_hash equals a reference DJB hash on ASCII, and on non-ASCII names through a table of 72 simple-case-folding pairs across scripts (incl. letters whose folding is not their lowercase form and letters that only have a full or Turkic folding); (f) Dwarf::load, DwarfSections::load/borrow, load_sup and DwarfPackageSections::load with a loader that returns a buffer tagged with the requested section: every field holds its own section's buffer, lookup_offset_id attributes every buffer to its section, Section::id/section_name/dwo_name agree. Non-trivial = an index with a collision chain and an absent key probing an occupied slot, a 64-bit or null-tuple aranges set, a 64-bit name set; distinct by choice string. Later additions: .debug_addr sections made of several sets (headers(): offset, length, encoding, entries, indexed lookup from the scanned base); ArangeHeader::offset and DebugAranges::header(offset); the parsed abbreviation table and counts of a name index; the buffers Dwarf::borrow hands out; indexed strings of version 5 split units without a string-offsets base; std Iterator views."
    }
    fn assumptions(&self) -> Vec<&'static str> {
        vec![
            "the package index layout and probing rule follow the DWARF 5 specification section 7.3.5 (and the GNU v2 format) as implemented by the harness's own encoder",
            ".debug_names layout follows DWARF 5 section 6.1.1.4 as implemented by the harness's own encoder; the hash function is compared with a reference DJB hash of the simple-case-folded name (ASCII, plus a table of folding pairs transcribed from Unicode's CaseFolding.txt)",
        ]
    }
    fn max_len(&self) -> usize {
        600
    }
    fn cases(&self, tier: Tier, dev: bool) -> u64 {
        match (tier, dev) {
            (Tier::Quick, false) => 40_000,
            (Tier::Quick, true) => 8_000,
            (Tier::Thorough, false) => 2_000_000,
            (Tier::Thorough, true) => 200_000,
        }
    }
    fn run_case(&self, ch: &mut Choices, cx: &mut Ctx) -> R {
        match ch.below(10) {
            0..=3 => check_package(ch, cx),
            4 => check_names(ch, cx),
            5 => check_aranges(ch, cx),
            6 => check_names(ch, cx),
            7 => check_pubnames(ch, cx),
            8 => check_tables(ch, cx),
            _ => {
                check_wiring(cx)?;
                check_case_folding(cx)
            }
        }
    }
}
