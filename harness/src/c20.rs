//! C20 — reused contexts, buffers, iterators and caches behave like fresh ones.
use crate::c06::{self, CfiCase, GRun, S193x5, S2x2, S3x5, S4x4};
use crate::c12::load_map;
use crate::cfimodel::{BuiltFrame, CfiOp};
use crate::core::*;
use crate::dieasm::canon_av;
use crate::fullasm::{assemble, gen_fdwarf, GenOpts};
use crate::{ensure, ensure_eq, fail};
use gimli::{EndianSlice, RunTimeEndian, UnwindContext, UnwindContextStorage};
use std::collections::BTreeMap;

pub struct C20;

type Rdr<'a> = EndianSlice<'a, RunTimeEndian>;

// ---------------------------------------------------------------------------
// (a) unwind contexts
// ---------------------------------------------------------------------------

fn run_show(g: &GRun) -> String {
    format!("{} rows, end {:?}, rows {:?}", g.rows.len(), g.end, g.rows)
}

fn history<S: UnwindContextStorage<usize>>(pool: &[(CfiCase, BuiltFrame)], fresh: &[Vec<GRun>], hist: &[(usize, usize)], ctx: &mut UnwindContext<usize, S>, what: &str) -> R {
    for (step, (k, mode)) in hist.iter().enumerate() {
        let (case, built) = &pool[*k];
        // mode 0: all rows; 1: stop after one row; 2: stop after three rows
        let stop = match mode {
            0 => None,
            1 => Some(1),
            _ => Some(3),
        };
        let got = c06::run_gimli(case, built, ctx, stop)?;
        let want = &fresh[*k][*mode];
        if got.rows != want.rows || got.end != want.end {
            fail!(format!("c20/context/{}", what), "history {:?} step {}: FDE #{} on the reused context gives {} but on a fresh context {}", hist, step, k, run_show(&got), run_show(want));
        }
    }
    Ok(())
}

/// Address lookups on one context: the same address asked of one FDE after another (FDEs of different modules often
/// cover the same unrelocated addresses), with row iterations in between; each answer must be the fresh-context one.
fn lookup_history<S: UnwindContextStorage<usize>>(pool: &[(CfiCase, BuiltFrame)], mk: &dyn Fn() -> Box<UnwindContext<usize, S>>, ch_addrs: &[u64], what: &str) -> R {
    for &addr in ch_addrs {
        let fresh: Vec<String> = pool.iter().map(|(case, built)| c06::lookup_gimli(case, built, &mut mk(), addr)).collect::<R<Vec<_>>>()?;
        let mut ctx = mk();
        for round in 0..2 {
            for (k, (case, built)) in pool.iter().enumerate() {
                let got = c06::lookup_gimli(case, built, &mut ctx, addr)?;
                if got != fresh[k] {
                    fail!(format!("c20/context-lookup/{}", what), "address {:#x}, round {}: FDE #{} on the reused context gives {} but on a fresh context {}", addr, round, k, got, fresh[k]);
                }
                if round == 1 {
                    // a partial row iteration of the same FDE in between
                    let _ = c06::run_gimli(case, built, &mut ctx, Some(1))?;
                }
            }
        }
    }
    Ok(())
}

fn fresh_runs<S: UnwindContextStorage<usize>>(pool: &[(CfiCase, BuiltFrame)], mk: &dyn Fn() -> Box<UnwindContext<usize, S>>) -> R<Vec<Vec<GRun>>> {
    let mut out = Vec::new();
    for (case, built) in pool {
        let mut v = Vec::new();
        for stop in [None, Some(1), Some(3)] {
            let mut ctx = mk();
            v.push(c06::run_gimli(case, built, &mut ctx, stop)?);
        }
        out.push(v);
    }
    Ok(out)
}

fn check_context(ch: &mut Choices, cx: &mut Ctx) -> R {
    cx.label("context reuse");
    let npool = 2 + ch.below(3);
    let mut pool: Vec<(CfiCase, BuiltFrame)> = Vec::new();
    for i in 0..npool {
        let mut case = c06::gen_case(ch);
        // make the rare state-carrying instructions common enough to matter
        if ch.chance(90) {
            let at = ch.below(case.cie.instrs.len() + 1);
            case.cie.instrs.insert(at, CfiOp::ArgsSize(1 + ch.below(200) as u64));
        }
        if ch.chance(90) {
            let at = ch.below(case.fde.instrs.len() + 1);
            case.fde.instrs.insert(at, CfiOp::ArgsSize(1 + ch.below(200) as u64));
        }
        if i > 0 && ch.chance(60) {
            // an FDE with few or no initial rules
            case.cie.instrs.truncate(ch.below(2));
        }
        let built = c06::build(&case);
        pool.push((case, built));
    }
    let args_then_plain = pool.iter().any(|p| p.0.cie.instrs.iter().chain(p.0.fde.instrs.iter()).any(|o| matches!(o, CfiOp::ArgsSize(_)))) && pool.iter().any(|p| !p.0.cie.instrs.iter().chain(p.0.fde.instrs.iter()).any(|o| matches!(o, CfiOp::ArgsSize(_))));
    if args_then_plain {
        cx.label("pool mixes FDEs with and without args_size");
    }
    cx.sample_with(|| format!("pool of {} FDEs: {:?}", npool, pool.iter().map(|p| (&p.0.cie.instrs, &p.0.fde.instrs)).collect::<Vec<_>>()));
    // histories: every ordered pair (all rows), plus generated longer ones with partial evaluations
    let mut hists: Vec<Vec<(usize, usize)>> = Vec::new();
    for a in 0..npool {
        for b in 0..npool {
            hists.push(vec![(a, 0), (b, 0)]);
        }
    }
    if npool <= 3 {
        for a in 0..npool {
            for b in 0..npool {
                for c in 0..npool {
                    hists.push(vec![(a, ch.below(3)), (b, 0), (c, 0)]);
                }
            }
        }
    }
    for _ in 0..4 {
        let n = 3 + ch.below(5);
        hists.push((0..n).map(|_| (ch.below(npool), ch.below(3))).collect());
    }
    // addresses to look up: the start of each FDE, a little inside, and the last covered address
    let mut addrs: Vec<u64> = Vec::new();
    for (case, _) in &pool {
        let m = crate::enc::mask(case.cie.address_size);
        let start = case.fde.initial_raw & m;
        addrs.push(start);
        addrs.push(start.wrapping_add(ch.below(0x20) as u64) & m);
    }
    addrs.sort();
    addrs.dedup();
    addrs.truncate(6);
    let storage = ch.below(5);
    macro_rules! go {
        ($S:ty, $name:expr) => {{
            let mk = || -> Box<UnwindContext<usize, $S>> { Box::new(UnwindContext::new_in()) };
            let fresh = fresh_runs::<$S>(&pool, &mk)?;
            let failing = fresh.iter().filter(|f| f[0].end.is_err()).count();
            if failing > 0 && failing < npool {
                cx.nt();
            }
            for h in &hists {
                let mut ctx = mk();
                history::<$S>(&pool, &fresh, h, &mut ctx, $name)?;
            }
            lookup_history::<$S>(&pool, &mk, &addrs, $name)?;
        }};
    }
    match storage {
        0 => go!(S2x2, "storage-2x2"),
        1 => go!(S4x4, "storage-4x4"),
        2 => go!(S3x5, "storage-3x5"),
        3 => go!(S193x5, "storage-193x5"),
        _ => {
            let mk = || -> Box<UnwindContext<usize>> { Box::new(UnwindContext::new()) };
            let fresh = fresh_runs(&pool, &mk)?;
            let failing = fresh.iter().filter(|f| f[0].end.is_err()).count();
            if failing > 0 && failing < npool {
                cx.nt();
            }
            for h in &hists {
                let mut ctx = mk();
                history(&pool, &fresh, h, &mut ctx, "heap")?;
            }
            lookup_history(&pool, &mk, &addrs, "heap")?;
        }
    }
    Ok(())
}

// ---------------------------------------------------------------------------
// (b)-(e) entries, trees, clones, caches
// ---------------------------------------------------------------------------

fn entry_str(e: &gimli::DebuggingInformationEntry<Rdr>) -> String {
    format!("@{:#x} depth {} tag {:#x} children {} attrs {:?}", e.offset().0, e.depth(), e.tag().0, e.has_children(), e.attrs().iter().map(|a| format!("{:#x}:{:#x}={}", a.name().0, a.form().0, canon_av(&a.raw_value()))).collect::<Vec<_>>())
}

fn tree_walk(node: gimli::EntriesTreeNode<Rdr>, depth: usize, limit: &mut usize, out: &mut Vec<String>) -> Result<(), String> {
    if *limit == 0 {
        return Ok(());
    }
    *limit -= 1;
    out.push(format!("{}:{}", depth, entry_str(node.entry())));
    let mut children = node.children();
    loop {
        match children.next() {
            Ok(Some(child)) => tree_walk(child, depth + 1, limit, out)?,
            Ok(None) => return Ok(()),
            Err(e) => return Err(format!("{:?}", e)),
        }
        if *limit == 0 {
            return Ok(());
        }
    }
}

/// A clone taken at any position must continue exactly like an uninterrupted iteration, and the original must
/// not be disturbed by the clone.
fn clone_check<I: Clone>(make: &dyn Fn() -> Option<I>, step: &dyn Fn(&mut I) -> Option<String>, what: &str, max_positions: usize) -> R {
    let Some(mut it) = make() else { return Ok(()) };
    let mut baseline = Vec::new();
    while let Some(s) = step(&mut it) {
        let stop = s.starts_with("error");
        baseline.push(s);
        if stop || baseline.len() > 3000 {
            break;
        }
    }
    for k in 0..=baseline.len().min(max_positions) {
        let Some(mut a) = make() else { return Ok(()) };
        for _ in 0..k {
            step(&mut a);
        }
        let mut c = a.clone();
        // the same through `clone_from` into an iterator that has been somewhere else before
        let Some(mut d) = make() else { return Ok(()) };
        for _ in 0..(k + 3) % (baseline.len() + 1) {
            step(&mut d);
        }
        d.clone_from(&a);
        let ahead = step(&mut a);
        for (j, want) in baseline.iter().enumerate().skip(k) {
            let got = step(&mut c);
            ensure_eq!(got.as_ref(), Some(want), format!("c20/clone/{}", what), "clone taken after {} items, item #{}", k, j);
            let got = step(&mut d);
            ensure_eq!(got.as_ref(), Some(want), format!("c20/clone_from/{}", what), "clone_from (into a used iterator) taken after {} items, item #{}", k, j);
            if want.starts_with("error") {
                break;
            }
        }
        ensure_eq!(ahead.as_ref(), baseline.get(k), format!("c20/clone/{}/original-disturbed", what), "after cloning at {}", k);
    }
    Ok(())
}

fn check_entries(ch: &mut Choices, cx: &mut Ctx) -> R {
    cx.label("entry buffers, trees, clones, caches");
    let d = gen_fdwarf(ch, &GenOpts { max_units: 3, max_dies: 12, lines: true, bad_refs: 0, split: false });
    cx.sample_with(|| crate::c12::describe_fdwarf(&d));
    let asm = assemble(&d);
    let mut map: BTreeMap<&'static str, Vec<u8>> = asm.sections.clone();
    // optionally damage one unit's abbreviation offset, or make two units share one table
    let damaged = ch.chance(60) && d.units.len() >= 2;
    if damaged {
        let ui = ch.below(d.units.len());
        let u = &d.units[ui];
        let at = asm.unit_offsets[ui] + if u.format64 { 12 } else { 4 } + 2 + if u.version >= 5 { 2 } else { 0 };
        let info = map.get_mut(".debug_info").unwrap();
        let v: u64 = ch.pick(&[0xffff_ff00u64, 1, 0x7fff_ffff]);
        let n = if u.format64 { 8 } else { 4 };
        for i in 0..n {
            let b = if d.big { (v >> (8 * (n - 1 - i))) as u8 } else { (v >> (8 * i)) as u8 };
            info[at + i] = b;
        }
        cx.label("a unit with an invalid abbreviation offset");
    }
    // a second copy of the first unit appended: two units sharing one abbreviation table
    if ch.chance(100) {
        let info = map.get_mut(".debug_info").unwrap();
        let end = asm.unit_offsets.get(1).copied().unwrap_or(info.len());
        let copy = info[..end].to_vec();
        info.extend_from_slice(&copy);
        cx.label("units sharing an abbreviation table");
    }
    // the same sections with .debug_info truncated somewhere (used to make reads fail)
    let mut map2 = map.clone();
    {
        let info = map2.get_mut(".debug_info").unwrap();
        let cut = ch.below(info.len() + 1);
        info.truncate(cut.max(12).min(info.len()));
    }
    let dwarf = load_map(&map, d.big);
    let headers: Vec<gimli::UnitHeader<Rdr>> = {
        let mut v = Vec::new();
        let mut it = dwarf.units();
        while let Ok(Some(h)) = it.next() {
            v.push(h);
        }
        v
    };
    // ---- (e) abbreviation cache strategies
    let unit_sig = |dw: &gimli::Dwarf<Rdr>, h: &gimli::UnitHeader<Rdr>| -> String {
        match dw.unit(*h) {
            Ok(u) => {
                let mut out = Vec::new();
                let mut cur = u.entries();
                loop {
                    match cur.next_dfs() {
                        Ok(Some(e)) => out.push(entry_str(e)),
                        Ok(None) => break,
                        Err(e) => {
                            out.push(format!("error {:?}", e));
                            break;
                        }
                    }
                }
                format!("name {:?} low_pc {:#x} entries {:?}", u.name.map(|n| n.slice().to_vec()), u.low_pc, out)
            }
            Err(e) => format!("unit error {:?}", e),
        }
    };
    let base: Vec<String> = headers.iter().map(|h| unit_sig(&dwarf, h)).collect();
    for strategy in [gimli::AbbreviationsCacheStrategy::Duplicates, gimli::AbbreviationsCacheStrategy::All] {
        let mut dw = load_map(&map, d.big);
        dw.populate_abbreviations_cache(strategy);
        let order: Vec<usize> = if ch.bool() { (0..headers.len()).collect() } else { (0..headers.len()).rev().collect() };
        for round in 0..2 {
            for i in &order {
                let got = unit_sig(&dw, &headers[*i]);
                ensure_eq!(got, base[*i], "c20/cache/unit-differs", "strategy {:?} round {} unit {}", strategy, round, i);
            }
        }
    }
    // histories on one cache: manual entries (a stale or foreign table set by hand) and earlier populations must not
    // survive `populate`, which is documented to discard any existing entries
    if !headers.is_empty() {
        let mut dw = load_map(&map, d.big);
        let steps = 2 + ch.below(4);
        let mut trace: Vec<String> = Vec::new();
        for _ in 0..steps {
            match ch.below(4) {
                0 | 1 => {
                    // a table that belongs to another offset (or an empty one) stored under a unit's offset
                    let victim = &headers[ch.below(headers.len())];
                    let donor = &headers[ch.below(headers.len())];
                    let table = match dwarf.debug_abbrev.abbreviations(donor.debug_abbrev_offset()) {
                        Ok(t) if donor.debug_abbrev_offset() != victim.debug_abbrev_offset() => std::sync::Arc::new(t),
                        _ => std::sync::Arc::new(gimli::Abbreviations::default()),
                    };
                    dw.abbreviations_cache.set::<Rdr>(victim.debug_abbrev_offset(), table);
                    trace.push(format!("set({:#x})", victim.debug_abbrev_offset().0));
                    cx.label("cache history: manual entry before populate");
                    continue;
                }
                2 => {
                    dw.populate_abbreviations_cache(gimli::AbbreviationsCacheStrategy::Duplicates);
                    trace.push("populate(Duplicates)".into());
                }
                _ => {
                    dw.populate_abbreviations_cache(gimli::AbbreviationsCacheStrategy::All);
                    trace.push("populate(All)".into());
                }
            }
            // right after a populate the cache holds nothing but what that call put there
            for (i, h) in headers.iter().enumerate() {
                let got = unit_sig(&dw, h);
                ensure_eq!(got, base[i], "c20/cache/history-differs", "after {:?}: unit {}", trace, i);
            }
        }
    }
    // ---- (b) entry buffer reused across entries (and across an error)
    let mut shared = gimli::DebuggingInformationEntry::null();
    // first dirty the shared buffer with reads that end in an error: the same section truncated mid-unit
    {
        let dw2 = load_map(&map2, d.big);
        let mut it = dw2.units();
        let mut errors = 0;
        loop {
            match it.next() {
                Ok(Some(h)) => {
                    if let Ok(unit) = dw2.unit(h) {
                        if let Ok(mut raw) = unit.entries_raw(None) {
                            while !raw.is_empty() {
                                if raw.read_entry(&mut shared).is_err() {
                                    errors += 1;
                                    break;
                                }
                            }
                        }
                    }
                }
                Ok(None) => break,
                Err(_) => {
                    errors += 1;
                    break;
                }
            }
        }
        if errors > 0 {
            cx.label("entry buffer reused after a failed read");
        }
    }
    for (ui, h) in headers.iter().enumerate() {
        let Ok(unit) = dwarf.unit(*h) else { continue };
        let Ok(mut a) = unit.entries_raw(None) else { continue };
        let Ok(mut b) = unit.entries_raw(None) else { continue };
        let mut n = 0;
        while !a.is_empty() {
            let mut fresh = gimli::DebuggingInformationEntry::null();
            let ra = a.read_entry(&mut shared);
            let rb = b.read_entry(&mut fresh);
            match (ra, rb) {
                (Ok(x), Ok(y)) => {
                    ensure_eq!(x, y, "c20/entry-buffer/null-vs-entry", "unit {} entry #{}", ui, n);
                    // null entries too: the buffer must then look like a fresh buffer that has read a null entry
                    ensure_eq!(entry_str(&shared), entry_str(&fresh), if x { "c20/entry-buffer/differs" } else { "c20/entry-buffer/null-differs" }, "unit {} entry #{}", ui, n);
                }
                (Err(x), Err(y)) => {
                    ensure_eq!(format!("{:?}", x), format!("{:?}", y), "c20/entry-buffer/error-differs", "unit {}", ui);
                    break;
                }
                (x, y) => fail!("c20/entry-buffer/outcome-differs", "unit {} entry #{}: reused {:?} fresh {:?}", ui, n, x.map(|_| ()), y.map(|_| ())),
            }
            n += 1;
            if n > 10_000 {
                break;
            }
        }
    }
    // ---- (b'') a cursor whose read fails part-way through a unit is left like a cursor whose first read failed: no
    // current entry (nothing of the entries read before), and nothing further
    {
        // (an entry after the first of some unit gets an abbreviation code that no table declares)
        let mut map3 = asm.sections.clone();
        let later: Vec<usize> = asm.positions.iter().filter(|(t, _)| t.1 > 0).map(|(_, p)| p.1).collect();
        if let (Some(info), false) = (map3.get_mut(".debug_info"), later.is_empty()) {
            let at = later[ch.below(later.len())];
            if at < info.len() {
                info[at] = 0x7e;
            }
        }
        let dw2 = load_map(&map3, d.big);
        let mut it = dw2.units();
        while let Ok(Some(h)) = it.next() {
            let Ok(unit) = dw2.unit(h) else { continue };
            let mut c = unit.entries();
            let mut n = 0usize;
            loop {
                match c.next_entry() {
                    Ok(true) => n += 1,
                    Ok(false) => break,
                    Err(_) => {
                        ensure!(c.current().is_none(), "c20/cursor/current-after-error", "after {} entries and a failed read the cursor still reports a current entry: {}", n, c.current().map(entry_str).unwrap_or_default());
                        ensure!(matches!(c.next_sibling(), Ok(None)), "c20/cursor/next_sibling-after-error", "after {} entries and a failed read", n);
                        ensure!(matches!(c.next_entry(), Ok(false)), "c20/cursor/next_entry-after-error", "after {} entries and a failed read", n);
                        cx.label("cursor: read failed part-way through a unit");
                        break;
                    }
                }
                if n > 10_000 {
                    break;
                }
            }
        }
    }
    // ---- (b') an attribute vector reused across `read_abbreviation` + `read_attributes` (documented to clear it), and
    // an entry overwritten by `clone_from`
    {
        let mut shared_attrs: Vec<gimli::Attribute<Rdr>> = Vec::new();
        let mut copy = gimli::DebuggingInformationEntry::null();
        for (ui, h) in headers.iter().enumerate() {
            let Ok(unit) = dwarf.unit(*h) else { continue };
            let Ok(mut a) = unit.entries_raw(None) else { continue };
            let Ok(mut b) = unit.entries_raw(None) else { continue };
            let Ok(mut c) = unit.entries_raw(None) else { continue };
            let mut n = 0;
            while !a.is_empty() {
                let ra = a.read_abbreviation().map(|o| o.map(|ab| ab.attributes().to_vec()));
                let rb = b.read_abbreviation().map(|o| o.map(|ab| ab.attributes().to_vec()));
                let show = |v: &Vec<gimli::Attribute<Rdr>>| v.iter().map(|x| format!("{:#x}:{:#x}={}", x.name().0, x.form().0, canon_av(&x.raw_value()))).collect::<Vec<_>>();
                match (ra, rb) {
                    (Ok(Some(sa)), Ok(Some(sb))) => {
                        let mut fresh: Vec<gimli::Attribute<Rdr>> = Vec::new();
                        let x = a.read_attributes(&sa, &mut shared_attrs);
                        let y = b.read_attributes(&sb, &mut fresh);
                        ensure_eq!(x.is_ok(), y.is_ok(), "c20/attribute-vector/outcome-differs", "unit {} entry #{}", ui, n);
                        if x.is_err() {
                            break;
                        }
                        ensure_eq!(show(&shared_attrs), show(&fresh), "c20/attribute-vector/differs", "unit {} entry #{}: reused vector vs fresh vector", ui, n);
                    }
                    (Ok(None), Ok(None)) => {}
                    (Err(_), Err(_)) => break,
                    (x, y) => fail!("c20/attribute-vector/outcome-differs", "unit {} entry #{}: {:?} vs {:?}", ui, n, x.map(|o| o.is_some()), y.map(|o| o.is_some())),
                }
                // an entry copied over whatever the copy held before
                let mut e = gimli::DebuggingInformationEntry::null();
                if c.read_entry(&mut e).is_ok() {
                    copy.clone_from(&e);
                    ensure_eq!(entry_str(&copy), entry_str(&e), "c20/entry-clone_from/differs", "unit {} entry #{}", ui, n);
                }
                n += 1;
                if n > 10_000 {
                    break;
                }
            }
        }
    }
    // ---- (c) re-rooting a tree between partial traversals
    for (ui, h) in headers.iter().enumerate() {
        let Ok(unit) = dwarf.unit(*h) else { continue };
        let Ok(mut fresh_tree) = unit.entries_tree(None) else { continue };
        let mut want = Vec::new();
        let mut lim = usize::MAX;
        let want_end = match fresh_tree.root() {
            Ok(root) => tree_walk(root, 0, &mut lim, &mut want),
            Err(e) => Err(format!("{:?}", e)),
        };
        let Ok(mut tree) = unit.entries_tree(None) else { continue };
        let rounds = 1 + ch.below(3);
        for r in 0..rounds {
            let mut part = Vec::new();
            let mut lim = ch.below(want.len() + 1);
            if let Ok(root) = tree.root() {
                let _ = tree_walk(root, 0, &mut lim, &mut part);
            }
            for (i, p) in part.iter().enumerate() {
                ensure_eq!(Some(p), want.get(i), "c20/tree/partial-traversal-differs", "unit {} round {} node #{}", ui, r, i);
            }
        }
        let mut got = Vec::new();
        let mut lim = usize::MAX;
        let got_end = match tree.root() {
            Ok(root) => tree_walk(root, 0, &mut lim, &mut got),
            Err(e) => Err(format!("{:?}", e)),
        };
        ensure_eq!(got_end, want_end, "c20/tree/reroot-outcome", "unit {}", ui);
        for (i, (g, w)) in got.iter().zip(want.iter()).enumerate() {
            ensure_eq!(g, w, "c20/tree/reroot-differs", "unit {} node #{} after {} earlier traversals", ui, i, rounds);
        }
        ensure_eq!(got.len(), want.len(), "c20/tree/reroot-count", "unit {}", ui);
        // the root's children, listed while every child's subtree is entered and abandoned part-way, on the tree that
        // has been used above vs listed without descending on a fresh tree
        let list = |tree: &mut gimli::EntriesTree<Rdr>, descend: bool| -> Result<Vec<usize>, String> {
            let root = tree.root().map_err(|e| format!("{:?}", e))?;
            let mut it = root.children();
            let mut out = Vec::new();
            while let Some(c) = it.next().map_err(|e| format!("{:?}", e))? {
                out.push(c.entry().offset().0);
                if descend {
                    let mut gi = c.children();
                    if let Ok(Some(g)) = gi.next() {
                        let mut ggi = g.children();
                        let _ = ggi.next();
                    }
                }
                if out.len() > 10_000 {
                    break;
                }
            }
            Ok(out)
        };
        if let Ok(mut fresh) = unit.entries_tree(None) {
            let plain = list(&mut fresh, false);
            let used = list(&mut tree, true);
            ensure_eq!(used, plain, "c20/tree/children-after-partial-descent", "unit {}", ui);
        }
        if want.len() >= 3 {
            cx.nt();
        }
    }
    // ---- (d) clones taken at every position continue independently
    for (ui, h) in headers.iter().enumerate() {
        let Ok(unit) = dwarf.unit(*h) else { continue };
        // depth-first cursor
        let step_dfs = |c: &mut gimli::EntriesCursor<Rdr>| -> Option<String> {
            match c.next_dfs() {
                Ok(Some(e)) => Some(entry_str(e)),
                Ok(None) => None,
                Err(e) => Some(format!("error {:?}", e)),
            }
        };
        let mut baseline = Vec::new();
        {
            let mut c = unit.entries();
            while let Some(s) = step_dfs(&mut c) {
                let stop = s.starts_with("error");
                baseline.push(s);
                if stop || baseline.len() > 5000 {
                    break;
                }
            }
        }
        for k in 0..=baseline.len().min(12) {
            let mut c = unit.entries();
            for _ in 0..k {
                step_dfs(&mut c);
            }
            let mut c2 = c.clone();
            // the same through `clone_from` into a cursor that stands somewhere else (another entry, another depth)
            let mut c3 = unit.entries();
            for _ in 0..(k + 2) % (baseline.len() + 1) {
                step_dfs(&mut c3);
            }
            c3.clone_from(&c);
            ensure_eq!(c3.current().map(entry_str), c.current().map(entry_str), "c20/clone_from/cursor-current", "unit {} at {}", ui, k);
            // next_sibling from the copy = next_sibling from a plain clone
            {
                let mut s2 = c.clone();
                let mut s3 = c3.clone();
                let a = s2.next_sibling().map(|o| o.map(entry_str)).map_err(|e| format!("{:?}", e));
                let b = s3.next_sibling().map(|o| o.map(entry_str)).map_err(|e| format!("{:?}", e));
                ensure_eq!(b, a, "c20/clone_from/cursor-next_sibling", "unit {} at {}", ui, k);
            }
            // advance the original further before the clone moves
            let ahead: Vec<Option<String>> = (0..2).map(|_| step_dfs(&mut c)).collect();
            for (j, want) in baseline.iter().enumerate().skip(k) {
                let got = step_dfs(&mut c2);
                ensure_eq!(got.as_ref(), Some(want), "c20/clone/cursor", "unit {} clone taken after {} entries, entry #{}", ui, k, j);
                let got = step_dfs(&mut c3);
                ensure_eq!(got.as_ref(), Some(want), "c20/clone_from/cursor", "unit {} clone_from taken after {} entries, entry #{}", ui, k, j);
                if want.starts_with("error") {
                    break;
                }
            }
            for (j, a) in ahead.iter().enumerate() {
                ensure_eq!(a.as_ref(), baseline.get(k + j), "c20/clone/original-disturbed", "unit {} after cloning at {}", ui, k);
            }
        }
        // line rows
        if let Some(program) = unit.line_program.clone() {
            fn step<'a>(r: &mut gimli::LineRows<Rdr<'a>, gimli::IncompleteLineProgram<Rdr<'a>>>) -> Option<String> {
                match r.next_row() {
                    Ok(Some((_, row))) => Some(format!("{:?}", row)),
                    Ok(None) => None,
                    Err(e) => Some(format!("error {:?}", e)),
                }
            }
            let mut baseline = Vec::new();
            let mut r = program.clone().rows();
            while let Some(s) = step(&mut r) {
                let stop = s.starts_with("error");
                baseline.push(s);
                if stop || baseline.len() > 2000 {
                    break;
                }
            }
            for k in 0..=baseline.len().min(8) {
                let mut r = program.clone().rows();
                for _ in 0..k {
                    step(&mut r);
                }
                let mut r2 = r.clone();
                step(&mut r);
                for (j, want) in baseline.iter().enumerate().skip(k) {
                    let got = step(&mut r2);
                    ensure_eq!(got.as_ref(), Some(want), "c20/clone/line-rows", "unit {} clone taken after {} rows, row #{}", ui, k, j);
                    if want.starts_with("error") {
                        break;
                    }
                }
            }
        }
    }
    // operation iterators (the list iterators are not Clone)
    for h in headers.iter() {
        let Ok(unit) = dwarf.unit(*h) else { continue };
        let enc = unit.encoding();
        let mut cur = unit.entries();
        let mut budget = 24;
        while let Ok(Some(e)) = cur.next_dfs() {
            for a in e.attrs() {
                if budget == 0 {
                    break;
                }
                let v = a.value();
                match v {
                    gimli::AttributeValue::Exprloc(x) => {
                        budget -= 1;
                        clone_check(
                            &|| Some(x.clone().operations(enc)),
                            &|it| match it.next() {
                                Ok(Some(op)) => Some(format!("{:?}", op)),
                                Ok(None) => None,
                                Err(e) => Some(format!("error {:?}", e)),
                            },
                            "operations",
                            8,
                        )?;
                    }
                    _ => {}
                }
            }
        }
    }
    // call frame entries
    {
        let f = crate::c12::gen_frame(ch);
        let built = crate::cfimodel::build_frame(f.eh, f.big, &f.cies, &f.fdes, &f.order, f.eh);
        let endian = if f.big { RunTimeEndian::Big } else { RunTimeEndian::Little };
        let bases = gimli::BaseAddresses::default().set_eh_frame(0);
        use gimli::UnwindSection;
        if f.eh {
            let mut sec = gimli::EhFrame::new(&built.bytes, endian);
            sec.set_address_size(f.address_size);
            clone_check(
                &|| Some(sec.entries(&bases)),
                &|it| match it.next() {
                    Ok(Some(gimli::CieOrFde::Cie(c))) => Some(format!("cie@{}", c.offset())),
                    Ok(Some(gimli::CieOrFde::Fde(p))) => Some(format!("fde {:?}", p.parse(gimli::EhFrame::cie_from_offset).map(|f| (f.offset(), f.initial_address(), f.len())))),
                    Ok(None) => None,
                    Err(e) => Some(format!("error {:?}", e)),
                },
                "cfi-entries",
                8,
            )?;
        } else {
            let mut sec = gimli::DebugFrame::new(&built.bytes, endian);
            sec.set_address_size(f.address_size);
            clone_check(
                &|| Some(sec.entries(&bases)),
                &|it| match it.next() {
                    Ok(Some(gimli::CieOrFde::Cie(c))) => Some(format!("cie@{}", c.offset())),
                    Ok(Some(gimli::CieOrFde::Fde(p))) => Some(format!("fde {:?}", p.parse(gimli::DebugFrame::cie_from_offset).map(|f| (f.offset(), f.initial_address(), f.len())))),
                    Ok(None) => None,
                    Err(e) => Some(format!("error {:?}", e)),
                },
                "cfi-entries",
                8,
            )?;
        }
    }
    // unit headers iterator
    {
        let step = |it: &mut gimli::DebugInfoUnitHeadersIter<Rdr>| -> Option<String> {
            match it.next() {
                Ok(Some(h)) => Some(format!("{:?}", h.offset())),
                Ok(None) => None,
                Err(e) => Some(format!("error {:?}", e)),
            }
        };
        let mut baseline = Vec::new();
        let mut it = dwarf.units();
        while let Some(s) = step(&mut it) {
            let stop = s.starts_with("error");
            baseline.push(s);
            if stop || baseline.len() > 100 {
                break;
            }
        }
        for k in 0..=baseline.len() {
            let mut it = dwarf.units();
            for _ in 0..k {
                step(&mut it);
            }
            let mut it2 = it.clone();
            step(&mut it);
            for (j, want) in baseline.iter().enumerate().skip(k) {
                let got = step(&mut it2);
                ensure_eq!(got.as_ref(), Some(want), "c20/clone/unit-headers", "clone after {} headers, header #{}", k, j);
                if want.starts_with("error") {
                    break;
                }
            }
        }
    }
    Ok(())
}

/// Line-number rows: the state a sequence starts from never depends on what the same `LineRows` processed before.
/// A multi-sequence program (the C04 generator: every register-setting opcode, several sequences) is run straight
/// through; every sequence is then resumed on its own (`sequences` + `resume_from`, in reverse order and twice), and
/// a clone taken at every row boundary is continued: the rows must be those of the straight run.
fn check_line_state(ch: &mut Choices, cx: &mut Ctx) -> R {
    use crate::linemodel::build_line;
    cx.label("line rows: resumed and cloned");
    let big = ch.bool();
    let h = crate::c04::gen_header(ch);
    // half of the programs contain tombstoned regions (rows withheld, sequences withheld entirely)
    let ops = if ch.bool() { crate::c04::gen_tombstone_program(ch, &h) } else { crate::c04::gen_program(ch, &h) };
    let prog = crate::c04::encode_program(&ops, &h, big);
    let (bytes, _) = build_line(&h, big, &prog);
    let endian = if big { RunTimeEndian::Big } else { RunTimeEndian::Little };
    cx.sample_with(|| format!("line program v{} addr{} {:?}", h.version, h.address_size, ops));
    let dl = gimli::DebugLine::new(&bytes, endian);
    let Ok(program) = dl.program(gimli::DebugLineOffset(0), h.address_size, None, None) else {
        cx.label("line rows: header refused");
        return Ok(());
    };
    let show = |r: &gimli::LineRow| format!("{:#x}.{} f{} l{:?} c{:?} s{} bb{} end{} pe{} eb{} isa{} d{}", r.address(), r.op_index(), r.file_index(), r.line(), r.column(), r.is_stmt(), r.basic_block(), r.end_sequence(), r.prologue_end(), r.epilogue_begin(), r.isa(), r.discriminator());
    // the file entry a row names, through the header handed out with the row (a file a program defines itself is in
    // the table from its DW_LNE_define_file on; resumed sequences see the completed table)
    fn file_of<'a>(hdr: &gimli::LineProgramHeader<Rdr<'a>>, r: &gimli::LineRow) -> Option<String> {
        r.file(hdr).map(|f| match f.path_name() {
            gimli::AttributeValue::String(s) => format!("{:02x?} dir {}", s.slice(), f.directory_index()),
            other => format!("{:?} dir {}", other, f.directory_index()),
        })
    }
    // straight run, grouped by sequence
    let mut groups: Vec<Vec<String>> = vec![Vec::new()];
    let mut group_files: Vec<Vec<Option<String>>> = vec![Vec::new()];
    let mut all: Vec<String> = Vec::new();
    {
        let mut rows = program.clone().rows();
        loop {
            match rows.next_row() {
                Ok(Some((hdr, r))) => {
                    let s = show(r);
                    all.push(s.clone());
                    group_files.last_mut().unwrap().push(file_of(hdr, r));
                    if r.end_sequence() {
                        group_files.push(Vec::new());
                    }
                    groups.last_mut().unwrap().push(s);
                    if r.end_sequence() {
                        groups.push(Vec::new());
                    }
                }
                Ok(None) => break,
                Err(_) => {
                    cx.label("line rows: program ends in an error");
                    return Ok(());
                }
            }
            if all.len() > 4096 {
                return Ok(());
            }
        }
    }
    groups.retain(|g| !g.is_empty());
    group_files.retain(|g| !g.is_empty());
    // clones taken at every row boundary
    for k in 0..=all.len().min(24) {
        let mut rows = program.clone().rows();
        for _ in 0..k {
            let _ = rows.next_row();
        }
        let mut c = rows.clone();
        // the original moves on before the clone does
        let _ = rows.next_row();
        for (i, want) in all.iter().enumerate().skip(k) {
            match c.next_row() {
                Ok(Some((_, r))) => ensure_eq!(&show(r), want, "c20/line/clone-differs", "clone taken after {} rows, row #{}", k, i),
                other => fail!("c20/line/clone-ends", "clone taken after {} rows stops at row #{}: {:?}", k, i, other.map(|o| o.is_some())),
            }
        }
        ensure!(matches!(c.next_row(), Ok(None)), "c20/line/clone-extra", "clone taken after {} rows yields more rows than the straight run", k);
    }
    // every sequence resumed on its own: its rows are those of the straight run, whatever was processed before
    let Ok((complete, seqs)) = program.clone().sequences() else {
        cx.label("line rows: sequences() refused");
        return Ok(());
    };
    for round in 0..2 {
        for s in seqs.iter().rev() {
            let mut rr = complete.resume_from(s);
            let mut got = Vec::new();
            let mut got_files: Vec<Option<String>> = Vec::new();
            loop {
                match rr.next_row() {
                    Ok(Some((hdr, r))) => {
                        got_files.push(file_of(hdr, r));
                        got.push(show(r))
                    }
                    Ok(None) => break,
                    Err(e) => fail!("c20/line/resume-error", "{:?}", e),
                }
                if got.len() > 4096 {
                    break;
                }
            }
            ensure!(groups.iter().any(|g| *g == got), "c20/line/resume-differs", "round {}: the sequence [{:#x},{:#x}) resumed on its own gives {:?}, which is not a sequence of the straight run {:?}", round, s.start, s.end, got, groups);
            // a row that named an existing file entry in the straight run names the same entry when resumed
            if let Some(gi) = groups.iter().position(|g| *g == got) {
                if groups.iter().filter(|g| **g == got).count() == 1 {
                    for (k, (want, have)) in group_files[gi].iter().zip(got_files.iter()).enumerate() {
                        if want.is_some() {
                            ensure_eq!(have, want, "c20/line/resume-file-entry", "sequence [{:#x},{:#x}) row #{}", s.start, s.end, k);
                        }
                    }
                }
            }
        }
    }
    if groups.len() >= 2 {
        cx.nt();
    }
    Ok(())
}

impl Prop for C20 {
    fn id(&self) -> &'static str {
        "C20"
    }
    fn rule(&self) -> &'static str {
        "(a) pools of 2-4 generated FDEs (the C06 generator: every call-frame instruction, programs that fail in the CIE's initial instructions, mid-FDE, by row-stack or rule overflow, CIEs with 0, 1 and many initial rules, extra DW_CFA_GNU_args_size) evaluated on one UnwindContext (heap storage and fixed storages 2x2, 4x4, 3x5, 193x5) along every ordered pair, every triple for pools <= 3 and four generated histories of length 3-7 whose steps consume all rows, one row or three rows: each step's rows and outcome must equal those on a fresh context; (b) one DebuggingInformationEntry buffer reused across all entries of generated units vs a fresh buffer per entry; (c) EntriesTree::root called again after 1-3 partial traversals of generated length vs a fresh tree; (d) clones of the depth-first cursor, of LineRows, of operation iterators, of the CFI entries iterator and of the unit-header iterator taken at every position (the original is advanced further before the clone moves) vs an uninterrupted iteration; (d') multi-sequence line programs (the C04 generator) run straight through vs every sequence resumed on its own through sequences()/resume_from (reverse order, twice) and vs clones taken at every row boundary; (e) Dwarf::unit for every unit with the abbreviation cache populated under Duplicates / All, in forward or reverse order and twice, incl. units sharing one abbreviation table and a unit whose abbreviation offset is invalid, vs the uncached result, and histories of 2-5 steps on one cache mixing manual `set` of a foreign table with `populate` under either strategy (documented to discard existing entries): after every populate each unit equals the uncached result. Non-trivial = a pool with both failing and succeeding FDEs, or a re-rooted tree of >= 3 entries; distinct by choice string. Later additions: clone_from into used cursors, iterators and entries; an attribute vector reused across read_abbreviation + read_attributes; address lookups on one context across FDEs covering the same address; the file entry a resumed line row names. Round-8 additions: a cursor whose read fails part-way through a unit has no current entry and yields nothing further."
    }
    fn assumptions(&self) -> Vec<&'static str> {
        vec!["fresh state is the oracle: the same gimli code on newly created contexts, buffers, trees, iterators and an unpopulated cache"]
    }
    fn max_len(&self) -> usize {
        900
    }
    fn cases(&self, tier: Tier, dev: bool) -> u64 {
        match (tier, dev) {
            (Tier::Quick, false) => 16_000,
            (Tier::Quick, true) => 3_000,
            (Tier::Thorough, false) => 800_000,
            (Tier::Thorough, true) => 80_000,
        }
    }
    fn run_case(&self, ch: &mut Choices, cx: &mut Ctx) -> R {
        match ch.below(8) {
            0..=3 => check_context(ch, cx),
            4 => check_line_state(ch, cx),
            _ => check_entries(ch, cx),
        }
    }
}
