//! C11 — written units read back as the same forest with every reference intact.
use crate::core::*;
use crate::enc::mask;
use crate::wmodel::*;

pub struct C11;

pub fn gen_simple_expr(ch: &mut Choices, depth: u32) -> Vec<WOp> {
    let n = 1 + ch.below(5);
    let mut v = Vec::new();
    for _ in 0..n {
        v.push(match ch.below(14) {
            0 => WOp::Constu(ch.pick(&[0u64, 31, 32, 127, 128, 1 << 35])),
            1 => WOp::Consts(ch.pick(&[0i64, -1, 63, 64, -65, i64::MIN])),
            2 => WOp::Breg(ch.pick(&[0u16, 31, 32, 300]), ch.range(-200, 200)),
            3 => WOp::Fbreg(ch.range(-4096, 4096)),
            4 => WOp::PlusUconst(ch.biased(20)),
            5 => WOp::Simple(ch.pick(&[0x22u8, 0x1c, 0x12, 0x13, 0x96, 0x9c, 0x06, 0x1a, 0x9f])),
            6 => WOp::Pick(ch.below(4) as u8),
            7 => WOp::DerefSize(ch.pick(&[1u8, 2, 4, 8])),
            8 => WOp::Addr(ch.biased(32)),
            9 => WOp::ImplicitValue(ch.bytes(3)),
            10 => {
                if depth < 2 {
                    WOp::EntryValue(gen_simple_expr(ch, depth + 1))
                } else {
                    WOp::Reg(5)
                }
            }
            11 => WOp::Piece(ch.pick(&[0u64, 4, 200])),
            12 => WOp::BitPiece(ch.biased(10), ch.biased(6)),
            _ => WOp::Reg(ch.pick(&[0u16, 31, 32, 1000])),
        });
    }
    v
}

fn gen_bytes(ch: &mut Choices, pool: u8) -> Vec<u8> {
    // a small pool so that duplicate strings occur
    let names: [&[u8]; 5] = [b"int", b"main", b"x", b"a_rather_long_identifier_name", b""];
    if ch.chance(180) {
        names[ch.below(pool as usize % 5 + 1)].to_vec()
    } else {
        let n = ch.below(12);
        (0..n).map(|_| 0x21 + ch.u8() % 0x5d).collect()
    }
}

/// Range lists that are representable in the unit's encoding.
pub fn gen_valid_ranges(ch: &mut Choices, version: u16, has_base: bool, a: u8) -> Vec<WRange> {
    let m = mask(a);
    let n = ch.count(5);
    let mut v = Vec::new();
    let mut based = has_base;
    for _ in 0..n {
        let small = |ch: &mut Choices| 0x10 + ch.below(0x1000) as u64;
        if version >= 5 {
            v.push(match ch.below(4) {
                0 => WRange::BaseAddress(small(ch) * 16),
                1 => {
                    let b = small(ch);
                    WRange::OffsetPair(b, b + ch.below(64) as u64)
                }
                2 => {
                    let b = small(ch);
                    WRange::StartEnd(b, b + ch.below(64) as u64)
                }
                _ => WRange::StartLength(small(ch), ch.below(64) as u64),
            });
        } else if based {
            v.push(if ch.chance(40) {
                WRange::BaseAddress(small(ch) * 16)
            } else {
                let b = small(ch);
                WRange::OffsetPair(b, b + 1 + ch.below(64) as u64)
            });
        } else {
            v.push(match ch.below(3) {
                0 => {
                    based = true;
                    WRange::BaseAddress(small(ch) * 16)
                }
                1 => {
                    let b = small(ch);
                    WRange::StartEnd(b & m, (b + 1 + ch.below(64) as u64) & m)
                }
                _ => WRange::StartLength(small(ch), 1 + ch.below(64) as u64),
            });
        }
    }
    v
}

/// The expression of a location list entry: now and then the empty one (the object has no location in that range,
/// which is not the same as having no entry: a default location would apply there otherwise).
pub fn gen_loc_expr(ch: &mut Choices) -> Vec<WOp> {
    if ch.chance(20) {
        Vec::new()
    } else {
        gen_simple_expr(ch, 1)
    }
}

pub fn gen_valid_locs(ch: &mut Choices, version: u16, has_base: bool, a: u8) -> Vec<WLoc> {
    let r = gen_valid_ranges(ch, version, has_base, a);
    let mut v: Vec<WLoc> = r
        .into_iter()
        .map(|x| match x {
            WRange::BaseAddress(a) => WLoc::BaseAddress(a),
            WRange::OffsetPair(b, e) => WLoc::OffsetPair(b, e, gen_loc_expr(ch)),
            WRange::StartEnd(b, e) => WLoc::StartEnd(b, e, gen_loc_expr(ch)),
            WRange::StartLength(b, l) => WLoc::StartLength(b, l, gen_loc_expr(ch)),
        })
        .collect();
    if version >= 5 && ch.chance(60) {
        v.push(WLoc::DefaultLocation(gen_simple_expr(ch, 1)));
    }
    v
}

pub fn gen_wdwarf(ch: &mut Choices, cx: &mut Ctx) -> (WDwarf, Expect) {
    let big = ch.bool();
    let nunits = 1 + ch.below(4);
    let mut expect = Expect::Ok;
    let mut units: Vec<WUnit> = Vec::new();
    // shapes first (references need to know how many entries each unit has)
    let mut counts = Vec::new();
    // now and then the first unit is wide: dozens of children directly under the root (base types among them, which
    // the writer moves to the front while keeping every other order)
    let wide = ch.chance(14);
    for ui in 0..nunits {
        counts.push(if wide && ui == 0 { 28 + ch.below(44) } else { 1 + ch.count(18) });
    }
    let mut has_forward = false;
    let mut has_cross = false;
    let mut var_before_target = false;
    for ui in 0..nunits {
        let version = ch.pick(&[4u16, 5, 3, 2, 5, 4]);
        let format64 = ch.chance(64);
        let address_size = ch.pick(&[8u8, 4, 8, 4]);
        let n = counts[ui];
        let files = if ch.bool() { Some((0..1 + ch.below(3)).map(|i| format!("f{}.c", i).into_bytes()).collect::<Vec<_>>()) } else { None };
        let mut entries: Vec<WEntry> = Vec::new();
        entries.push(WEntry { parent: 0, tag: 0x11, sibling: ch.bool(), attrs: vec![], reserved_early: false, never_added: false });
        for i in 1..n {
            // parents: any earlier entry that is actually added
            let mut parent = if wide && ui == 0 && ch.chance(236) { 0 } else { ch.below(i) };
            while entries[parent].never_added {
                parent = parent.saturating_sub(1);
            }
            let tag = ch.pick(&[0x24u16, 0x2e, 0x34, 0x13, 0x0d, 0x0b, 0x05, 0x39, 0x24, 0x16]);
            let never_added = ch.chance(5);
            entries.push(WEntry { parent, tag, sibling: ch.bool(), attrs: vec![], reserved_early: ch.chance(30), never_added });
        }
        // a never-added entry must not be a parent: fix up children
        for i in 1..n {
            if entries[entries[i].parent].never_added {
                entries[i].parent = 0;
            }
        }
        let has_base = ch.bool();
        if has_base {
            entries[0].attrs.push((0x11, WVal::Address(0x1000 + ch.below(0x1000) as u64)));
        } else if ch.bool() {
            entries[0].attrs.push((0x11, WVal::Address(0)));
        }
        let nr = ch.count(3);
        let ranges: Vec<Vec<WRange>> = (0..nr).map(|_| gen_valid_ranges(ch, version, has_base, address_size)).collect();
        let nl = ch.count(2);
        let locs: Vec<Vec<WLoc>> = (0..nl).map(|_| gen_valid_locs(ch, version, has_base, address_size)).collect();
        units.push(WUnit { version, format64, address_size, entries, ranges, locs, files });
    }
    // attributes
    for ui in 0..nunits {
        let n = counts[ui];
        let order: Vec<usize> = units[ui].preorder().iter().map(|x| x.0).collect();
        let position = |e: usize| order.iter().position(|x| *x == e);
        for ei in 0..n {
            if units[ui].entries[ei].never_added {
                continue;
            }
            let na = if wide && ui == 0 { ch.count(2) } else { ch.count(6) };
            for _ in 0..na {
                let u = &units[ui];
                let kind = ch.below(30);
                let (name, val): (u16, WVal) = match kind {
                    0 => (ch.pick(&[0x52u16, 0x12]), WVal::Address(ch.biased(8 * u.address_size as u32))),
                    1 => (ch.pick(&[0x1cu16, 0x3d]), {
                        let k = ch.pick(&[0usize, 1, 127, 128, 300]);
                        WVal::Block(ch.bytes(k.min(40)).into_iter().cycle().take(k).collect())
                    }),
                    2 => (0x1c, WVal::Data1(ch.u8())),
                    3 => (0x0b, WVal::Data2(ch.u16())),
                    4 => (0x3b, WVal::Data4(ch.u32())),
                    5 => (0x88, WVal::Data8(ch.biased(64))),
                    6 => (0x1c, WVal::Data16(((ch.biased(64) as u128) << 64) | ch.biased(64) as u128)),
                    7 => (ch.pick(&[0x1cu16, 0x3b]), WVal::Sdata(if ch.bool() { ch.sleb_edge() } else { ch.biased_signed(64) })),
                    8 => (ch.pick(&[0x0bu16, 0x39, 0x2007]), WVal::Udata(ch.biased(64))),
                    9 => (ch.pick(&[0x1cu16, 0x0b]), WVal::ImplicitConst(if ch.bool() { ch.sleb_edge() } else { ch.pick(&[0i64, 63, 64, -64, -65, 0x2000, i64::MIN, 0x7f, 0x80]) })),
                    10 | 11 => (ch.pick(&[0x02u16, 0x40, 0x50]), WVal::Exprloc(gen_simple_expr(ch, 0))),
                    12 => (ch.pick(&[0x3fu16, 0x3c]), WVal::Flag(ch.bool())),
                    13 => (0x27, WVal::FlagPresent),
                    14..=16 => {
                        let t = ch.below(n);
                        (ch.pick(&[0x49u16, 0x31, 0x47, 0x1d]), WVal::UnitRef(t))
                    }
                    17 | 18 => {
                        let tu = ch.below(nunits);
                        (ch.pick(&[0x49u16, 0x18, 0x31]), WVal::DebugInfoRef(tu, ch.below(counts[tu])))
                    }
                    19 => (0x49, WVal::DebugInfoRefSup(ch.biased(32))),
                    20 => {
                        if !u.locs.is_empty() {
                            // any of the attributes that may hold a location list (DW_AT_data_member_location among
                            // them: a list pointer in every version, and in data4/data8 form before version 4)
                            (ch.pick(&[0x02u16, 0x02, 0x38, 0x40, 0x2a, 0x19, 0x48, 0x4a, 0x4d]), WVal::LocationListRef(ch.below(u.locs.len())))
                        } else {
                            (0x3f, WVal::Flag(true))
                        }
                    }
                    21 => {
                        if !u.ranges.is_empty() {
                            (0x55, WVal::RangeListRef(ch.below(u.ranges.len())))
                        } else {
                            (0x3c, WVal::Flag(false))
                        }
                    }
                    22 => (ch.pick(&[0x69u16, 0x49]), WVal::DebugTypesRef(ch.biased(64))),
                    23 => (ch.pick(&[0x03u16, 0x25, 0x6e]), WVal::StringRef(gen_bytes(ch, 3))),
                    24 => (ch.pick(&[0x03u16, 0x1b]), WVal::LineStringRef(gen_bytes(ch, 3))),
                    25 => (ch.pick(&[0x03u16, 0x6e]), WVal::String(gen_bytes(ch, 4))),
                    26 => {
                        let k = ch.below(12) as u8;
                        let name = [0x3eu16, 0x5e, 0x65, 0x32, 0x17, 0x4c, 0x13, 0x33, 0x42, 0x36, 0x20, 0x09][k as usize];
                        let v = if k == 6 { ch.biased(16) } else if k == 7 { ch.biased(64) } else { ch.biased(8) };
                        (name, WVal::Enum(k, v))
                    }
                    27 => match &u.files {
                        Some(f) => (ch.pick(&[0x3au16, 0x58]), WVal::FileIndex(Some(ch.below(f.len())))),
                        None => (0x3a, WVal::FileIndex(None)),
                    },
                    28 => (ch.pick(&[0x03u16]), WVal::DebugStrRefSup(ch.biased(32))),
                    _ => {
                        if ch.bool() {
                            (0x43, WVal::DebugMacinfoRef(ch.biased(32)))
                        } else {
                            (0x79, WVal::DebugMacroRef(ch.biased(32)))
                        }
                    }
                };
                // classification for the evidence and the expectation
                match &val {
                    WVal::UnitRef(t) => {
                        if units[ui].entries[*t].never_added {
                            expect = Expect::MustFail("reference to an entry that was reserved but never added");
                        } else if position(*t) > position(ei) {
                            has_forward = true;
                        }
                    }
                    WVal::DebugInfoRef(tu, t) => {
                        if units[*tu].entries[*t].never_added {
                            expect = Expect::MustFail("reference to an entry that was reserved but never added");
                        } else if *tu != ui {
                            has_cross = true;
                        }
                    }
                    WVal::Block(_) | WVal::String(_) | WVal::Udata(_) | WVal::Sdata(_) | WVal::Exprloc(_) => {
                        // a variable-size attribute before entries that are referenced
                        var_before_target = true;
                    }
                    _ => {}
                }
                units[ui].entries[ei].attrs.push((name, val));
            }
        }
    }
    // entry references from expressions (in attributes and in location lists): only the operations whose operand is a
    // fixed-size field patched after all offsets are known, so that any direction and any unit is a legal target
    let mut has_expr_ref = false;
    {
        let added: Vec<Vec<usize>> = units.iter().map(|u| (0..u.entries.len()).filter(|i| !u.entries[*i].never_added).collect()).collect();
        let mut ref_op = |ch: &mut Choices, ui: usize| -> WOp {
            let tu = ch.below(nunits);
            let te = added[tu][ch.below(added[tu].len())];
            let same = added[ui][ch.below(added[ui].len())];
            match ch.below(5) {
                0 => WOp::Call(same),
                1 => WOp::CallRef(tu, te),
                2 => WOp::ImplicitPointer(tu, te, ch.range(-3, 300)),
                3 => WOp::VariableValue(tu, te),
                _ => WOp::ParameterRef(same),
            }
        };
        for ui in 0..nunits {
            for ei in 0..units[ui].entries.len() {
                for ai in 0..units[ui].entries[ei].attrs.len() {
                    if matches!(units[ui].entries[ei].attrs[ai].1, WVal::Exprloc(_)) && ch.chance(50) {
                        let op = ref_op(ch, ui);
                        if let WVal::Exprloc(ops) = &mut units[ui].entries[ei].attrs[ai].1 {
                            let at = ch.below(ops.len() + 1);
                            ops.insert(at, op);
                            has_expr_ref = true;
                        }
                    }
                }
            }
            for li in 0..units[ui].locs.len() {
                for k in 0..units[ui].locs[li].len() {
                    if ch.chance(70) {
                        let op = ref_op(ch, ui);
                        match &mut units[ui].locs[li][k] {
                            WLoc::OffsetPair(_, _, ops) | WLoc::StartEnd(_, _, ops) | WLoc::StartLength(_, _, ops) | WLoc::DefaultLocation(ops) => {
                                let at = ch.below(ops.len() + 1);
                                ops.insert(at, op);
                                has_expr_ref = true;
                            }
                            WLoc::BaseAddress(_) => {}
                        }
                    }
                }
            }
        }
    }
    if has_expr_ref {
        cx.label("entry reference inside an expression");
    }
    // `set` replaces an earlier attribute of the same name: judge the references that remain
    expect = Expect::Ok;
    for u in units.iter() {
        for e in u.entries.iter().filter(|e| !e.never_added) {
            for (i, (name, v)) in e.attrs.iter().enumerate() {
                if e.attrs[i + 1..].iter().any(|x| x.0 == *name) {
                    continue;
                }
                let dangling = match v {
                    WVal::UnitRef(t) => u.entries[*t].never_added,
                    WVal::DebugInfoRef(tu, t) => units[*tu].entries[*t].never_added,
                    _ => false,
                };
                if dangling {
                    expect = Expect::MustFail("reference to an entry that was reserved but never added");
                }
            }
        }
    }
    // temporary children that are deleted again before writing
    let mut dummies: Vec<(usize, usize)> = Vec::new();
    if ch.chance(90) {
        for _ in 0..1 + ch.below(2) {
            let ui = ch.below(nunits);
            if counts[ui] > 1 {
                dummies.push((ui, 1 + ch.below(counts[ui] - 1)));
            }
        }
        cx.label("temporary children deleted before writing");
    }
    if nunits >= 2 && has_cross && has_forward && var_before_target {
        cx.nt();
    }
    if wide {
        cx.label("wide unit (28-71 entries, most of them children of the root)");
    }
    if has_cross {
        cx.label("cross-unit reference");
    }
    if has_forward {
        cx.label("forward in-unit reference");
    }
    if matches!(expect, Expect::MustFail(_)) {
        cx.label("negative: reference to never-added entry");
    }
    (WDwarf { big, units, dummies }, expect)
}

/// The single-unit convenience writer (`DwarfUnit`) against the general one (`Dwarf` with one unit): the same requests
/// give byte-identical sections. Both are filled by the same routine: entries with strings in both tables, a reference,
/// a range list, a location list with an expression referring to an entry, and a line program whose names live in the
/// string tables.
fn check_dwarf_unit(ch: &mut Choices, cx: &mut Ctx) -> R {
    use crate::{ensure_eq, fail};
    use gimli::write as w;
    cx.label("DwarfUnit against Dwarf");
    let big = ch.bool();
    let endian = if big { gimli::RunTimeEndian::Big } else { gimli::RunTimeEndian::Little };
    let version = ch.pick(&[5u16, 4, 3, 2, 5]);
    let enc = gimli::Encoding { format: if ch.chance(64) { gimli::Format::Dwarf64 } else { gimli::Format::Dwarf32 }, version, address_size: ch.pick(&[8u8, 4]) };
    let names: Vec<Vec<u8>> = (0..3).map(|_| gen_bytes(ch, 3)).collect();
    let nkids = 1 + ch.below(4);
    let kinds: Vec<usize> = (0..nkids).map(|_| ch.below(5)).collect();
    let base = 0x1000 + ch.below(16) as u64 * 0x100;
    let with_lines = ch.chance(170);
    let str_kind = ch.below(3);
    cx.sample_with(|| format!("{:?} children {:?} names {:?} line program {} string kind {}", enc, kinds, names, with_lines, str_kind));
    let fill = |unit: &mut w::Unit, strings: &mut w::StringTable, line_strings: &mut w::LineStringTable| {
        if with_lines {
            let mut mk = |b: &[u8]| match (enc.version >= 5, str_kind) {
                (true, 1) => w::LineString::StringRef(strings.add(b.to_vec())),
                (true, 2) => w::LineString::LineStringRef(line_strings.add(b.to_vec())),
                _ => w::LineString::String(b.to_vec()),
            };
            let mut lp = w::LineProgram::new(enc, gimli::LineEncoding::default(), mk(b"/wd"), None, mk(b"main.c"), None);
            let d = lp.default_directory();
            let f = lp.add_file(mk(b"other.c"), d, None);
            lp.begin_sequence(Some(w::Address::Constant(base)));
            lp.row().file = f;
            lp.row().line = 3;
            lp.generate_row();
            lp.row().address_offset = 8;
            lp.row().line = 5;
            lp.generate_row();
            lp.end_sequence(16);
            unit.line_program = lp;
        }
        let root = unit.root();
        unit.get_mut(root).set(gimli::DW_AT_name, w::AttributeValue::StringRef(strings.add(names[0].clone())));
        unit.get_mut(root).set(gimli::DW_AT_low_pc, w::AttributeValue::Address(w::Address::Constant(base)));
        if with_lines {
            unit.get_mut(root).set(gimli::DW_AT_stmt_list, w::AttributeValue::LineProgramRef);
        }
        let mut first: Option<w::UnitEntryId> = None;
        for (k, kind) in kinds.iter().enumerate() {
            let id = unit.add(root, gimli::DW_TAG_variable);
            match kind {
                0 => unit.get_mut(id).set(gimli::DW_AT_name, w::AttributeValue::StringRef(strings.add(names[1].clone()))),
                1 => unit.get_mut(id).set(gimli::DW_AT_name, w::AttributeValue::LineStringRef(line_strings.add(names[2].clone()))),
                2 => {
                    let list = w::RangeList(vec![w::Range::StartLength { begin: w::Address::Constant(base + 0x10 * k as u64), length: 8 }]);
                    let rid = unit.ranges.add(list);
                    unit.get_mut(id).set(gimli::DW_AT_ranges, w::AttributeValue::RangeListRef(rid));
                }
                3 => {
                    let mut e = w::Expression::new();
                    if let Some(t) = first {
                        e.op_call(t);
                    }
                    e.op_reg(gimli::Register(3));
                    let list = w::LocationList(vec![w::Location::StartEnd { begin: w::Address::Constant(base + 0x20), end: w::Address::Constant(base + 0x30), data: e }]);
                    let lid = unit.locations.add(list);
                    unit.get_mut(id).set(gimli::DW_AT_location, w::AttributeValue::LocationListRef(lid));
                }
                _ => {
                    if let Some(t) = first {
                        unit.get_mut(id).set(gimli::DW_AT_type, w::AttributeValue::UnitRef(t));
                    }
                }
            }
            first.get_or_insert(id);
        }
    };
    let collect = |s: &w::Sections<w::EndianVec<gimli::RunTimeEndian>>| -> Vec<(&'static str, Vec<u8>)> {
        let mut out = Vec::new();
        let _ = s.for_each(|id, data| -> Result<(), ()> {
            out.push((id.name(), data.slice().to_vec()));
            Ok(())
        });
        out
    };
    let a = {
        let mut d = w::Dwarf::new();
        let mut unit = w::Unit::new(enc, w::LineProgram::none());
        fill(&mut unit, &mut d.strings, &mut d.line_strings);
        d.units.add(unit);
        let mut s = w::Sections::new(w::EndianVec::new(endian));
        d.write(&mut s).map(|_| collect(&s)).map_err(|e| format!("{:?}", e))
    };
    let b = {
        let mut du = w::DwarfUnit::new(enc);
        fill(&mut du.unit, &mut du.strings, &mut du.line_strings);
        let mut s = w::Sections::new(w::EndianVec::new(endian));
        du.write(&mut s).map(|_| collect(&s)).map_err(|e| format!("{:?}", e))
    };
    match (&a, &b) {
        (Ok(x), Ok(y)) => {
            for ((n1, d1), (_, d2)) in x.iter().zip(y.iter()) {
                ensure_eq!(d2, d1, "c11/dwarf-unit/section-differs", "{}", n1);
            }
            cx.nt();
        }
        (Err(x), Err(y)) => ensure_eq!(y, x, "c11/dwarf-unit/error-differs"),
        _ => fail!("c11/dwarf-unit/outcome-differs", "Dwarf: {:?} DwarfUnit: {:?}", a.as_ref().map(|_| ()), b.as_ref().map(|_| ())),
    }
    Ok(())
}

/// The writer's section set: each section is reachable under its own id and no other (`get`, `get_mut`, `for_each`,
/// `for_each_mut`), and the sections gimli does not write are absent.
fn check_sections_plumbing() -> R {
    use crate::{ensure, ensure_eq, fail};
    use gimli::write::{self as w, Writer};
    use gimli::SectionId as S;
    const IDS: [S; 11] = [S::DebugAbbrev, S::DebugInfo, S::DebugLine, S::DebugLineStr, S::DebugRanges, S::DebugRngLists, S::DebugLoc, S::DebugLocLists, S::DebugStr, S::DebugFrame, S::EhFrame];
    let mut s = w::Sections::new(w::EndianVec::new(gimli::LittleEndian));
    for (k, id) in IDS.iter().enumerate() {
        let Some(sec) = s.get_mut(*id) else { fail!("c11/sections/get_mut-missing", "{:?}", id) };
        sec.write_u8(k as u8 + 1).map_err(|e| Failure { sig: "c11/sections/write".into(), detail: format!("{e:?}") })?;
    }
    for (k, id) in IDS.iter().enumerate() {
        let Some(sec) = s.get(*id) else { fail!("c11/sections/get-missing", "{:?}", id) };
        ensure_eq!(sec.slice(), &[k as u8 + 1][..], "c11/sections/get", "{:?}", id);
    }
    for id in [S::DebugAddr, S::DebugAranges, S::DebugStrOffsets, S::DebugTypes, S::DebugMacro, S::DebugNames, S::EhFrameHdr] {
        ensure!(s.get(id).is_none(), "c11/sections/get-phantom", "{:?}", id);
    }
    let mut seen: Vec<S> = Vec::new();
    s.for_each(|id, data| -> Result<(), Failure> {
        let k = IDS.iter().position(|x| *x == id).ok_or_else(|| Failure { sig: "c11/sections/for_each-unknown".into(), detail: format!("{:?}", id) })?;
        if data.slice() != [k as u8 + 1] {
            return Err(Failure { sig: "c11/sections/for_each".into(), detail: format!("{:?} holds {:?}", id, data.slice()) });
        }
        seen.push(id);
        Ok(())
    })?;
    ensure_eq!(seen.len(), IDS.len(), "c11/sections/for_each-count");
    let mut seen2 = 0usize;
    s.for_each_mut(|id, data| -> Result<(), Failure> {
        let k = IDS.iter().position(|x| *x == id).ok_or_else(|| Failure { sig: "c11/sections/for_each_mut-unknown".into(), detail: format!("{:?}", id) })?;
        if data.slice() != [k as u8 + 1] {
            return Err(Failure { sig: "c11/sections/for_each_mut".into(), detail: format!("{:?} holds {:?}", id, data.slice()) });
        }
        seen2 += 1;
        Ok(())
    })?;
    ensure_eq!(seen2, IDS.len(), "c11/sections/for_each_mut-count");
    Ok(())
}

impl Prop for C11 {
    fn id(&self) -> &'static str {
        "C11"
    }
    fn rule(&self) -> &'static str {
        "generated unit tables: 1-4 units (versions 2-5 x 32/64-bit x address size 4/8, one byte order per section set), trees of 1-19 entries with generated parents (occasionally a wide unit of 28-71 entries, most of them children of the root), base-type entries anywhere among the root's children, ids reserved early and added later, ids reserved and never added (negative case), sibling flags on/off, 0-6 attributes per entry over every write::AttributeValue variant with boundary payloads (block lengths around 127/128, LEB128 size steps, implicit constants around the SLEB/ULEB size difference, duplicate strings in .debug_str/.debug_line_str, enum wrappers, file indices into a line program, expressions incl. nested entry values and, in attributes and in location lists, the entry-referencing operations call4 / call_ref / implicit_pointer / GNU_variable_value / GNU_parameter_ref to entries of any unit), temporary children (with a subtree) added before a generated entry and removed again with delete_child, in-unit references forward and backward, cross-unit references in both directions, range and location lists valid for the unit's encoding. Oracle: the model itself: the output is read back with gimli::read and compared by meaning: same tags, nesting, attribute names in order, reference targets by identity marker, strings by content, lists by resolved ranges, expressions by decoded operations, sibling pointers designate the next sibling; unencodable requests must be refused. The writer's own offset-prediction debug assertions fire as panics in the dev profile. Non-trivial = >=2 units with a cross-unit and a forward in-unit reference and a variable-size attribute; distinct by choice string. Later additions: a relocatable-object mode (symbolic addresses); file tables with embedded source read back; DwarfUnit against Dwarf with one unit (byte-identical sections); the accessors of the writing interface on the built structure and edits that cancel out; location lists under every list-valued attribute name; empty expressions in list entries. Round-8 additions: the sibling pointer equals the position found by walking the subtree; version 5 units with a version 4 line program (file indices follow the program's version)."
    }
    fn assumptions(&self) -> Vec<&'static str> {
        vec![
            "Data4/Data8 are not paired with attribute names that DWARF 2/3 reads as section offsets (the reading side is then ambiguous by the standard)",
            "strings contain no NUL byte; expressions use only operations whose entry references are resolvable where they are placed",
            "root children that are base types are emitted first (documented writer behaviour): the model applies the same stable partition",
        ]
    }
    fn max_len(&self) -> usize {
        1200
    }
    fn cases(&self, tier: Tier, dev: bool) -> u64 {
        match (tier, dev) {
            (Tier::Quick, false) => 40_000,
            (Tier::Quick, true) => 6_000,
            (Tier::Thorough, false) => 2_000_000,
            (Tier::Thorough, true) => 200_000,
        }
    }
    fn run_case(&self, ch: &mut Choices, cx: &mut Ctx) -> R {
        if ch.chance(2) {
            cx.label("writer section set");
            return check_sections_plumbing();
        }
        if ch.chance(8) {
            return check_dwarf_unit(ch, cx);
        }
        if ch.chance(12) {
            // a relocatable object: the unit base (and every other address) is a symbol plus addend
            return crate::c16::check_symbolic(ch, cx, "c11/symbolic");
        }
        let (m, expect) = gen_wdwarf(ch, cx);
        cx.sample_with(|| {
            format!(
                "{} expect {:?}: {}",
                if m.big { "BE" } else { "LE" },
                expect,
                m.units.iter().map(|u| format!("[v{} {} addr{} entries {:?} ranges {:?} locs {} files {:?}]", u.version, if u.format64 { "dwarf64" } else { "dwarf32" }, u.address_size, u.entries.iter().map(|e| (e.parent, e.tag, e.sibling, e.reserved_early, e.never_added, e.attrs.iter().map(|a| format!("{:#x}={:?}", a.0, a.1)).collect::<Vec<_>>())).collect::<Vec<_>>(), u.ranges, u.locs.len(), u.files.as_ref().map(|f| f.len()))).collect::<Vec<_>>().join(" ")
            )
        });
        check_written(&m, &expect, cx, "c11")
    }
}
