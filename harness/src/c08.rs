//! C08 — range and location lists resolve to the standard's address ranges.
use crate::core::*;
use crate::dieasm::*;
use crate::enc::{mask, Cfg, W};
use crate::{ensure, ensure_eq, fail};
use gimli::{DebugAddr, DebugAddrBase, DebugLoc, DebugLocLists, DebugRanges, DebugRngLists, EndianSlice, LocationLists, LocationListsOffset, RangeLists, RangeListsOffset, RunTimeEndian};

pub struct C08;

type Rdr<'a> = EndianSlice<'a, RunTimeEndian>;

// ---------------------------------------------------------------------------
// List model (DESIGN appendix A.4)
// ---------------------------------------------------------------------------

#[derive(Clone, Debug, PartialEq)]
pub enum LE {
    BaseAddress(u64),
    BaseAddressx(u64),
    StartxEndx(u64, u64),
    StartxLength(u64, u64),
    OffsetPair(u64, u64),
    DefaultLocation,
    StartEnd(u64, u64),
    StartLength(u64, u64),
    /// legacy (.debug_ranges / .debug_loc) address-or-offset pair
    LegacyPair(u64, u64),
    LegacyBase(u64),
}

#[derive(Clone, Copy, PartialEq, Debug)]
pub enum ListFmt {
    /// v<=4 .debug_ranges / .debug_loc pairs
    Legacy,
    /// v5 DW_RLE_* / DW_LLE_*
    V5,
    /// GNU split DWARF: DW_LLE_* kinds in .debug_loc with 2-byte expression length and 4-byte startx_length length
    GnuDwoLoc,
}

/// Encode a list (with terminator). `loc`: entries carry expression data.
pub fn encode_list(entries: &[(LE, Vec<u8>)], fmt: ListFmt, loc: bool, cfg: &Cfg, w: &mut W) {
    let a = cfg.address_size;
    let data = |w: &mut W, d: &Vec<u8>| {
        if !loc {
            return;
        }
        match fmt {
            ListFmt::V5 => {
                w.uleb(d.len() as u64).bytes(d);
            }
            _ => {
                w.u16(d.len() as u16).bytes(d);
            }
        }
    };
    for (e, d) in entries {
        match fmt {
            ListFmt::Legacy => match e {
                LE::LegacyPair(b, en) => {
                    w.uint(*b, a).uint(*en, a);
                    data(w, d);
                }
                LE::LegacyBase(b) => {
                    w.uint(mask(a), a).uint(*b, a);
                }
                _ => {}
            },
            _ => {
                // kind numbers differ between RLE and LLE from 5 on
                let k = |rle: u8, lle: u8| if loc { lle } else { rle };
                match e {
                    LE::BaseAddressx(i) => {
                        w.u8(1).uleb(*i);
                    }
                    LE::StartxEndx(b, en) => {
                        w.u8(2).uleb(*b).uleb(*en);
                        data(w, d);
                    }
                    LE::StartxLength(b, l) => {
                        w.u8(3).uleb(*b);
                        if fmt == ListFmt::GnuDwoLoc {
                            w.u32(*l as u32);
                        } else {
                            w.uleb(*l);
                        }
                        data(w, d);
                    }
                    LE::OffsetPair(b, en) => {
                        w.u8(4).uleb(*b).uleb(*en);
                        data(w, d);
                    }
                    LE::DefaultLocation => {
                        w.u8(5);
                        data(w, d);
                    }
                    LE::BaseAddress(b) => {
                        w.u8(k(5, 6)).uint(*b, a);
                    }
                    LE::StartEnd(b, en) => {
                        w.u8(k(6, 7)).uint(*b, a).uint(*en, a);
                        data(w, d);
                    }
                    LE::StartLength(b, l) => {
                        w.u8(k(7, 8)).uint(*b, a).uleb(*l);
                        data(w, d);
                    }
                    _ => {}
                }
            }
        }
    }
    match fmt {
        ListFmt::Legacy => {
            w.uint(0, a).uint(0, a);
        }
        _ => {
            w.u8(0);
        }
    }
}

#[derive(Clone, Debug, PartialEq)]
pub enum Resolved {
    /// (begin, end, data)
    Ok(Vec<(u64, u64, Vec<u8>)>),
    /// ranges before an address-table lookup failed
    ErrAfter(Vec<(u64, u64, Vec<u8>)>),
}

/// Resolve a list to the ranges the standard defines (plus the documented gimli filters).
pub fn resolve(entries: &[(LE, Vec<u8>)], base0: u64, addr_size: u8, addrs: &[u64]) -> Resolved {
    let m = mask(addr_size);
    let tomb = m - 1;
    let mut base = base0;
    let mut out = Vec::new();
    let get = |i: u64| -> Option<u64> { addrs.get(usize::try_from(i).ok()?).copied() };
    for (e, d) in entries {
        let r: Option<(u64, u64)> = match e {
            LE::BaseAddress(b) | LE::LegacyBase(b) => {
                base = *b & m;
                None
            }
            LE::BaseAddressx(i) => match get(*i) {
                Some(v) => {
                    base = v;
                    None
                }
                None => return Resolved::ErrAfter(out),
            },
            LE::StartxEndx(b, en) => match (get(*b), get(*en)) {
                (Some(b), Some(en)) => Some((b, en)),
                _ => return Resolved::ErrAfter(out),
            },
            LE::StartxLength(b, l) => match get(*b) {
                Some(b) => Some((b, b.wrapping_add(*l) & m)),
                None => return Resolved::ErrAfter(out),
            },
            LE::OffsetPair(b, en) | LE::LegacyPair(b, en) => {
                if base >= tomb {
                    None
                } else {
                    Some((base.wrapping_add(*b) & m, base.wrapping_add(*en) & m))
                }
            }
            LE::DefaultLocation => Some((0, u64::MAX)),
            LE::StartEnd(b, en) => Some((*b & m, *en & m)),
            LE::StartLength(b, l) => Some((*b & m, (*b & m).wrapping_add(*l) & m)),
        };
        if let Some((b, en)) = r {
            if b >= tomb || b >= en {
                continue;
            }
            out.push((b, en, d.clone()));
        }
    }
    Resolved::Ok(out)
}

fn canon_le(e: &LE, d: &[u8], loc: bool, a: u8) -> String {
    let m = mask(a);
    let data = if loc { format!(" {:02x?}", d) } else { String::new() };
    match e {
        LE::BaseAddress(b) | LE::LegacyBase(b) => format!("BaseAddress({})", b & m),
        LE::BaseAddressx(i) => format!("BaseAddressx({})", i),
        LE::StartxEndx(b, en) => format!("StartxEndx({},{}){}", b, en, data),
        LE::StartxLength(b, l) => format!("StartxLength({},{}){}", b, l, data),
        LE::OffsetPair(b, en) => format!("OffsetPair({},{}){}", b, en, data),
        LE::DefaultLocation => format!("DefaultLocation{}", data),
        LE::StartEnd(b, en) => format!("StartEnd({},{}){}", b & m, en & m, data),
        LE::StartLength(b, l) => format!("StartLength({},{}){}", b & m, l, data),
        LE::LegacyPair(b, en) => format!("AddressOrOffsetPair({},{}){}", b & m, en & m, data),
    }
}

fn canon_raw_rng(e: &gimli::RawRngListEntry<usize>) -> String {
    use gimli::RawRngListEntry as E;
    match e {
        E::AddressOrOffsetPair { begin, end } => format!("AddressOrOffsetPair({},{})", begin, end),
        E::BaseAddress { addr } => format!("BaseAddress({})", addr),
        E::BaseAddressx { addr } => format!("BaseAddressx({})", addr.0),
        E::StartxEndx { begin, end } => format!("StartxEndx({},{})", begin.0, end.0),
        E::StartxLength { begin, length } => format!("StartxLength({},{})", begin.0, length),
        E::OffsetPair { begin, end } => format!("OffsetPair({},{})", begin, end),
        E::StartEnd { begin, end } => format!("StartEnd({},{})", begin, end),
        E::StartLength { begin, length } => format!("StartLength({},{})", begin, length),
    }
}

fn canon_raw_loc(e: &gimli::RawLocListEntry<Rdr>) -> String {
    use gimli::RawLocListEntry as E;
    match e {
        E::AddressOrOffsetPair { begin, end, data } => format!("AddressOrOffsetPair({},{}) {:02x?}", begin, end, data.0.slice()),
        E::BaseAddress { addr } => format!("BaseAddress({})", addr),
        E::BaseAddressx { addr } => format!("BaseAddressx({})", addr.0),
        E::StartxEndx { begin, end, data } => format!("StartxEndx({},{}) {:02x?}", begin.0, end.0, data.0.slice()),
        E::StartxLength { begin, length, data } => format!("StartxLength({},{}) {:02x?}", begin.0, length, data.0.slice()),
        E::OffsetPair { begin, end, data } => format!("OffsetPair({},{}) {:02x?}", begin, end, data.0.slice()),
        E::DefaultLocation { data } => format!("DefaultLocation {:02x?}", data.0.slice()),
        E::StartEnd { begin, end, data } => format!("StartEnd({},{}) {:02x?}", begin, end, data.0.slice()),
        E::StartLength { begin, length, data } => format!("StartLength({},{}) {:02x?}", begin, length, data.0.slice()),
    }
}

// ---------------------------------------------------------------------------
// generation
// ---------------------------------------------------------------------------

fn gen_addr(ch: &mut Choices, a: u8) -> u64 {
    let m = mask(a);
    match ch.below(10) {
        0 => 0,
        1 => 1,
        2 => m,
        3 => m - 1,
        4 => m - 2,
        5 => m / 2,
        6 => ch.biased(8 * a as u32),
        _ => (0x1000 + ch.below(0x100) as u64 * 0x10) & m,
    }
}

fn gen_entries(ch: &mut Choices, fmt: ListFmt, loc: bool, a: u8, naddrs: usize) -> Vec<(LE, Vec<u8>)> {
    let n = ch.count(12);
    let mut v = Vec::new();
    let m = mask(a);
    for _ in 0..n {
        let idx = |ch: &mut Choices| -> u64 {
            if ch.chance(16) {
                naddrs as u64 + ch.below(3) as u64
            } else {
                ch.below(naddrs.max(1)) as u64
            }
        };
        let off = |ch: &mut Choices| -> u64 {
            match ch.below(6) {
                0 => 0,
                1 => ch.biased(64),
                2 => m,
                _ => ch.below(0x400) as u64,
            }
        };
        let e = match fmt {
            ListFmt::Legacy => {
                if ch.chance(40) {
                    LE::LegacyBase(gen_addr(ch, a))
                } else {
                    let b = off(ch) & m;
                    let e = if ch.chance(200) { b.wrapping_add(1 + ch.below(64) as u64) & m } else { off(ch) & m };
                    // (0,0) would terminate the list and (max, x) is a base selection: the model treats them as such,
                    // so generate them only through the dedicated entries
                    if (b == 0 && e == 0) || b == m {
                        LE::LegacyPair(1, 2)
                    } else {
                        LE::LegacyPair(b, e)
                    }
                }
            }
            _ => match ch.below(if loc { 9 } else { 8 }) {
                0 => LE::BaseAddress(gen_addr(ch, a)),
                1 => LE::BaseAddressx(idx(ch)),
                2 => LE::StartxEndx(idx(ch), idx(ch)),
                3 => LE::StartxLength(idx(ch), if fmt == ListFmt::GnuDwoLoc { ch.biased(32) } else { off(ch) }),
                4 | 5 => {
                    let b = off(ch);
                    LE::OffsetPair(b, if ch.chance(200) { b.wrapping_add(1 + ch.below(64) as u64) } else { off(ch) })
                }
                6 => {
                    let b = gen_addr(ch, a);
                    LE::StartEnd(b, if ch.chance(160) { b.wrapping_add(1 + ch.below(64) as u64) & m } else { gen_addr(ch, a) })
                }
                7 => LE::StartLength(gen_addr(ch, a), off(ch)),
                _ => LE::DefaultLocation,
            },
        };
        let d = if loc {
            let k = ch.below(4);
            ch.bytes(k)
        } else {
            Vec::new()
        };
        v.push((e, d));
    }
    v
}

pub struct ListCase {
    pub cfg: Cfg,
    pub fmt_rng: ListFmt,
    pub fmt_loc: ListFmt,
    pub addrs: Vec<u64>,
    pub addr_base: usize,
    pub rng: Vec<Vec<(LE, Vec<u8>)>>,
    pub loc: Vec<Vec<(LE, Vec<u8>)>>,
    pub base: u64,
    pub pad: usize,
    /// version 5 unit of a .dwo file without DW_AT_rnglists_base / DW_AT_loclists_base: the bases default to the
    /// position after the first list header
    pub implicit_bases: bool,
}

struct BuiltLists {
    ranges: Vec<u8>,   // .debug_ranges or .debug_rnglists
    locs: Vec<u8>,     // .debug_loc or .debug_loclists
    addr: Vec<u8>,
    rng_offsets: Vec<usize>,
    loc_offsets: Vec<usize>,
    rng_base: usize,
    loc_base: usize,
}

fn build_lists(c: &ListCase) -> BuiltLists {
    let cfg = &c.cfg;
    let mut out = BuiltLists { ranges: vec![], locs: vec![], addr: vec![], rng_offsets: vec![], loc_offsets: vec![], rng_base: 0, loc_base: 0 };
    // .debug_addr: header then table; addr_base points at the table
    {
        let mut w = W::new(cfg.big);
        for _ in 0..c.addr_base {
            w.u8(0xdd);
        }
        for a in &c.addrs {
            w.uint(*a, cfg.address_size);
        }
        out.addr = w.buf;
    }
    for (loc, lists, fmt) in [(false, &c.rng, c.fmt_rng), (true, &c.loc, c.fmt_loc)] {
        let mut w = W::new(cfg.big);
        let mut offsets = Vec::new();
        let mut base = 0usize;
        if fmt == ListFmt::V5 {
            // header + offset table
            let tok = w.begin_length(cfg.format64);
            w.u16(5).u8(cfg.address_size).u8(0).u32(lists.len() as u32);
            base = w.len();
            let table_at = w.len();
            for _ in lists.iter() {
                w.word(0, cfg.format64);
            }
            for _ in 0..c.pad {
                w.u8(0xee);
            }
            for (i, l) in lists.iter().enumerate() {
                offsets.push(w.len());
                let rel = (w.len() - base) as u64;
                w.patch(table_at + i * cfg.word() as usize, rel, cfg.word());
                encode_list(l, fmt, loc, cfg, &mut w);
            }
            w.end_length(tok);
        } else {
            for _ in 0..c.pad {
                w.u8(0xee);
            }
            for l in lists.iter() {
                offsets.push(w.len());
                encode_list(l, fmt, loc, cfg, &mut w);
            }
        }
        if loc {
            out.locs = w.buf;
            out.loc_offsets = offsets;
            out.loc_base = base;
        } else {
            out.ranges = w.buf;
            out.rng_offsets = offsets;
            out.rng_base = base;
        }
    }
    out
}

fn gen_case(ch: &mut Choices) -> ListCase {
    let cfg = Cfg::decode(ch);
    let dwo_loc = cfg.version <= 4 && ch.chance(60);
    let naddrs = ch.count(6);
    let addrs: Vec<u64> = (0..naddrs).map(|_| gen_addr(ch, cfg.address_size)).collect();
    let fmt_rng = if cfg.version >= 5 { ListFmt::V5 } else { ListFmt::Legacy };
    let fmt_loc = if cfg.version >= 5 {
        ListFmt::V5
    } else if dwo_loc {
        ListFmt::GnuDwoLoc
    } else {
        ListFmt::Legacy
    };
    let nr = 1 + ch.below(3);
    let nl = 1 + ch.below(3);
    let rng = (0..nr).map(|_| gen_entries(ch, fmt_rng, false, cfg.address_size, naddrs)).collect();
    let loc = (0..nl).map(|_| gen_entries(ch, fmt_loc, true, cfg.address_size, naddrs)).collect();
    ListCase { cfg, fmt_rng, fmt_loc, addrs, addr_base: ch.pick(&[0usize, 8, 16, 3]), rng, loc, base: gen_addr(ch, cfg.address_size), pad: ch.below(5), implicit_bases: cfg.version >= 5 && ch.chance(64) }
}

fn check_lists(c: &ListCase, cx: &mut Ctx) -> R {
    let cfg = c.cfg;
    let b = build_lists(c);
    let endian = cfg.endian();
    let enc = cfg.encoding();
    let empty: &[u8] = &[];
    let (dr, drl) = if c.fmt_rng == ListFmt::V5 { (DebugRanges::new(empty, endian), DebugRngLists::new(&b.ranges, endian)) } else { (DebugRanges::new(&b.ranges, endian), DebugRngLists::new(empty, endian)) };
    let (dl, dll) = if c.fmt_loc == ListFmt::V5 { (DebugLoc::new(empty, endian), DebugLocLists::new(&b.locs, endian)) } else { (DebugLoc::new(&b.locs, endian), DebugLocLists::new(empty, endian)) };
    let ranges = RangeLists::new(dr, drl);
    let locs = LocationLists::new(dl, dll);
    let da = DebugAddr::from(EndianSlice::new(&b.addr[..], endian));
    let ab = DebugAddrBase(c.addr_base);
    let a = cfg.address_size;

    // ---- range lists
    for (i, l) in c.rng.iter().enumerate() {
        let off = RangeListsOffset(b.rng_offsets[i]);
        // raw: every encoded entry, unchanged
        let mut raw = ranges.raw_ranges(off, enc).map_err(|e| Failure { sig: "c08/rng/raw-open".into(), detail: format!("{e:?}") })?;
        for (k, (e, d)) in l.iter().enumerate() {
            match raw.next() {
                Ok(Some(g)) => ensure_eq!(canon_raw_rng(&g), canon_le(e, d, false, a), "c08/rng/raw-entry", "list {} entry {}", i, k),
                other => fail!("c08/rng/raw-missing", "list {} entry {} ({:?}): {:?}", i, k, e, other.map(|o| o.map(|x| canon_raw_rng(&x)))),
            }
        }
        ensure!(matches!(raw.next(), Ok(None)), "c08/rng/raw-extra", "list {}", i);
        ensure!(matches!(raw.next(), Ok(None)), "c08/rng/raw-after-end", "list {}", i);
        crate::std_iter_agrees!(ranges.raw_ranges(off, enc).map_err(|e| Failure { sig: "c08/rng/raw-open".into(), detail: format!("{e:?}") })?, |g: &gimli::RawRngListEntry<usize>| canon_raw_rng(g), "c08/rng/raw-std-iterator");
        crate::std_iter_agrees!(ranges.ranges(off, enc, c.base & mask(a), &da, ab).map_err(|e| Failure { sig: "c08/rng/open".into(), detail: format!("{e:?}") })?, |r: &gimli::Range| format!("{:#x}..{:#x}", r.begin, r.end), "c08/rng/std-iterator");
        // cooked
        let want = resolve(l, c.base & mask(a), a, &c.addrs);
        let mut it = ranges.ranges(off, enc, c.base & mask(a), &da, ab).map_err(|e| Failure { sig: "c08/rng/open".into(), detail: format!("{e:?}") })?;
        let (wl, errs) = match &want {
            Resolved::Ok(v) => (v, false),
            Resolved::ErrAfter(v) => (v, true),
        };
        for (k, (wb, we, _)) in wl.iter().enumerate() {
            match it.next() {
                Ok(Some(r)) => ensure_eq!((r.begin, r.end), (*wb, *we), "c08/rng/range", "list {} range {} of {:?} base {:#x} addrs {:x?}", i, k, l, c.base, c.addrs),
                other => fail!("c08/rng/missing-range", "list {} range {} [{:#x},{:#x}): {:?} (list {:?} base {:#x})", i, k, wb, we, other, l, c.base),
            }
        }
        match (it.next(), errs) {
            (Ok(None), false) => {}
            (Err(_), true) => {}
            (other, _) => fail!("c08/rng/end", "list {} after {} ranges: {:?}, model expects {}", i, wl.len(), other, if errs { "an address-table error" } else { "the end" }),
        }
        if errs {
            cx.label("addr-index-out-of-range");
        }
    }
    // offset table
    if c.fmt_rng == ListFmt::V5 {
        for i in 0..c.rng.len() {
            let got = ranges.get_offset(enc, gimli::DebugRngListsBase(b.rng_base), gimli::DebugRngListsIndex(i)).map(|o| o.0);
            ensure_eq!(got.ok(), Some(b.rng_offsets[i]), "c08/rng/get_offset", "index {}", i);
        }
    }
    // ---- location lists
    for (i, l) in c.loc.iter().enumerate() {
        let off = LocationListsOffset(b.loc_offsets[i]);
        let dwo = c.fmt_loc == ListFmt::GnuDwoLoc;
        let mut raw = if dwo { locs.raw_locations_dwo(off, enc) } else { locs.raw_locations(off, enc) }.map_err(|e| Failure { sig: "c08/loc/raw-open".into(), detail: format!("{e:?}") })?;
        for (k, (e, d)) in l.iter().enumerate() {
            match raw.next() {
                Ok(Some(g)) => {
                    ensure_eq!(canon_raw_loc(&g), canon_le(e, d, true, a), "c08/loc/raw-entry", "list {} entry {}", i, k);
                }
                other => fail!("c08/loc/raw-missing", "list {} entry {} ({:?}): {:?}", i, k, e, other.map(|o| o.map(|x| canon_raw_loc(&x)))),
            }
        }
        ensure!(matches!(raw.next(), Ok(None)), "c08/loc/raw-extra", "list {}", i);
        ensure!(matches!(raw.next(), Ok(None)), "c08/loc/raw-after-end", "list {}", i);
        crate::std_iter_agrees!(if dwo { locs.raw_locations_dwo(off, enc) } else { locs.raw_locations(off, enc) }.map_err(|e| Failure { sig: "c08/loc/raw-open".into(), detail: format!("{e:?}") })?, |g: &gimli::RawLocListEntry<Rdr>| canon_raw_loc(g), "c08/loc/raw-std-iterator");
        crate::std_iter_agrees!(if dwo { locs.locations_dwo(off, enc, c.base & mask(a), &da, ab) } else { locs.locations(off, enc, c.base & mask(a), &da, ab) }.map_err(|e| Failure { sig: "c08/loc/open".into(), detail: format!("{e:?}") })?, |l: &gimli::LocationListEntry<Rdr>| format!("{:#x}..{:#x} {:02x?}", l.range.begin, l.range.end, l.data.0.slice()), "c08/loc/std-iterator");
        let want = resolve(l, c.base & mask(a), a, &c.addrs);
        let mut it = if dwo { locs.locations_dwo(off, enc, c.base & mask(a), &da, ab) } else { locs.locations(off, enc, c.base & mask(a), &da, ab) }.map_err(|e| Failure { sig: "c08/loc/open".into(), detail: format!("{e:?}") })?;
        let (wl, errs) = match &want {
            Resolved::Ok(v) => (v, false),
            Resolved::ErrAfter(v) => (v, true),
        };
        for (k, (wb, we, wd)) in wl.iter().enumerate() {
            match it.next() {
                Ok(Some(r)) => {
                    ensure_eq!((r.range.begin, r.range.end), (*wb, *we), "c08/loc/range", "list {} entry {} of {:?} base {:#x}", i, k, l, c.base);
                    ensure_eq!(r.data.0.slice(), &wd[..], "c08/loc/data", "list {} entry {}", i, k);
                    let p = r.data.0.slice().as_ptr() as usize;
                    ensure!(wd.is_empty() || (p >= b.locs.as_ptr() as usize && p + wd.len() <= b.locs.as_ptr() as usize + b.locs.len()), "c08/loc/data-not-a-view", "");
                }
                other => fail!("c08/loc/missing-entry", "list {} entry {} [{:#x},{:#x}): {:?}", i, k, wb, we, other.map(|o| o.map(|x| x.range))),
            }
        }
        match (it.next(), errs) {
            (Ok(None), false) => {}
            (Err(_), true) => {}
            (other, _) => fail!("c08/loc/end", "list {} after {} entries: {:?}", i, wl.len(), other.map(|o| o.map(|x| x.range))),
        }
    }
    if c.fmt_loc == ListFmt::V5 {
        for i in 0..c.loc.len() {
            let got = locs.get_offset(enc, gimli::DebugLocListsBase(b.loc_base), gimli::DebugLocListsIndex(i)).map(|o| o.0);
            ensure_eq!(got.ok(), Some(b.loc_offsets[i]), "c08/loc/get_offset", "index {}", i);
        }
    }

    // ---- Dwarf-level helpers: a unit whose DIEs refer to the lists
    check_dwarf_level(c, &b, cx)?;

    // classes
    let all: Vec<&(LE, Vec<u8>)> = c.rng.iter().chain(c.loc.iter()).flatten().collect();
    let base_changes = all.iter().filter(|e| matches!(e.0, LE::BaseAddress(_) | LE::BaseAddressx(_) | LE::LegacyBase(_))).count();
    let mut skipped = false;
    for l in c.rng.iter().chain(c.loc.iter()) {
        if let Resolved::Ok(v) = resolve(l, c.base & mask(a), a, &c.addrs) {
            let emitting = l.iter().filter(|e| !matches!(e.0, LE::BaseAddress(_) | LE::BaseAddressx(_) | LE::LegacyBase(_))).count();
            if v.len() < emitting {
                skipped = true;
            }
        }
    }
    if all.len() >= 3 && base_changes >= 1 && skipped {
        cx.nt();
    }
    cx.label(match (c.fmt_rng, c.fmt_loc) {
        (ListFmt::V5, _) => "v5-rle/lle",
        (_, ListFmt::GnuDwoLoc) => "legacy-ranges+gnu-dwo-loc",
        _ => "legacy-pairs",
    });
    for e in all {
        cx.label(match e.0 {
            LE::BaseAddress(_) => "kind:base_address",
            LE::BaseAddressx(_) => "kind:base_addressx",
            LE::StartxEndx(..) => "kind:startx_endx",
            LE::StartxLength(..) => "kind:startx_length",
            LE::OffsetPair(..) => "kind:offset_pair",
            LE::DefaultLocation => "kind:default_location",
            LE::StartEnd(..) => "kind:start_end",
            LE::StartLength(..) => "kind:start_length",
            LE::LegacyPair(..) => "kind:legacy_pair",
            LE::LegacyBase(_) => "kind:legacy_base",
        });
    }
    Ok(())
}

fn check_dwarf_level(c: &ListCase, b: &BuiltLists, cx: &mut Ctx) -> R {
    let cfg = c.cfg;
    let a = cfg.address_size;
    let m = mask(a);
    let v5 = cfg.version >= 5;
    // root: low_pc (addr), addr_base, rnglists_base, loclists_base; children: one per list + low/high pc combos
    let mut abbrevs: Vec<Abbrev> = Vec::new();
    // the unit base: DW_AT_low_pc as an address, or (when the case has an address table) as an index into it, placed
    // BEFORE the DW_AT_addr_base attribute it depends on (attribute order must not matter)
    let indexed_low_pc = !c.addrs.is_empty() && c.pad % 2 == 1;
    let unit_base = if indexed_low_pc { c.addrs[0] & m } else { c.base & m };
    let mut root_attrs: Vec<(u16, u16, i64)> = vec![(0x11, if indexed_low_pc { if v5 { F_ADDRX } else { F_GNU_ADDR_INDEX } } else { F_ADDR }, 0)];
    let mut root_vals: Vec<AV> = vec![AV::U(if indexed_low_pc { 0 } else { c.base & m })];
    if indexed_low_pc {
        cx.label("unit low_pc through the address table, before DW_AT_addr_base");
    }
    {
        // DW_AT_addr_base, or the GNU extension attribute before version 5 (data4/8 carry section offsets in v2/3)
        let f = if cfg.version <= 3 { if cfg.format64 { F_DATA8 } else { F_DATA4 } } else { F_SEC_OFFSET };
        let _ = f;
        root_attrs.push((if v5 { 0x73 } else { 0x2133 }, F_SEC_OFFSET, 0));
        root_vals.push(AV::U(c.addr_base as u64));
    }
    if v5 && !c.implicit_bases {
        root_attrs.push((0x74, F_SEC_OFFSET, 0));
        root_vals.push(AV::U(b.rng_base as u64));
        root_attrs.push((0x8c, F_SEC_OFFSET, 0));
        root_vals.push(AV::U(b.loc_base as u64));
    }
    // unit-level DW_AT_ranges -> list 0
    let legacy_form = if cfg.version <= 3 {
        if cfg.format64 {
            F_DATA8
        } else {
            F_DATA4
        }
    } else {
        F_SEC_OFFSET
    };
    root_attrs.push((0x55, legacy_form, 0));
    root_vals.push(AV::U(b.rng_offsets[0] as u64));
    abbrevs.push(Abbrev { code: 1, tag: 0x11, children: true, attrs: root_attrs });
    let mut children = Vec::new();
    let mut id = 1;
    // ranges children
    for i in 0..c.rng.len() {
        let (form, val) = if v5 && i % 2 == 1 { (F_RNGLISTX, AV::U(i as u64)) } else { (legacy_form, AV::U(b.rng_offsets[i] as u64)) };
        abbrevs.push(Abbrev { code: abbrevs.len() as u64 + 1, tag: 0x2e, children: false, attrs: vec![(0x55, form, 0)] });
        children.push(DieSpec { id, abbrev: abbrevs.len() - 1, vals: vec![val], children: vec![] });
        id += 1;
    }
    let first_loc_child = children.len();
    for i in 0..c.loc.len() {
        let (form, val) = if v5 && i % 2 == 1 { (F_LOCLISTX, AV::U(i as u64)) } else { (legacy_form, AV::U(b.loc_offsets[i] as u64)) };
        abbrevs.push(Abbrev { code: abbrevs.len() as u64 + 1, tag: 0x34, children: false, attrs: vec![(0x02, form, 0)] });
        children.push(DieSpec { id, abbrev: abbrevs.len() - 1, vals: vec![val], children: vec![] });
        id += 1;
    }
    // low/high pc combinations
    let first_pc_child = children.len();
    let low = (c.base & m) / 2;
    let combos: Vec<(Vec<(u16, u16, i64)>, Vec<AV>, Option<(u64, u64)>)> = vec![
        (vec![(0x11, F_ADDR, 0), (0x12, F_ADDR, 0)], vec![AV::U(low), AV::U(low.wrapping_add(0x20) & m)], Some((low, low.wrapping_add(0x20) & m))),
        (vec![(0x11, F_ADDR, 0), (0x12, F_UDATA, 0)], vec![AV::U(low), AV::U(0x30)], Some((low, low.wrapping_add(0x30) & m))),
        (vec![(0x11, F_ADDR, 0), (0x12, F_DATA1, 0)], vec![AV::U(low), AV::U(0x7f)], Some((low, low.wrapping_add(0x7f) & m))),
        (vec![(0x12, F_DATA2, 0), (0x11, F_ADDR, 0)], vec![AV::U(0x100), AV::U(low)], Some((low, low.wrapping_add(0x100) & m))),
        (vec![(0x11, F_ADDR, 0)], vec![AV::U(low)], None),
        (vec![(0x12, F_UDATA, 0)], vec![AV::U(5)], None),
        (vec![(0x03, F_STRING, 0)], vec![AV::Bytes(b"x".to_vec())], None),
    ];
    for (attrs, vals, _) in &combos {
        abbrevs.push(Abbrev { code: abbrevs.len() as u64 + 1, tag: 0x0b, children: false, attrs: attrs.clone() });
        children.push(DieSpec { id, abbrev: abbrevs.len() - 1, vals: vals.clone(), children: vec![] });
        id += 1;
    }
    let unit = UnitSpec { cfg, kind: UnitKind::Compile, abbrevs, abbrev_group: 0, root: DieSpec { id: 0, abbrev: 0, vals: root_vals, children }, trailing_nulls: 0 };
    let built = build_info(std::slice::from_ref(&unit), false);
    let endian = cfg.endian();
    let empty: &[u8] = &[];
    let sect = |id: gimli::SectionId| -> Result<Rdr, gimli::Error> {
        use gimli::SectionId as S;
        Ok(EndianSlice::new(
            match id {
                S::DebugInfo => &built.info[..],
                S::DebugAbbrev => &built.abbrev[..],
                S::DebugAddr => &b.addr[..],
                S::DebugRanges if c.fmt_rng != ListFmt::V5 => &b.ranges[..],
                S::DebugRngLists if c.fmt_rng == ListFmt::V5 => &b.ranges[..],
                S::DebugLoc if c.fmt_loc != ListFmt::V5 => &b.locs[..],
                S::DebugLocLists if c.fmt_loc == ListFmt::V5 => &b.locs[..],
                _ => empty,
            },
            endian,
        ))
    };
    let mut dwarf = gimli::Dwarf::load(sect).map_err(|e| Failure { sig: "c08/dwarf/load".into(), detail: format!("{e:?}") })?;
    if c.fmt_loc == ListFmt::GnuDwoLoc || c.implicit_bases {
        dwarf.file_type = gimli::DwarfFileType::Dwo;
    }
    if c.implicit_bases {
        cx.label("v5 dwo unit with implicit list bases");
    }
    // everything below goes through a re-borrowed copy of the section set (`Dwarf::borrow`), which must be the same
    // file: same sections, same kind of file
    let dwarf_loaded = dwarf;
    #[allow(deprecated)]
    let dwarf = dwarf_loaded.borrow(|r| *r);
    ensure_eq!(dwarf.file_type, dwarf_loaded.file_type, "c08/dwarf/borrow/file_type");
    let header = dwarf.units().next().map_err(|e| Failure { sig: "c08/dwarf/units".into(), detail: format!("{e:?}") })?.ok_or_else(|| Failure { sig: "c08/dwarf/no-unit".into(), detail: String::new() })?;
    let mut unit_r = dwarf.unit(header).map_err(|e| Failure { sig: "c08/dwarf/unit".into(), detail: format!("{e:?}") })?;
    ensure_eq!(unit_r.low_pc, unit_base, "c08/dwarf/unit-low_pc");
    ensure_eq!(unit_r.addr_base.0, c.addr_base, "c08/dwarf/unit-addr_base");
    if v5 {
        ensure_eq!(unit_r.rnglists_base.0, b.rng_base, "c08/dwarf/unit-rnglists_base");
        ensure_eq!(unit_r.loclists_base.0, b.loc_base, "c08/dwarf/unit-loclists_base");
    }
    {
        // what a split unit takes over from its skeleton: the unit base address and the address table base, and before
        // version 5 the ranges base; a version 5 unit keeps its own list bases
        let mut sk = dwarf.unit(header).map_err(|e| Failure { sig: "c08/dwarf/unit".into(), detail: format!("{e:?}") })?;
        sk.low_pc = unit_base ^ 0x5a5a;
        sk.addr_base = gimli::DebugAddrBase(c.addr_base + 24);
        sk.rnglists_base = gimli::DebugRngListsBase(b.rng_base + 40);
        sk.loclists_base = gimli::DebugLocListsBase(b.loc_base + 56);
        let mut copy = dwarf.unit(header).map_err(|e| Failure { sig: "c08/dwarf/unit".into(), detail: format!("{e:?}") })?;
        copy.copy_relocated_attributes(&sk);
        ensure_eq!(copy.low_pc, sk.low_pc, "c08/dwarf/copy_relocated/low_pc");
        ensure_eq!(copy.addr_base.0, sk.addr_base.0, "c08/dwarf/copy_relocated/addr_base");
        ensure_eq!(copy.rnglists_base.0, if v5 { unit_r.rnglists_base.0 } else { sk.rnglists_base.0 }, "c08/dwarf/copy_relocated/rnglists_base", "version {}", cfg.version);
        ensure_eq!(copy.loclists_base.0, unit_r.loclists_base.0, "c08/dwarf/copy_relocated/loclists_base");
    }
    if dwarf.file_type == gimli::DwarfFileType::Dwo && cfg.version <= 4 {
        // in a pre-v5 .dwo the ranges base is not added by this unit (it has none): keep it zero
        unit_r.rnglists_base = gimli::DebugRngListsBase(0);
    }
    let addrs: &[u64] = if cfg.version >= 4 { &c.addrs } else { &c.addrs };
    let collect_ranges = |it: &mut gimli::RangeIter<Rdr>| -> (Vec<(u64, u64)>, bool) {
        let mut v = Vec::new();
        loop {
            match it.next() {
                Ok(Some(r)) => v.push((r.begin, r.end)),
                Ok(None) => return (v, false),
                Err(_) => return (v, true),
            }
            if v.len() > 64 {
                return (v, false);
            }
        }
    };
    // unit_ranges = list 0
    {
        let want = resolve(&c.rng[0], unit_base, a, addrs);
        let mut it = dwarf.unit_ranges(&unit_r).map_err(|e| Failure { sig: "c08/dwarf/unit_ranges".into(), detail: format!("{e:?}") })?;
        let (got, err) = collect_ranges(&mut it);
        let (wl, werr) = match &want {
            Resolved::Ok(v) => (v, false),
            Resolved::ErrAfter(v) => (v, true),
        };
        ensure_eq!(got, wl.iter().map(|x| (x.0, x.1)).collect::<Vec<_>>(), "c08/dwarf/unit_ranges-ranges", "list {:?}", c.rng[0]);
        ensure_eq!(err, werr, "c08/dwarf/unit_ranges-error");
    }
    // children
    let mut cur = unit_r.entries();
    cur.next_dfs().map_err(|e| Failure { sig: "c08/dwarf/dfs".into(), detail: format!("{e:?}") })?;
    let mut k = 0usize;
    while let Some(entry) = cur.next_dfs().map_err(|e| Failure { sig: "c08/dwarf/dfs".into(), detail: format!("{e:?}") })? {
        if k < first_loc_child {
            let want = resolve(&c.rng[k], unit_base, a, addrs);
            let attr = entry.attr_value(gimli::DW_AT_ranges).ok_or_else(|| Failure { sig: "c08/dwarf/attr".into(), detail: String::new() })?;
            let off = dwarf.attr_ranges_offset(&unit_r, attr.clone()).map_err(|e| Failure { sig: "c08/dwarf/attr_ranges_offset".into(), detail: format!("{e:?} for {:?}", attr) })?;
            ensure_eq!(off.map(|o| o.0), Some(b.rng_offsets[k]), "c08/dwarf/attr_ranges_offset-value", "child {} attr {}", k, canon_av(&attr));
            if let Some(off) = off {
                let direct = dwarf.ranges.raw_ranges(off, cfg.encoding());
                let via = dwarf.raw_ranges(&unit_r, off);
                match (direct, via) {
                    (Ok(mut d), Ok(mut v)) => {
                        for n in 0..64 {
                            let (x, y) = (d.next(), v.next());
                            ensure_eq!(format!("{:?}", y), format!("{:?}", x), "c08/dwarf/raw_ranges", "child {} raw entry #{}", k, n);
                            if !matches!(x, Ok(Some(_))) {
                                break;
                            }
                        }
                    }
                    (d, v) => ensure_eq!(v.is_ok(), d.is_ok(), "c08/dwarf/raw_ranges-open", "child {}", k),
                }
            }
            let mut it = dwarf.die_ranges(&unit_r, entry).map_err(|e| Failure { sig: "c08/dwarf/die_ranges".into(), detail: format!("{e:?}") })?;
            let (got, err) = collect_ranges(&mut it);
            let (wl, werr) = match &want {
                Resolved::Ok(v) => (v, false),
                Resolved::ErrAfter(v) => (v, true),
            };
            ensure_eq!(got, wl.iter().map(|x| (x.0, x.1)).collect::<Vec<_>>(), "c08/dwarf/die_ranges-list", "child {} list {:?}", k, c.rng[k]);
            ensure_eq!(err, werr, "c08/dwarf/die_ranges-error");
            cx.label("die_ranges:list");
        } else if k < first_pc_child {
            let li = k - first_loc_child;
            let want = resolve(&c.loc[li], unit_base, a, addrs);
            let attr = entry.attr_value(gimli::DW_AT_location).ok_or_else(|| Failure { sig: "c08/dwarf/attr".into(), detail: String::new() })?;
            // raw iteration through the Dwarf-level entry point = raw iteration of the list section in the format the
            // unit's version and file type call for (which check_lists has compared with the encoded entries)
            {
                let off = match dwarf.attr_locations_offset(&unit_r, attr.clone()) {
                    Ok(Some(o)) => o,
                    other => fail!("c08/dwarf/attr_locations_offset", "attr {}: {:?}", canon_av(&attr), other),
                };
                ensure_eq!(off.0, b.loc_offsets[li], "c08/dwarf/attr_locations_offset-value", "child {}", k);
                let enc = cfg.encoding();
                let direct = if c.fmt_loc == ListFmt::GnuDwoLoc { dwarf.locations.raw_locations_dwo(off, enc) } else { dwarf.locations.raw_locations(off, enc) };
                let via = dwarf.raw_locations(&unit_r, off);
                match (direct, via) {
                    (Ok(mut d), Ok(mut v)) => {
                        for n in 0..64 {
                            let (x, y) = (d.next(), v.next());
                            let (sx, sy) = (format!("{:?}", x), format!("{:?}", y));
                            // error values carry reader positions, which are the same buffer here
                            ensure_eq!(sy, sx, "c08/dwarf/raw_locations", "child {} raw entry #{}", k, n);
                            if !matches!(x, Ok(Some(_))) {
                                break;
                            }
                        }
                    }
                    (d, v) => ensure_eq!(v.is_ok(), d.is_ok(), "c08/dwarf/raw_locations-open", "child {}", k),
                }
            }
            let mut it = match dwarf.attr_locations(&unit_r, attr.clone()) {
                Ok(Some(it)) => it,
                other => fail!("c08/dwarf/attr_locations", "attr {}: {:?}", canon_av(&attr), other.map(|o| o.is_some())),
            };
            let (wl, werr) = match &want {
                Resolved::Ok(v) => (v, false),
                Resolved::ErrAfter(v) => (v, true),
            };
            for (j, (wb, we, wd)) in wl.iter().enumerate() {
                match it.next() {
                    Ok(Some(r)) => {
                        ensure_eq!((r.range.begin, r.range.end, r.data.0.slice()), (*wb, *we, &wd[..]), "c08/dwarf/attr_locations-entry", "child {} entry {}", k, j);
                    }
                    other => fail!("c08/dwarf/attr_locations-missing", "entry {}: {:?}", j, other.map(|o| o.map(|x| x.range))),
                }
            }
            match (it.next(), werr) {
                (Ok(None), false) | (Err(_), true) => {}
                (other, _) => fail!("c08/dwarf/attr_locations-end", "{:?}", other.map(|o| o.map(|x| x.range))),
            }
        } else {
            let (_, _, want) = &combos[k - first_pc_child];
            let mut it = dwarf.die_ranges(&unit_r, entry).map_err(|e| Failure { sig: "c08/dwarf/die_ranges-pc".into(), detail: format!("combo {}: {:?}", k - first_pc_child, e) })?;
            let (got, err) = collect_ranges(&mut it);
            ensure!(!err, "c08/dwarf/die_ranges-pc-error", "combo {}", k - first_pc_child);
            ensure_eq!(got, want.iter().cloned().collect::<Vec<_>>(), "c08/dwarf/die_ranges-pc-range", "combo {} low {:#x}", k - first_pc_child, low);
            cx.label("die_ranges:low/high_pc");
        }
        k += 1;
    }
    ensure_eq!(k, c.rng.len() + c.loc.len() + combos.len(), "c08/dwarf/children-seen");
    // the same questions asked through `UnitRef` (the unit paired with its file) give the same answers
    {
        let ur = unit_r.unit_ref(&dwarf);
        let rngs = |it: gimli::Result<Option<gimli::RngListIter<Rdr>>>| -> String {
            match it {
                Ok(Some(mut it)) => {
                    let mut out = Vec::new();
                    loop {
                        match it.next() {
                            Ok(Some(r)) => out.push(format!("{:#x}..{:#x}", r.begin, r.end)),
                            Ok(None) => break,
                            Err(e) => {
                                out.push(format!("error {:?}", e));
                                break;
                            }
                        }
                    }
                    format!("{:?}", out)
                }
                Ok(None) => "none".into(),
                Err(e) => format!("error {:?}", e),
            }
        };
        let locs = |it: gimli::Result<Option<gimli::LocListIter<Rdr>>>| -> String {
            match it {
                Ok(Some(mut it)) => {
                    let mut out = Vec::new();
                    loop {
                        match it.next() {
                            Ok(Some(l)) => out.push(format!("{:#x}..{:#x} {:02x?}", l.range.begin, l.range.end, l.data.0.slice())),
                            Ok(None) => break,
                            Err(e) => {
                                out.push(format!("error {:?}", e));
                                break;
                            }
                        }
                    }
                    format!("{:?}", out)
                }
                Ok(None) => "none".into(),
                Err(e) => format!("error {:?}", e),
            }
        };
        let rit = |it: gimli::Result<gimli::RangeIter<Rdr>>| -> String {
            match it {
                Ok(mut it) => {
                    let (v, e) = collect_ranges(&mut it);
                    format!("{:x?} err {}", v, e)
                }
                Err(e) => format!("error {:?}", e),
            }
        };
        ensure_eq!(rit(ur.unit_ranges()), rit(dwarf.unit_ranges(&unit_r)), "c08/unit_ref/unit_ranges");
        let mut cur = unit_r.entries();
        let mut n = 0;
        while let Ok(Some(entry)) = cur.next_dfs() {
            ensure_eq!(rit(ur.die_ranges(entry)), rit(dwarf.die_ranges(&unit_r, entry)), "c08/unit_ref/die_ranges", "entry #{}", n);
            for at in entry.attrs() {
                let v = at.value();
                ensure_eq!(rngs(ur.attr_ranges(v.clone())), rngs(dwarf.attr_ranges(&unit_r, v.clone())), "c08/unit_ref/attr_ranges", "entry #{} attribute {:#x}", n, at.name().0);
                ensure_eq!(locs(ur.attr_locations(v.clone())), locs(dwarf.attr_locations(&unit_r, v.clone())), "c08/unit_ref/attr_locations", "entry #{} attribute {:#x}", n, at.name().0);
                ensure_eq!(format!("{:?}", ur.attr_ranges_offset(v.clone())), format!("{:?}", dwarf.attr_ranges_offset(&unit_r, v.clone())), "c08/unit_ref/attr_ranges_offset", "entry #{}", n);
                ensure_eq!(format!("{:?}", ur.attr_locations_offset(v.clone())), format!("{:?}", dwarf.attr_locations_offset(&unit_r, v.clone())), "c08/unit_ref/attr_locations_offset", "entry #{}", n);
                ensure_eq!(format!("{:?}", ur.attr_address(v.clone())), format!("{:?}", dwarf.attr_address(&unit_r, v.clone())), "c08/unit_ref/attr_address", "entry #{}", n);
                if let gimli::AttributeValue::RangeListsRef(o) = v {
                    let o = dwarf.ranges_offset_from_raw(&unit_r, o);
                    ensure_eq!(rngs(ur.ranges(o).map(Some)), rngs(dwarf.ranges(&unit_r, o).map(Some)), "c08/unit_ref/ranges", "entry #{}", n);
                }
                if let gimli::AttributeValue::LocationListsRef(o) = v {
                    ensure_eq!(locs(ur.locations(o).map(Some)), locs(dwarf.locations(&unit_r, o).map(Some)), "c08/unit_ref/locations", "entry #{}", n);
                }
            }
            n += 1;
        }
    }
    // ranges_offset_from_raw: base added only for pre-v5 units in a dwo
    for ft in [gimli::DwarfFileType::Main, gimli::DwarfFileType::Dwo] {
        let mut d2 = gimli::Dwarf::load(sect).map_err(|e| Failure { sig: "c08/dwarf/load".into(), detail: format!("{e:?}") })?;
        d2.file_type = ft;
        let h2 = d2.units().next().map_err(|e| Failure { sig: "c08/dwarf/units".into(), detail: format!("{e:?}") })?.ok_or_else(|| Failure { sig: "c08/dwarf/no-unit".into(), detail: String::new() })?;
        let mut u2 = d2.unit(h2).map_err(|e| Failure { sig: "c08/dwarf/unit".into(), detail: format!("{e:?}") })?;
        u2.rnglists_base = gimli::DebugRngListsBase(0x40);
        let got = d2.ranges_offset_from_raw(&u2, gimli::RawRangeListsOffset(0x10)).0;
        let want = if ft == gimli::DwarfFileType::Dwo && cfg.version < 5 { 0x50 } else { 0x10 };
        ensure_eq!(got, want, "c08/dwarf/ranges_offset_from_raw", "file type {:?} version {}", ft, cfg.version);
    }
    Ok(())
}

/// "For any input whatsoever every yielded range is non-empty and begins below the tombstone addresses."
fn check_any_input(ch: &mut Choices, cx: &mut Ctx) -> R {
    let cfg = Cfg::decode(ch);
    let n = ch.below(64);
    let bytes = ch.bytes(n);
    let endian = cfg.endian();
    let enc = cfg.encoding();
    let a = cfg.address_size;
    let tomb = mask(a) - 1;
    let base = gen_addr(ch, a);
    let addr_bytes = ch.bytes(16);
    let da = DebugAddr::from(EndianSlice::new(&addr_bytes[..], endian));
    let ranges = RangeLists::new(DebugRanges::new(&bytes, endian), DebugRngLists::new(&bytes, endian));
    let locs = LocationLists::new(DebugLoc::new(&bytes, endian), DebugLocLists::new(&bytes, endian));
    cx.sample_with(|| format!("arbitrary list bytes {:02x?} under {} base {:#x}", bytes, cfg.describe(), base));
    let bound = bytes.len() + 4;
    if let Ok(mut it) = ranges.ranges(RangeListsOffset(0), enc, base, &da, DebugAddrBase(0)) {
        let mut n = 0;
        loop {
            match it.next() {
                Ok(Some(r)) => {
                    ensure!(r.begin < r.end, "c08/any-input/empty-range", "[{:#x},{:#x})", r.begin, r.end);
                    ensure!(r.begin < tomb, "c08/any-input/tombstone-range", "[{:#x},{:#x}) address size {}", r.begin, r.end, a);
                }
                Ok(None) => break,
                Err(_) => {}
            }
            n += 1;
            ensure!(n <= bound, "c08/any-input/unbounded", "range list iterator did not finish within {} steps", bound);
        }
    }
    for dwo in [false, true] {
        let it = if dwo { locs.locations_dwo(LocationListsOffset(0), enc, base, &da, DebugAddrBase(0)) } else { locs.locations(LocationListsOffset(0), enc, base, &da, DebugAddrBase(0)) };
        if let Ok(mut it) = it {
            let mut n = 0;
            loop {
                match it.next() {
                    Ok(Some(r)) => {
                        ensure!(r.range.begin < r.range.end, "c08/any-input/empty-range", "[{:#x},{:#x})", r.range.begin, r.range.end);
                        ensure!(r.range.begin < tomb, "c08/any-input/tombstone-range", "[{:#x},{:#x}) address size {}", r.range.begin, r.range.end, a);
                    }
                    Ok(None) => break,
                    Err(_) => {}
                }
                n += 1;
                ensure!(n <= bound, "c08/any-input/unbounded", "location list iterator did not finish within {} steps", bound);
            }
        }
    }
    Ok(())
}

impl Prop for C08 {
    fn id(&self) -> &'static str {
        "C08"
    }
    fn rule(&self) -> &'static str {
        "generated cases: 1-3 range lists and 1-3 location lists of 0-12 entries over every DW_RLE_*/DW_LLE_* kind, the legacy pair format with base-address selection entries, and GNU split-DWARF LLE entries in .debug_loc (2-byte expression length, 4-byte startx_length), boundary addresses (0, 1, max-2, max-1, max, wrap-around sums), .debug_addr tables behind a non-zero addr_base with in- and out-of-range indices, v5 headers with offset tables behind non-zero bases, x {byte order, address size 1/2/4/8, 32/64-bit, versions 2-5}. Oracle: list model (running base, indexed addresses, start+length modulo the address size, default_location = [0,u64::MAX), documented tombstone/empty filters). Checked: raw iteration = encoded entries one for one, cooked iteration = model, get_offset = base + table[index], and through a generated unit: Unit bases, attr_ranges_offset, die_ranges/unit_ranges for list-backed and low_pc/high_pc (address | data1/2 | udata) entries, attr_locations via sec_offset / loclistx / legacy data4/data8, ranges_offset_from_raw for Main vs Dwo; separate mode: arbitrary bytes -> every yielded range non-empty and below the tombstones, iterator finishes within len+4 steps. Non-trivial = >=3 entries, >=1 base-address change, >=1 entry the cooked iterator must skip; distinct by choice string. Later additions: Unit::copy_relocated_attributes; every question also through Dwarf::borrow and through UnitRef; raw iterators stay at the end; the std Iterator views of the four list iterators."
    }
    fn assumptions(&self) -> Vec<&'static str> {
        vec![
            "tombstone and begin>=end filtering, DW_LLE_default_location = [0, u64::MAX) and GNU split-DWARF location encodings are gimli's documented behaviour and are part of the model",
            "the single low_pc/high_pc range of die_ranges is compared with the model but not subjected to the non-empty clause",
            "after an address-table lookup error only the entries before it are compared",
        ]
    }
    fn max_len(&self) -> usize {
        500
    }
    fn cases(&self, tier: Tier, dev: bool) -> u64 {
        match (tier, dev) {
            (Tier::Quick, false) => 100_000,
            (Tier::Quick, true) => 10_000,
            (Tier::Thorough, false) => 4_000_000,
            (Tier::Thorough, true) => 300_000,
        }
    }
    fn run_case(&self, ch: &mut Choices, cx: &mut Ctx) -> R {
        if ch.chance(40) {
            cx.label("mode:any-input");
            return check_any_input(ch, cx);
        }
        let c = gen_case(ch);
        cx.sample_with(|| format!("{} base {:#x} addr_base {} addrs {:x?} range lists {:?} location lists {:?}", c.cfg.describe(), c.base, c.addr_base, c.addrs, c.rng, c.loc));
        check_lists(&c, cx)
    }
}
