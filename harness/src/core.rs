//! Engine: choice-string decoding, failure/ctx types, statistics, panic capture.
#![allow(dead_code)]

use std::cell::RefCell;
use std::collections::{BTreeMap, HashSet};
use std::panic::{self, AssertUnwindSafe};

// ---------------------------------------------------------------------------
// Choice strings
// ---------------------------------------------------------------------------

/// Cursor over a "choice string". Every structured input of every check is
/// decoded from one of these. When the bytes run out the cursor yields zeros,
/// so every byte string decodes to some structure and shorter / smaller
/// strings decode to simpler structures (which is what makes proptest's
/// shrinking of the byte vector a structural shrinker).
pub struct Choices<'a> {
    data: &'a [u8],
    pos: usize,
}

pub const BOUNDARY_BITS: [u32; 12] = [1, 6, 7, 8, 14, 15, 16, 31, 32, 61, 63, 64];

impl<'a> Choices<'a> {
    pub fn new(data: &'a [u8]) -> Self {
        Choices { data, pos: 0 }
    }
    pub fn consumed(&self) -> &'a [u8] {
        &self.data[..self.pos.min(self.data.len())]
    }
    pub fn exhausted(&self) -> bool {
        self.pos >= self.data.len()
    }
    pub fn remaining(&self) -> usize {
        self.data.len().saturating_sub(self.pos)
    }
    pub fn u8(&mut self) -> u8 {
        let v = self.data.get(self.pos).copied().unwrap_or(0);
        self.pos += 1;
        v
    }
    pub fn bool(&mut self) -> bool {
        self.u8() & 1 == 1
    }
    /// true with probability about num/256
    pub fn chance(&mut self, num: u32) -> bool {
        (self.u8() as u32) >= 256 - num.min(256)
    }
    pub fn u16(&mut self) -> u16 {
        (self.u8() as u16) | ((self.u8() as u16) << 8)
    }
    pub fn u32(&mut self) -> u32 {
        (self.u16() as u32) | ((self.u16() as u32) << 16)
    }
    pub fn u64(&mut self) -> u64 {
        (self.u32() as u64) | ((self.u32() as u64) << 32)
    }
    /// value in 0..n (n >= 1), monotone in the choice bytes
    pub fn below(&mut self, n: usize) -> usize {
        if n <= 1 {
            return 0;
        }
        if n <= 256 {
            (self.u8() as usize * n) >> 8
        } else if n <= 65536 {
            (self.u16() as usize * n) >> 16
        } else {
            ((self.u32() as u64 as u128 * n as u128) >> 32) as usize
        }
    }
    /// value in lo..=hi
    pub fn range(&mut self, lo: i64, hi: i64) -> i64 {
        debug_assert!(lo <= hi);
        let span = (hi as i128 - lo as i128 + 1) as u128;
        if span <= (1 << 32) {
            lo + self.below(span as usize) as i64
        } else {
            let v = self.u64() as u128;
            (lo as i128 + ((v * span) >> 64) as i128) as i64
        }
    }
    pub fn pick<T: Copy>(&mut self, xs: &[T]) -> T {
        xs[self.below(xs.len())]
    }
    /// weighted choice: returns index; weights need not sum to anything special
    pub fn weighted(&mut self, weights: &[u32]) -> usize {
        let total: u32 = weights.iter().sum();
        let mut r = (self.u8() as u32 * total) >> 8;
        for (i, w) in weights.iter().enumerate() {
            if r < *w {
                return i;
            }
            r -= *w;
        }
        weights.len() - 1
    }
    /// Boundary-biased unsigned value of at most `bits` bits.
    pub fn biased(&mut self, bits: u32) -> u64 {
        let mask = if bits >= 64 { u64::MAX } else { (1u64 << bits) - 1 };
        let sel = self.u8();
        let v = match sel % 16 {
            0 => 0,
            1 => 1,
            2 => self.u8() as u64 & 0x7f,
            3 => self.u8() as u64,
            4 => self.u16() as u64,
            5 => self.u32() as u64,
            6 => self.u64(),
            7 => mask,
            8 => mask.wrapping_sub(1),
            9 => mask >> 1,
            10 => (mask >> 1).wrapping_add(1),
            11..=13 => {
                // around a power of two
                let k = BOUNDARY_BITS[(sel as usize / 16) % BOUNDARY_BITS.len()].min(bits);
                let p = if k >= 64 { 0u64 } else { 1u64 << k };
                match sel % 16 {
                    11 => p.wrapping_sub(1),
                    12 => p,
                    _ => p.wrapping_add(1),
                }
            }
            14 => self.u8() as u64 % 8,
            _ => mask.wrapping_sub(self.u8() as u64 % 4),
        };
        v & mask
    }
    /// Boundary-biased signed value fitting in `bits` bits (two's complement).
    pub fn biased_signed(&mut self, bits: u32) -> i64 {
        let raw = self.biased(bits);
        if bits >= 64 {
            raw as i64
        } else {
            let sh = 64 - bits;
            ((raw << sh) as i64) >> sh
        }
    }
    /// A signed value next to a size step of signed LEB128: +-2^(7k-1) and its neighbours, k = 1..=9, or i64::MIN/MAX.
    pub fn sleb_edge(&mut self) -> i64 {
        let k = 1 + self.below(9) as u32;
        let p: i128 = 1i128 << (7 * k - 1);
        let d = self.below(3) as i128 - 1;
        let v = if self.bool() { -p + d } else { p + d };
        v.clamp(i64::MIN as i128, i64::MAX as i128) as i64
    }
    /// Small count in 0..=max, biased towards small
    pub fn count(&mut self, max: usize) -> usize {
        let b = self.u8() as usize;
        if max == 0 {
            return 0;
        }
        // quadratic bias towards small values, monotone
        (b * b * (max + 1)) >> 16
    }
    pub fn bytes(&mut self, n: usize) -> Vec<u8> {
        (0..n).map(|_| self.u8()).collect()
    }
}

// ---------------------------------------------------------------------------
// Failures and per-case context
// ---------------------------------------------------------------------------

#[derive(Clone, Debug)]
pub struct Failure {
    /// Stable signature: check label + differing field / panic site. Used for
    /// same-defect shrinking and for known-finding matching.
    pub sig: String,
    pub detail: String,
}

pub type R<T = ()> = Result<T, Failure>;

#[macro_export]
macro_rules! fail {
    ($sig:expr, $($arg:tt)*) => {
        return Err($crate::core::Failure { sig: ($sig).to_string(), detail: format!($($arg)*) })
    };
}

#[macro_export]
macro_rules! ensure {
    ($cond:expr, $sig:expr, $($arg:tt)*) => {
        if !($cond) {
            return Err($crate::core::Failure { sig: ($sig).to_string(), detail: format!($($arg)*) });
        }
    };
}

/// The `std::iter::Iterator` view of a fallible iterator yields what its inherent `next` yields: `Some(Ok(x))` for
/// every item, `Some(Err(e))` for an error, `None` at the end. `$make` builds a fresh iterator (evaluated twice),
/// `$show` renders an item.
#[macro_export]
macro_rules! std_iter_agrees {
    ($make:expr, $show:expr, $sig:expr) => {{
        let mut a = $make;
        let mut b = $make;
        let mut n = 0usize;
        loop {
            let x = a.next();
            let y = ::std::iter::Iterator::next(&mut b);
            match (x, y) {
                (Ok(Some(p)), Some(Ok(q))) => {
                    let (sp, sq): (String, String) = ($show(&p), $show(&q));
                    if sp != sq {
                        return Err($crate::core::Failure { sig: ($sig).to_string(), detail: format!("item #{}: inherent next gives {} but Iterator::next gives {}", n, sp, sq) });
                    }
                }
                (Ok(None), None) => break,
                (Err(e1), Some(Err(e2))) => {
                    if format!("{:?}", e1) != format!("{:?}", e2) {
                        return Err($crate::core::Failure { sig: ($sig).to_string(), detail: format!("item #{}: inherent next fails with {:?} but Iterator::next with {:?}", n, e1, e2) });
                    }
                    break;
                }
                (x, y) => {
                    return Err($crate::core::Failure {
                        sig: ($sig).to_string(),
                        detail: format!("item #{}: inherent next {} but Iterator::next {}", n, match x { Ok(Some(_)) => "yields an item".to_string(), Ok(None) => "is at the end".to_string(), Err(e) => format!("fails with {:?}", e) }, match y { Some(Ok(_)) => "yields an item".to_string(), None => "is at the end".to_string(), Some(Err(e)) => format!("fails with {:?}", e) }),
                    });
                }
            }
            n += 1;
            if n > 20_000 {
                break;
            }
        }
    }};
}

#[macro_export]
macro_rules! ensure_eq {
    ($a:expr, $b:expr, $sig:expr) => {{
        let a = &$a;
        let b = &$b;
        if a != b {
            return Err($crate::core::Failure {
                sig: ($sig).to_string(),
                detail: format!("{}: gimli={:?} expected={:?}", stringify!($a), a, b),
            });
        }
    }};
    ($a:expr, $b:expr, $sig:expr, $($arg:tt)*) => {{
        let a = &$a;
        let b = &$b;
        if a != b {
            return Err($crate::core::Failure {
                sig: ($sig).to_string(),
                detail: format!("{}: gimli={:?} expected={:?} [{}]", stringify!($a), a, b, format!($($arg)*)),
            });
        }
    }};
}

#[derive(Clone, Debug)]
pub struct Known {
    pub id: String,
    pub property: String,
    pub signature: String,
    pub what: String,
}

pub struct Ctx<'k> {
    pub labels: Vec<&'static str>,
    pub nontrivial: bool,
    pub want_sample: bool,
    pub sample: Option<String>,
    pub strict: bool,
    pub verbose: bool,
    pub dev: bool,
    pub known: &'k [Known],
    pub known_hits: Vec<usize>,
}

impl<'k> Ctx<'k> {
    pub fn new(known: &'k [Known], strict: bool, dev: bool) -> Self {
        Ctx {
            labels: Vec::new(),
            nontrivial: false,
            want_sample: false,
            sample: None,
            strict,
            verbose: false,
            dev,
            known,
            known_hits: Vec::new(),
        }
    }
    pub fn label(&mut self, l: &'static str) {
        if !self.labels.contains(&l) {
            self.labels.push(l);
        }
    }
    pub fn nt(&mut self) {
        self.nontrivial = true;
    }
    pub fn sample_with<F: FnOnce() -> String>(&mut self, f: F) {
        if (self.want_sample || self.verbose) && self.sample.is_none() {
            self.sample = Some(f());
        }
    }
    pub fn say<F: FnOnce() -> String>(&self, f: F) {
        if self.verbose {
            println!("{}", f());
        }
    }
    /// Soft failure: tolerated (and counted) if it matches a known finding and
    /// we are not in strict mode, otherwise propagated.
    pub fn report(&mut self, f: Failure) -> R {
        if !self.strict {
            for (i, k) in self.known.iter().enumerate() {
                if f.sig.contains(&k.signature) {
                    self.known_hits.push(i);
                    return Ok(());
                }
            }
        }
        Err(f)
    }
    /// Run a closure, turning a panic into a Failure with the given label, and
    /// passing it through `report`.
    pub fn guard<T, F: FnOnce() -> T>(&mut self, label: &str, f: F) -> R<Option<T>> {
        match catch(label, f) {
            Ok(v) => Ok(Some(v)),
            Err(e) => {
                self.report(e)?;
                Ok(None)
            }
        }
    }
}

// ---------------------------------------------------------------------------
// Panic capture
// ---------------------------------------------------------------------------

thread_local! {
    static LAST_PANIC: RefCell<Option<(String, String)>> = const { RefCell::new(None) };
}

pub fn install_panic_hook() {
    panic::set_hook(Box::new(|info| {
        let loc = info
            .location()
            .map(|l| format!("{}:{}", l.file(), l.line()))
            .unwrap_or_else(|| "?".into());
        let msg = if let Some(s) = info.payload().downcast_ref::<&str>() {
            s.to_string()
        } else if let Some(s) = info.payload().downcast_ref::<String>() {
            s.clone()
        } else {
            "<non-string panic>".to_string()
        };
        LAST_PANIC.with(|p| *p.borrow_mut() = Some((loc, msg)));
    }));
}

fn normalise_file(loc: &str) -> String {
    // strip everything up to "src/" so that scratch copies give the same signature; drop the line
    let file = loc.rsplit_once(':').map(|x| x.0).unwrap_or(loc);
    match file.find("src/") {
        Some(i) => file[i..].to_string(),
        None => file.to_string(),
    }
}

fn normalise_msg(msg: &str) -> String {
    let mut out = String::new();
    let mut last_hash = false;
    for c in msg.chars().take(120) {
        if c.is_ascii_digit() {
            if !last_hash {
                out.push('#');
            }
            last_hash = true;
        } else {
            last_hash = false;
            out.push(if c == '\n' { ' ' } else { c });
        }
    }
    out
}

/// Run `f`, converting a panic into a Failure whose signature names the label,
/// the source file and the (digit-normalised) message.
pub fn catch<T, F: FnOnce() -> T>(label: &str, f: F) -> R<T> {
    match panic::catch_unwind(AssertUnwindSafe(f)) {
        Ok(v) => Ok(v),
        Err(_) => {
            let (loc, msg) = LAST_PANIC
                .with(|p| p.borrow_mut().take())
                .unwrap_or_else(|| ("?".into(), "?".into()));
            Err(Failure {
                sig: format!("{}/panic:{}:{}", label, normalise_file(&loc), normalise_msg(&msg)),
                detail: format!("panicked at {}: {}", loc, msg),
            })
        }
    }
}

// ---------------------------------------------------------------------------
// Hang watch: which case each worker thread is running and since when
// ---------------------------------------------------------------------------

pub struct WatchSlot {
    /// milliseconds since process start at which the current case began (0 = idle)
    pub since_ms: std::sync::atomic::AtomicU64,
    /// set once the slot has been reported, so it is reported once
    pub reported: std::sync::atomic::AtomicBool,
    pub info: std::sync::Mutex<(String, Vec<u8>)>,
}

pub const WATCH_SLOTS: usize = 64;

pub static WATCH: std::sync::LazyLock<Vec<WatchSlot>> = std::sync::LazyLock::new(|| {
    (0..WATCH_SLOTS)
        .map(|_| WatchSlot { since_ms: std::sync::atomic::AtomicU64::new(0), reported: std::sync::atomic::AtomicBool::new(false), info: std::sync::Mutex::new((String::new(), Vec::new())) })
        .collect()
});

pub static PROCESS_START: std::sync::LazyLock<std::time::Instant> = std::sync::LazyLock::new(std::time::Instant::now);

thread_local! {
    static WATCH_SLOT: std::cell::Cell<usize> = const { std::cell::Cell::new(usize::MAX) };
}

pub fn watch_register(slot: usize) {
    WATCH_SLOT.with(|c| c.set(slot));
}

pub fn now_ms() -> u64 {
    PROCESS_START.elapsed().as_millis() as u64 + 1
}

/// Mark the start of a case on this thread (no-op on unregistered threads).
pub fn watch_begin(mode: &str, data: &[u8]) {
    let i = WATCH_SLOT.with(|c| c.get());
    if i >= WATCH_SLOTS {
        return;
    }
    let s = &WATCH[i];
    if let Ok(mut g) = s.info.lock() {
        g.0.clear();
        g.0.push_str(mode);
        g.1.clear();
        g.1.extend_from_slice(data);
    }
    s.reported.store(false, std::sync::atomic::Ordering::SeqCst);
    s.since_ms.store(now_ms(), std::sync::atomic::Ordering::SeqCst);
}

/// Mark the end of the case; returns its duration in milliseconds.
pub fn watch_end() -> u64 {
    let i = WATCH_SLOT.with(|c| c.get());
    if i >= WATCH_SLOTS {
        return 0;
    }
    let t0 = WATCH[i].since_ms.swap(0, std::sync::atomic::Ordering::SeqCst);
    if t0 == 0 {
        0
    } else {
        now_ms().saturating_sub(t0)
    }
}

// ---------------------------------------------------------------------------
// Statistics
// ---------------------------------------------------------------------------

#[derive(Default)]
pub struct Stats {
    pub evaluations: u64,
    pub exhaustive_evals: u64,
    pub nontrivial_total: u64,
    pub nt_hashes: HashSet<u64>,
    /// non-trivial cases counted by exhaustive enumerations (distinct by construction)
    pub nt_exhaustive: u64,
    pub labels: BTreeMap<String, u64>,
    pub samples: Vec<String>,
    pub known_hits: BTreeMap<String, u64>,
    pub failures: Vec<(Failure, String)>, // failure, replay path
    pub exhaustive_complete: Vec<String>,
    pub notes: Vec<String>,
    /// longest single case (milliseconds)
    pub max_case_ms: u64,
}

pub const MAX_SAMPLES: usize = 6;

impl Stats {
    pub fn bump(&mut self, label: &str, n: u64) {
        *self.labels.entry(label.to_string()).or_insert(0) += n;
    }
    pub fn merge(&mut self, o: Stats) {
        self.evaluations += o.evaluations;
        self.exhaustive_evals += o.exhaustive_evals;
        self.nontrivial_total += o.nontrivial_total;
        self.nt_exhaustive += o.nt_exhaustive;
        self.nt_hashes.extend(o.nt_hashes);
        for (k, v) in o.labels {
            *self.labels.entry(k).or_insert(0) += v;
        }
        for s in o.samples {
            if self.samples.len() < MAX_SAMPLES * 2 {
                self.samples.push(s);
            }
        }
        for (k, v) in o.known_hits {
            *self.known_hits.entry(k).or_insert(0) += v;
        }
        self.failures.extend(o.failures);
        for e in o.exhaustive_complete {
            if !self.exhaustive_complete.contains(&e) {
                self.exhaustive_complete.push(e);
            }
        }
        self.notes.extend(o.notes);
        self.max_case_ms = self.max_case_ms.max(o.max_case_ms);
    }
}

pub fn fnv64(data: &[u8]) -> u64 {
    let mut h: u64 = 0xcbf29ce484222325;
    for b in data {
        h ^= *b as u64;
        h = h.wrapping_mul(0x100000001b3);
    }
    h
}

pub fn mix_seed(seed: u64, parts: &[&str], n: u64) -> u64 {
    let mut h = fnv64(&seed.to_le_bytes());
    for p in parts {
        h = fnv64(&[&h.to_le_bytes()[..], p.as_bytes()].concat());
    }
    fnv64(&[&h.to_le_bytes()[..], &n.to_le_bytes()[..]].concat())
}

pub fn hex(data: &[u8]) -> String {
    let mut s = String::with_capacity(data.len() * 2);
    for b in data {
        s.push_str(&format!("{:02x}", b));
    }
    s
}

pub fn unhex(s: &str) -> Vec<u8> {
    let s: Vec<u8> = s.bytes().filter(|b| b.is_ascii_hexdigit()).collect();
    s.chunks(2)
        .filter(|c| c.len() == 2)
        .map(|c| u8::from_str_radix(std::str::from_utf8(c).unwrap(), 16).unwrap())
        .collect()
}

#[derive(Clone, Copy, PartialEq, Eq, Debug)]
pub enum Tier {
    Quick,
    Thorough,
}

impl Tier {
    pub fn name(self) -> &'static str {
        match self {
            Tier::Quick => "quick",
            Tier::Thorough => "thorough",
        }
    }
}

/// What every property implements.
pub trait Prop: Sync + Send {
    fn id(&self) -> &'static str;
    /// how cases are generated and what makes one non-trivial
    fn rule(&self) -> &'static str;
    fn assumptions(&self) -> Vec<&'static str> {
        Vec::new()
    }
    /// maximal length of the random choice string
    fn max_len(&self) -> usize {
        256
    }
    /// total number of random cases for this tier / profile (split across threads)
    fn cases(&self, tier: Tier, dev: bool) -> u64;
    /// one generated case
    fn run_case(&self, ch: &mut Choices, cx: &mut Ctx) -> R;
    /// exhaustive / enumerated sub-domains; shard `shard` of `nshards`.
    /// Calls `ex.case(..)` for each enumerated case.
    fn exhaustive(&self, _tier: Tier, _dev: bool, _shard: usize, _nshards: usize, _ex: &mut Exhaust) {}
    /// replay of a case found by an exhaustive mode (`mode` != "choices")
    fn replay_special(&self, mode: &str, _data: &[u8], _cx: &mut Ctx) -> R {
        Err(Failure { sig: "replay/unknown-mode".into(), detail: format!("unknown replay mode {mode}") })
    }
}

/// Collector handed to exhaustive enumerations.
pub struct Exhaust<'a, 'k> {
    pub stats: &'a mut Stats,
    pub known: &'k [Known],
    pub dev: bool,
    pub prop_id: &'static str,
    pub profile: &'static str,
    pub stop: bool,
}

impl<'a, 'k> Exhaust<'a, 'k> {
    /// Run one enumerated case. `mode`/`data` identify it for replay.
    pub fn case<F: FnOnce(&mut Ctx) -> R>(&mut self, mode: &str, data: &[u8], f: F) {
        if self.stop {
            return;
        }
        let mut cx = Ctx::new(self.known, false, self.dev);
        cx.want_sample = false;
        watch_begin(mode, data);
        let r = match catch(mode, || f(&mut cx)) {
            Ok(r) => r,
            Err(e) => Err(e),
        };
        let ms = watch_end();
        self.stats.max_case_ms = self.stats.max_case_ms.max(ms);
        let r = match r {
            Ok(()) => Ok(()),
            Err(e) => cx.report(e),
        };
        self.stats.evaluations += 1;
        self.stats.exhaustive_evals += 1;
        if cx.nontrivial {
            self.stats.nontrivial_total += 1;
            self.stats.nt_exhaustive += 1;
        }
        for l in &cx.labels {
            self.stats.bump(l, 1);
        }
        for i in &cx.known_hits {
            *self.stats.known_hits.entry(self.known[*i].id.clone()).or_insert(0) += 1;
        }
        if let Err(e) = r {
            let path = crate::driver::write_replay(self.prop_id, mode, self.profile, data, &e);
            self.stats.failures.push((e, path));
            self.stop = true;
        }
    }
    /// Cheap variant for tight loops: the caller did the check itself.
    pub fn tally(&mut self, n: u64, nontrivial: u64, label: &str) {
        self.stats.evaluations += n;
        self.stats.exhaustive_evals += n;
        self.stats.nontrivial_total += nontrivial;
        self.stats.nt_exhaustive += nontrivial;
        self.stats.bump(label, n);
    }
    pub fn fail(&mut self, mode: &str, data: &[u8], e: Failure) {
        let mut cx = Ctx::new(self.known, false, self.dev);
        if cx.report(e.clone()).is_ok() {
            for i in &cx.known_hits {
                *self.stats.known_hits.entry(self.known[*i].id.clone()).or_insert(0) += 1;
            }
            return;
        }
        let path = crate::driver::write_replay(self.prop_id, mode, self.profile, data, &e);
        self.stats.failures.push((e, path));
        self.stop = true;
    }
    pub fn complete(&mut self, what: &str) {
        if !self.stop {
            self.stats.exhaustive_complete.push(what.to_string());
        }
    }
    pub fn sample(&mut self, s: String) {
        if self.stats.samples.len() < MAX_SAMPLES {
            self.stats.samples.push(s);
        }
    }
}
